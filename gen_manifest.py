#!/usr/bin/env python3
"""Regenerate MANIFEST.json from vlib/registry.py (single source of truth)."""
import json, os, sys
HERE = os.path.dirname(os.path.abspath(__file__))
sys.path.insert(0, HERE)
from vlib import registry

ALL = [json.loads(l)['id'] for l in open(os.path.join(HERE, 'properties.jsonl'))]
checks = []
for pid in ALL:
    cfg = registry.PROPS.get(pid)
    if not cfg:
        continue
    checks.append({
        'property_id': pid,
        'quick_cmd': f'python3-vt check.py {pid} --tier quick',
        'thorough_cmd': f'python3-vt check.py {pid} --tier thorough',
        'evidence_file': f'/verif/evidence/{pid}.json',
        'replay_cmd_template': 'python3-vt check.py --replay {path}',
        'engine': 'pyvc+frames+bounded',
        'level_claimed': {'category': cfg['level'], 'text': cfg['level_text'], 'design_ref': f'DESIGN.md §4 {pid}'},
        'level_note': cfg['level_note'],
        'technique': cfg['technique'],
    })
na = [{'property_id': pid, 'reason': registry.NOT_APPLICABLE.get(pid, 'check not built yet in this round (see DESIGN.md §8); not claimed')}
      for pid in ALL if pid not in registry.PROPS]
m = {
    'version': 1,
    'setup_cmd': 'python3-vt setup_check.py',
    'hooks': {'guard': 'OMBOTT_VERIF', 'enable': 'none: contracts, frames and monitors are sidecar files in /verif; /repo carries no hooks',
              'baseline_off_cmd': 'cd /repo && /venv/bin/python -m pytest -ra -q -p no:cacheprovider --timeout=900 --continue-on-collection-errors',
              'source_commits': [], 'add_only': True},
    'engines': [
        {'name': 'pyvc', 'path': 'pyvc/', 'serves_properties': sorted(p for p, c in registry.PROPS.items() if c.get('contracts')),
         'kind_free_text': 'verification-condition generator over the real Python AST (loop invariants, callee contracts, ghost state), z3 then cvc5'},
        {'name': 'frames', 'path': 'frames/', 'serves_properties': sorted(p for p, c in registry.PROPS.items() if c.get('frames')),
         'kind_free_text': 'frame / ownership / dominance obligations over the real AST (write-site classification, init-dominates-use)'},
        {'name': 'bounded', 'path': 'bounded/', 'serves_properties': sorted(registry.PROPS),
         'kind_free_text': 'bounded run-time contract checks of the real functions (stand-in + replay harness; never counted as proved)'},
    ],
    'checks': checks,
    'not_applicable': na,
    'notes': 'Exit 2 = undecided (solver unknown / code outside the modelled subset), exit 3 = machinery failure. '
             'Known findings: known_findings.json. Seeded changes: seeded/.',
}
json.dump(m, open(os.path.join(HERE, 'MANIFEST.json'), 'w'), indent=1)
print(f'{len(checks)} checks, {len(na)} not applicable')
