#!/usr/bin/env python3-vt
"""developer tool: run the contracts of one module and print every obligation with its verdict
usage: python3-vt pyvc_run.py <contracts module> [--repo DIR] [--both] [--only QUALNAME]"""
import argparse, importlib, os, sys, time
HERE = os.path.dirname(os.path.abspath(__file__))
sys.path.insert(0, HERE)
sys.dont_write_bytecode = True
ap = argparse.ArgumentParser()
ap.add_argument('module'); ap.add_argument('--repo', default=os.environ.get('VERIF_REPO', '/repo'))
ap.add_argument('--both', action='store_true'); ap.add_argument('--only'); ap.add_argument('-v', action='store_true')
a = ap.parse_args()
from pyvc import verify
mod = importlib.import_module('contracts.' + a.module)
cs = [c for c in mod.CONTRACTS if not a.only or a.only in (c.qualname, type(c).__name__)]
t = time.time()
rep = verify.verify(cs, a.repo, both=a.both)
for f in rep['functions']:
    print('FUNC', f['qualname'], {k: f[k] for k in f if k in ('paths', 'loops', 'unsupported', 'missing_labels', 'error')})
for o in rep['obligations']:
    if a.v or o['status'] != 'discharged':
        print(f"  {o['status']:11s} {o['name']}  q={o['queries']} t={o['time']} {o['backend']} {o.get('reason','')}")
for (c, d, o, r) in rep['failed'][:6]:
    m = verify.counter_model(o)
    print('FAILED', c.qualname, o.label, 'path', o.path, 'where', o.where)
    if m is not None:
        print('   model:', str(m)[:1200])
print(f"{rep['n_discharged']}/{rep['n_obligations']} discharged, {rep['n_queries']} queries, solver {rep['solver_time_s']}s, wall {time.time()-t:.1f}s; problems: {rep['problems']}")
