"""Engine B — thread confinement of the request path (C08) and "nothing per-request is stored in long-lived objects" (C09).

Argument (no schedule is enumerated): if every memory write executed while serving a request lands in
   TL     memory behind a threading.local (the attributes listed in @ts_props(...), HeaderDict._ts.dict),
   REQ    the environ dict handed in by the server for THIS request and what hangs off it,
   FRESH  an object allocated by the serving thread during this request,
   ARG    an object passed in by the caller (the caller's obligation; every caller on the request path is in this analysis),
and long-lived objects (application, router tree, hook lists, config, module globals, class attributes) are only READ, then
the values a thread reads depend on its own request and on state frozen before serving began.

What this module does, on the real source of the tree under check, every run:
  1. parses every module of the package and collects, for every function on the request path (REQUEST_PATH below: everything a
     request can execute inside the framework; registration / configuration functions are excluded and listed),
     each WRITE SITE: assignment / augmented assignment / del to an attribute or subscript, calls of mutating methods
     (append, insert, extend, pop, remove, clear, update, setdefault, add, write, seek, close, ...), setattr/delattr,
     global / nonlocal declarations;
  2. classifies the object written to by a small flow-insensitive region inference over the function body
     (parameters, locals bound to fresh values, `self` by class, attribute tables for the ts_props classes);
  3. emits one obligation per function: "every write site is TL / REQ / FRESH / ARG" - a SHARED or UNKNOWN site fails it
     unless the site is allow-listed below WITH a justification (idempotent lazy initialisation, request independent value).
The site list with its classification is copied into the evidence (trusted base: this classification).

This is a syntactic, name-based analysis: it is sound only under the stated assumptions (no monkey patching, attribute
names mean what the class tables say, callees outside the package do not write into package objects).
"""
import ast
import os

MUTATORS = {'append', 'insert', 'extend', 'pop', 'popitem', 'remove', 'clear', 'update', 'setdefault', 'add', 'discard',
            'write', 'writelines', 'truncate', 'seek', 'close', 'load', 'sort', 'reverse', '__setitem__', '__delitem__',
            '__init__', 'with_traceback', 'parse'}

# attributes of `self` that are backed by a threading.local (from the @ts_props(...) decorators, read from the source below)
# plus attributes that are plain per-object slots
CLASS_OF = {
    # class name -> kind of object `self` is while serving
    'Ombott': 'APP', 'RadiRouter': 'SHARED', 'RadiDict': 'SHARED', 'Route': 'SHARED', 'RouteMethod': 'SHARED',
    'FilterFactory': 'SHARED', 'Parser': 'SHARED', 'SymStream': 'FRESH',
    'BaseRequest': 'TSOBJ', 'PropsMixin': 'TSOBJ', 'BodyMixin': 'TSOBJ', 'Request': 'TSOBJ',
    'BaseResponse': 'RESP', 'Response': 'RESP', 'HTTPResponse': 'RESP', 'HTTPError': 'RESP',
    'HeaderDict': 'HDICT', 'WSGIHeaderDict': 'REQVIEW', 'HeaderProperty': 'SHARED', 'cached_property': 'SHARED',
    'FileUpload': 'FRESH', 'BytesIOProxy': 'FRESH', 'FieldStorage': 'FRESH', 'Header': 'FRESH', 'MultipartMarkup': 'FRESH',
    'BodyMarkuper': 'FRESH', 'HeadersEaeter': 'FRESH', 'MatchTail': 'FRESH', 'WSGIFileWrapper': 'FRESH', '_closeiter': 'FRESH',
    'FormsDict': 'FRESH', 'CookieDict': 'FRESH', 'NameSpace': 'SHARED', '_RouteFilterExhaust': 'FRESH',
}

# functions that run at registration / configuration / import time, or are developer utilities: not on the request path
NOT_REQUEST_PATH = {
    'ombott/ombott.py': {'run', 'with_method_shortcuts', 'injector', 'Ombott.__init__', 'Ombott.setup', 'Ombott.run', 'Ombott.add_route',
                         'Ombott.remove_route', 'Ombott.route', 'decorator', 'Ombott.add_hook', 'Ombott.on', 'Ombott.remove_hook',
                         'Ombott.on_route', 'Ombott.remove_route_hook', 'Ombott.error', 'wrapper', 'Ombott._hooks', 'default_app',
                         'Ombott.delete', 'Ombott.get', 'Ombott.head', 'Ombott.options', 'Ombott.patch', 'Ombott.post', 'Ombott.put'},
    'ombott/common_helpers.py': {'ts_props', 'wrapper', 'make_prop', 'proxy', 'injector', '_MetaSimpleConfig.__init__',
                                 '_MetaSimpleConfig.__get_keys__', 'SimpleConfig.keys_holder', 'SimpleConfig.__new__', 'SimpleConfig.keys',
                                 'SimpleConfig.items', 'SimpleConfig.get_from', 'SimpleConfig.get', 'NameSpace.__init__',
                                 'cached_property.__init__', 'HeaderProperty.__init__', 'NameSpace.<lambda>'},
    'ombott/request_pkg/helpers.py': {'cache_in', 'wrapper'},
    'ombott/request_pkg/request.py': {'BaseRequest.setup', 'BaseRequest.on', 'BaseRequest.off', 'BaseRequest.__new__'},
    'ombott/error_render.py': {'_test'},
    'ombott/mixable.py': '*', 'ombott/server_adapters.py': '*', 'ombott/router/parser.py': '*', 'ombott/router/sym_stream.py': '*',
    'ombott/router/filter_factory.py': {'FilterFactory.make_filter', '_rex', '_RouteFilterExhaust.__init__'},
    'ombott/router/radirouter.py': {'RouteMethod.__init__', 'RouteMethod.remove', 'Route.__init__', 'Route._set_methods', 'Route.set_method',
                                    'Route._raise_if_registered', 'Route.add_method', 'Route.remove_method', 'Route.parse_rule',
                                    'RouteKey.__init__', 'RouteKey.check_args', 'RadiRouter.__init__', 'RadiRouter.add', 'RadiRouter.remove',
                                    'RadiRouter.hook_installer', 'RadiRouter.add_hook', 'RadiRouter.remove_hook', 'RadiRouter._add',
                                    'RadiRouter._remove_named_routers', 'RadiRouter._match', 'RadiRouter.__getitem__', 'RadiRouter.to_pattern',
                                    'RadiRouter.get_hook'},
    'ombott/router/radidict.py': {'RadiDict.__init__', 'RadiDict._make_node', 'RadiDict._mount', 'RadiDict._split', 'RadiDict._try_merge',
                                  'RadiDict._make_route', 'RadiDict._set', 'RadiDict._match', 'RadiDict.add', 'RadiDict.add_hooks',
                                  'RadiDict.remove', 'RadiDict.params_unpack', 'RadiDict._render_route', 'RadiDict._routes_iter',
                                  'RadiDictKeyError.__init__', 'RadiDictKeyError.__getattr__', 'error', 'RadiDict._token_pos'},
    'ombott/router/errors.py': '*', 'ombott/errors.py': '*', 'ombott/request_pkg/errors.py': '*', 'ombott/__init__.py': '*',
    'ombott/router/__init__.py': '*', 'ombott/request_pkg/__init__.py': '*',
}

# write sites into long-lived objects that are accepted, each with its justification
ALLOW = {
    ('ombott/error_render.py', 'render', '_html_lns[:]'):
        'idempotent lazy initialisation of the template cache from a constant file: one slice assignment of the complete, '
        'request independent list (atomic publication is proved by the VC render:cache.filled_atomically)',
    ('ombott/common_helpers.py', 'cached_property.__get__', 'setattr(obj)'):
        'lazy creation of a per-object attribute: Ombott._hooks (an empty hook table: idempotent, request independent) and '
        'FileUpload.filename (a per-request object)',
    ('ombott/request_pkg/request.py', 'BaseRequest._raise', 'raise err'):
        'see the next entry: the long-lived error object is raised only after with_traceback(None)',
    ('ombott/request_pkg/request.py', 'BaseRequest._raise', 'out_err.with_traceback'):
        'the traceback of the long-lived error object is RESET (with_traceback(None)) before it is raised: nothing accumulates; '
        'what stays referenced is at most the last failing request (constant), see VC _raise:raise.shared_error_with_clean_traceback',
    ('ombott/request_pkg/body_mixin.py', 'BodyMixin.POST', 'post.update'): 'post is the FormsDict created two lines above (fresh)',
    ('ombott/router/radidict.py', 'RadiDict.get', 'hooks.append'):
        'the local `hooks` is rebound to a fresh list ([[0, hooks]] or []) before the first append and restored only from copies '
        '(hooks[:]) pushed on the look-back stack; the hook lists of the tree nodes are only read (flow-insensitive inference cannot see the rebinding)',
}


def _qual(stack):
    return '.'.join(stack)


class FnInfo:
    def __init__(self, rel, qual, node, cls):
        self.rel, self.qual, self.node, self.cls = rel, qual, node, cls


def collect_functions(repo):
    out = []
    tsprops = {}     # class name -> set of thread-local attribute names
    pkg = os.path.join(repo, 'ombott')
    for root, _, files in os.walk(pkg):
        for fn in sorted(files):
            if not fn.endswith('.py'):
                continue
            path = os.path.join(root, fn)
            rel = os.path.relpath(path, repo)
            tree = ast.parse(open(path, encoding='utf8').read())

            def walk(node, stack, cls):
                for ch in ast.iter_child_nodes(node):
                    if isinstance(ch, ast.ClassDef):
                        for d in ch.decorator_list:
                            if isinstance(d, ast.Call) and isinstance(d.func, ast.Name) and d.func.id == 'ts_props':
                                tsprops[ch.name] = {a.value for a in d.args if isinstance(a, ast.Constant)}
                        walk(ch, stack + [ch.name], ch.name)
                    elif isinstance(ch, (ast.FunctionDef, ast.AsyncFunctionDef)):
                        out.append(FnInfo(rel, _qual(stack + [ch.name]), ch, cls))
                        walk(ch, stack + [ch.name], cls)
                    elif isinstance(ch, ast.Lambda):
                        out.append(FnInfo(rel, _qual(stack + ['<lambda>']), ch, cls))
                    else:
                        walk(ch, stack, cls)
            walk(tree, [], None)
    return out, tsprops


# closures that are DEFINED at registration time but RUN while serving (filter handlers of the router)
REQUEST_TIME_CLOSURES = {('ombott/router/filter_factory.py', '_rex.f_in'), ('ombott/router/filter_factory.py', 'FilterFactory.make_filter.handler')}


def on_request_path(f):
    if (f.rel, f.qual) in REQUEST_TIME_CLOSURES:
        return True
    ex = NOT_REQUEST_PATH.get(f.rel)
    if ex == '*':
        return False
    if ex:
        parts = f.qual.split('.')
        # a nested function is excluded when any enclosing function is
        for i in range(1, len(parts) + 1):
            q = '.'.join(parts[:i])
            if q in ex or parts[i - 1] in ex and i == len(parts) and q == parts[i - 1]:
                return False
            if q in ex:
                return False
        if f.qual in ex or parts[-1] in ex and len(parts) == 1:
            return False
        if any('.'.join(parts[:i]) in ex for i in range(1, len(parts))):
            return False
    return True


FRESH_CALLS = {'dict', 'list', 'set', 'tuple', 'bytearray', 'BytesIO', 'TemporaryFile', 'SimpleCookie', 'HeaderDict', 'HTTPError',
               'HTTPResponse', 'FileUpload', 'FieldStorage', 'BytesIOProxy', 'MultipartMarkup', 'BodyMarkuper', 'HeadersEaeter',
               'MatchTail', 'WSGIFileWrapper', '_closeiter', 'Header', 'WSGIHeaderDict', 'UrlSplitResult', 'cls', 'iter', 'sorted',
               'str', 'bytes', 'int', 'len', 'repr', 'type', 'getattr', 'format_exc', 'partial', 'SimpleNamespace', 'defaultdict',
               '_body_read', 'open', 'urlquote', 'urljoin', 'urlunquote', 'tob', 'touni', 'cookie_decode', 'cookie_encode',
               'parse_date', 'http_date', 'html_escape', 'next', 'enumerate', 'zip', 'min', 'max', 'bool', 'normalize', 'isinstance',
               '_file_iter_range', 'get_first_range', 'BodySizeError', 'BodyParsingError', 'MalformedHeadersError',
               'UnexpectedBodyEndError', 'InvalidBoundaryError', 'StopMarkupException', 'RouteMethodError', 'ValueError', 'TypeError',
               'KeyError', 'AttributeError', 'RuntimeError', 'IOError', 'OSError', 'PropertyGetterError', 'static_file', 'hasattr',
               '_iter_body', '_iter_chunked', 'parse_qsl', 'render', 'abort', 'redirect', 'callable', 'set'}


class Analysis:
    def __init__(self, f, tsprops, module_globals, parent=None):
        self.f, self.ts, self.mg, self.parent = f, tsprops, module_globals, parent
        self.params = set()
        a = f.node.args
        for x in a.posonlyargs + a.args + a.kwonlyargs:
            self.params.add(x.arg)
        if a.vararg:
            self.params.add(a.vararg.arg)
        if a.kwarg:
            self.params.add(a.kwarg.arg)
        self.assigns = {}     # local name -> list of RHS expressions (or markers)
        self.globals_decl = set()
        body = f.node.body if isinstance(f.node.body, list) else [f.node.body]
        for st in body:
            for n in self._walk(st):
                if isinstance(n, (ast.Global, ast.Nonlocal)):
                    self.globals_decl.update(n.names)
                elif isinstance(n, ast.Assign):
                    for t in n.targets:
                        self._bind(t, n.value)
                elif isinstance(n, ast.AnnAssign) and n.value is not None:
                    self._bind(n.target, n.value)
                elif isinstance(n, ast.AugAssign):
                    self._bind(n.target, n.value)
                elif isinstance(n, (ast.For, ast.comprehension)):
                    self._bind(n.target, ast.Subscript(value=n.iter, slice=ast.Constant(0), ctx=ast.Load()))
                elif isinstance(n, ast.withitem) and n.optional_vars is not None:
                    self._bind(n.optional_vars, n.context_expr)
                elif isinstance(n, ast.ExceptHandler) and n.name:
                    self.assigns.setdefault(n.name, []).append('CAUGHT')   # may be a long-lived object (config.errors_map)
                elif isinstance(n, ast.NamedExpr):
                    self._bind(n.target, n.value)

    def _walk(self, node):
        """all nodes of this function, not descending into nested function definitions"""
        yield node
        for ch in ast.iter_child_nodes(node):
            if isinstance(ch, (ast.FunctionDef, ast.AsyncFunctionDef, ast.Lambda, ast.ClassDef)):
                continue
            yield from self._walk(ch)

    def _bind(self, target, value):
        if isinstance(target, ast.Name):
            self.assigns.setdefault(target.id, []).append(value)
        elif isinstance(target, (ast.Tuple, ast.List)):
            for e in target.elts:
                self._bind(e, ast.Subscript(value=value, slice=ast.Constant(0), ctx=ast.Load()))

    # ---- region of an expression: one of TL REQ FRESH ARG SHARED APP TSOBJ RESP HDICT REQVIEW UNKNOWN
    def region(self, e, depth=0):
        if depth > 12:
            return 'UNKNOWN'
        if isinstance(e, str):
            return e
        if isinstance(e, ast.Name):
            n = e.id
            if n in self.globals_decl:
                return 'SHARED'
            if n in ('self', 's', 'cls') and n in self.params and self.f.cls:
                return CLASS_OF.get(self.f.cls, 'UNKNOWN')
            if n in self.params:
                if n in ('environ', 'env'):
                    return 'REQ'
                if n in ('request',):
                    return 'TSOBJ'
                if n in ('response',):
                    return 'RESP'
                if n == 'app':
                    return 'APP'
                return 'ARG'
            if n in self.assigns:
                rs = {self.region(v, depth + 1) for v in self.assigns[n]}
                rs.discard('FRESH_OR_SAME')
                if not rs:
                    return 'FRESH'
                if len(rs) == 1:
                    return rs.pop()
                if rs <= {'FRESH', 'TL'}:
                    return 'TL'
                if rs <= {'FRESH', 'REQ'}:
                    return 'REQ'
                if rs <= {'FRESH', 'ARG'}:
                    return 'ARG'
                return 'SHARED' if 'SHARED' in rs or 'APP' in rs else 'UNKNOWN'
            if self.parent is not None and (n in self.parent.assigns or n in self.parent.params):
                if not on_request_path(self.parent.f):
                    return 'SHARED'     # bound once at registration time: lives as long as the route / filter does
                return self.parent.region(e, depth + 1)     # a free variable bound in the enclosing function of this call
            return 'SHARED'     # a module global / builtin / class attribute: long-lived
        if isinstance(e, ast.Attribute):
            base = self.region(e.value, depth + 1)
            a = e.attr
            if base == 'APP':
                return {'request': 'TSOBJ', 'response': 'RESP'}.get(a, 'SHARED')
            if base == 'TSOBJ':
                if a in ('environ', '_env_get'):
                    return 'REQ' if a == 'environ' else 'TL'
                if a in ('body', '_body', 'POST', 'forms', 'files', 'query', 'GET', 'params', 'json', 'headers', 'cookies', 'urlparts'):
                    return 'REQ'       # cached in / derived from the environ of this request
                return 'SHARED'        # config, __listeners__, ...
            if base == 'RESP':
                if a in self.ts.get('Response', ()):
                    return 'TL'
                if a == 'headers':
                    return 'HDICT'
                return 'RESPSLOT'
            if base == 'HDICT':
                return 'TL' if a in ('_ts', 'dict') else 'HDICT'
            if base == 'REQVIEW':
                return 'REQ'
            return base
        if isinstance(e, ast.Subscript):
            r = self.region(e.value, depth + 1)
            return 'REQ' if r == 'TSOBJ' else r       # request[key] is environ[key]
        if isinstance(e, ast.Call):
            fn = e.func
            if isinstance(fn, ast.Name):
                return 'FRESH' if (fn.id in FRESH_CALLS or fn.id[:1].isupper()) else self.region(fn, depth + 1) if fn.id in self.assigns or fn.id in self.params else 'FRESH'
            if isinstance(fn, ast.Attribute):
                if fn.attr in ('copy', 'items', 'keys', 'values', 'encode', 'decode', 'split', 'strip', 'lower', 'upper', 'replace',
                               'format', 'join', 'read', 'getvalue', 'output', 'OutputString', 'match', 'search', 'finditer', 'group',
                               'groups', 'splitlines', 'lstrip', 'startswith', 'title', 'geturl', 'tell', 'end', 'start', 'partition',
                               '_forms_factory', '_cookie_factory', 'utctimetuple', 'timetuple', 'guess_type', 'abspath', 'basename',
                               'stat', 'formatdate', 'time', 'b64encode', 'b64decode', 'digest', 'dumps', 'loads', 'new',
                               'parsedate_tz', 'mktime', 'timegm', 'exists', 'isfile', 'isdir', 'access', 'open', 'readlines',
                               'escape', 'iter_items', 'parse_header', 'iter_markup', 'make_params_dict', 'chain', 'exc_info'):
                    return 'FRESH'
                return self.region(fn.value, depth + 1)
            return 'UNKNOWN'
        if isinstance(e, (ast.List, ast.Dict, ast.Set, ast.Tuple, ast.ListComp, ast.DictComp, ast.SetComp, ast.GeneratorExp,
                          ast.Constant, ast.JoinedStr, ast.BinOp, ast.Compare, ast.BoolOp, ast.UnaryOp, ast.Lambda)):
            if isinstance(e, ast.BoolOp):
                rs = {self.region(v, depth + 1) for v in e.values}
                rs.discard('FRESH')
                return rs.pop() if len(rs) == 1 else ('FRESH' if not rs else 'UNKNOWN')
            return 'FRESH'
        if isinstance(e, ast.IfExp):
            rs = {self.region(e.body, depth + 1), self.region(e.orelse, depth + 1)}
            rs.discard('FRESH')
            return rs.pop() if len(rs) == 1 else ('FRESH' if not rs else 'UNKNOWN')
        if isinstance(e, ast.Starred):
            return self.region(e.value, depth + 1)
        return 'UNKNOWN'

    # ---- write sites
    def sites(self):
        out = []
        body = self.f.node.body if isinstance(self.f.node.body, list) else [self.f.node.body]
        for st in body:
            for n in self._walk(st):
                if isinstance(n, (ast.Global, ast.Nonlocal)):
                    out.append((n.lineno, f'{type(n).__name__.lower()} {",".join(n.names)}', 'SHARED'))
                targets = []
                if isinstance(n, ast.Assign):
                    targets = n.targets
                elif isinstance(n, (ast.AugAssign, ast.AnnAssign)):
                    targets = [n.target]
                elif isinstance(n, ast.Delete):
                    targets = n.targets
                for t in targets:
                    for tt in (t.elts if isinstance(t, (ast.Tuple, ast.List)) else [t]):
                        if isinstance(tt, (ast.Attribute, ast.Subscript)):
                            out.append((n.lineno, ast.unparse(tt), self._write_region(tt)))
                        elif isinstance(tt, ast.Name) and tt.id in self.globals_decl:
                            out.append((n.lineno, tt.id, 'SHARED'))
                if isinstance(n, ast.Raise) and isinstance(n.exc, ast.Name):
                    # F5: raising an object that outlives the request writes per-request state into it (__traceback__, __context__)
                    r = self.region(n.exc)
                    if r in ('SHARED', 'APP', 'UNKNOWN'):
                        out.append((n.lineno, f'raise {n.exc.id}', r))
                if isinstance(n, ast.Call):
                    fn = n.func
                    if isinstance(fn, ast.Attribute) and fn.attr in MUTATORS:
                        r = self.region(fn.value)
                        if fn.attr == '__init__' and r in ('TSOBJ', 'RESP'):
                            r = 'TL'      # re-initialisation of the thread-local request/response: the callee's writes are its own sites
                        out.append((n.lineno, ast.unparse(fn), r))
                    elif isinstance(fn, ast.Name) and fn.id in ('setattr', 'delattr') and n.args:
                        out.append((n.lineno, f'{fn.id}({ast.unparse(n.args[0])})', self.region(n.args[0])))
        return out

    def _write_region(self, t):
        """region written by an assignment to attribute / subscript target t"""
        if isinstance(t, ast.Subscript):
            r = self.region(t.value)
            return 'REQ' if r == 'TSOBJ' else r
        base = self.region(t.value)
        a = t.attr
        if base == 'RESP':
            return 'TL' if a in self.ts.get('Response', ()) or a == 'status' else ('HDICT' if a == 'headers' else 'RESPSLOT')
        if base == 'TSOBJ':
            return 'TL' if a in self.ts.get('Request', ()) else 'SHARED'
        if base == 'HDICT':
            return 'TL' if a in ('dict',) else 'HDICTSLOT'
        if base == 'APP':
            return 'SHARED'
        return base


OK_REGIONS = {'TL', 'REQ', 'FRESH', 'ARG', 'HDICT'}

# class attributes that are deliberately process-wide, with the reason why sharing them cannot couple requests / applications
CLASS_ATTR_ALLOW = {
    ('ombott/router/filter_factory.py', 'FilterFactory', '_filter_cache'):
        'memo of handler objects per filter spec: a pure function of the spec (C01 anchors name it); filled at registration time',
    ('ombott/router/filter_factory.py', 'FilterFactory', 'filters'):
        'registry of filter constructors: configuration, written by add_filter at set-up time only',
    ('ombott/router/radirouter.py', 'Route', 'filters'):
        'registry of filter constructors: configuration, written at set-up time only',
}
# module-level mutables that are handed to a callee on purpose, with the reason why that cannot couple requests
ESCAPE_ALLOW = {}
MUTABLE_CTORS = {'dict', 'list', 'set', 'defaultdict', 'OrderedDict', 'deque', 'bytearray', 'HeaderDict', 'FormsDict', 'SimpleCookie'}


def _is_mutable_value(v):
    if isinstance(v, (ast.Dict, ast.List, ast.Set, ast.DictComp, ast.ListComp, ast.SetComp)):
        return True
    if isinstance(v, ast.Call):
        f = v.func
        nm = f.id if isinstance(f, ast.Name) else f.attr if isinstance(f, ast.Attribute) else None
        return nm in MUTABLE_CTORS
    return False


def class_level_mutables(repo):
    """obligation per class attribute bound to a mutable object in the class body: no method of the class may mutate it
    through self / cls unless __init__ / __new__ (or a ts_props decorator) gives every instance its own.  A class attribute that
    is only read (constant tables such as bad_headers, errors_map) is fine."""
    import os
    out = []
    n_attrs = 0
    pkg = os.path.join(repo, 'ombott')
    for root, _d, files in os.walk(pkg):
        for fn in sorted(files):
            if not fn.endswith('.py'):
                continue
            path = os.path.join(root, fn)
            rel = os.path.relpath(path, repo)
            tree = ast.parse(open(path, encoding='utf8').read())
            for cls in [n for n in ast.walk(tree) if isinstance(n, ast.ClassDef)]:
                attrs = {}
                for st in cls.body:
                    tgt, val = None, None
                    if isinstance(st, ast.Assign) and len(st.targets) == 1 and isinstance(st.targets[0], ast.Name):
                        tgt, val = st.targets[0].id, st.value
                    elif isinstance(st, ast.AnnAssign) and isinstance(st.target, ast.Name) and st.value is not None:
                        tgt, val = st.target.id, st.value
                    if tgt and _is_mutable_value(val):
                        attrs[tgt] = st.lineno
                if not attrs:
                    continue
                own = set()      # attributes every instance gets for itself
                for dec in cls.decorator_list:
                    if isinstance(dec, ast.Call) and getattr(dec.func, 'id', None) == 'ts_props':
                        own |= {a.value for a in dec.args if isinstance(a, ast.Constant) and isinstance(a.value, str)}
                muts = {}
                for m in [n for n in ast.walk(cls) if isinstance(n, (ast.FunctionDef, ast.AsyncFunctionDef))]:
                    recv = m.args.args[0].arg if m.args.args else None
                    for n in ast.walk(m):
                        # self.<a> = ...  in __init__/__new__/setup-like initialisers gives the instance its own object
                        if isinstance(n, ast.Attribute) and isinstance(n.ctx, ast.Store) and isinstance(n.value, ast.Name) \
                                and n.value.id == recv and m.name in ('__init__', '__new__'):
                            own.add(n.attr)
                        base = None
                        if isinstance(n, ast.Subscript) and isinstance(n.ctx, (ast.Store, ast.Del)):
                            base = n.value
                        elif isinstance(n, ast.Call) and isinstance(n.func, ast.Attribute) and n.func.attr in MUTATORS:
                            base = n.func.value
                        elif isinstance(n, ast.AugAssign) and isinstance(n.target, (ast.Attribute, ast.Subscript)):
                            base = n.target if isinstance(n.target, ast.Attribute) else n.target.value
                        while isinstance(base, ast.Subscript):
                            base = base.value
                        if isinstance(base, ast.Attribute) and isinstance(base.value, ast.Name) \
                                and base.value.id in (recv, 'cls', cls.name) and base.attr in attrs:
                            muts.setdefault(base.attr, []).append((m.name, n.lineno))
                # a class-level mutable handed out to callers (return cls.a / return self.a / yield ...): whoever gets it can change
                # the one object every instance - every request, every application - shares
                for m in [n for n in ast.walk(cls) if isinstance(n, (ast.FunctionDef, ast.AsyncFunctionDef))]:
                    recv = m.args.args[0].arg if m.args.args else None
                    for n in ast.walk(m):
                        if isinstance(n, (ast.Return, ast.Yield)) and n.value is not None:
                            vals = [n.value] + ([n.value.body, n.value.orelse] if isinstance(n.value, ast.IfExp) else [])
                            for v in vals:
                                if isinstance(v, ast.Attribute) and isinstance(v.value, ast.Name) and v.value.id in (recv, 'cls', cls.name) \
                                        and v.attr in attrs and v.attr not in own:
                                    ok = CLASS_ATTR_ALLOW.get((rel, cls.name, v.attr))
                                    out.append({'name': f'escape.returned.{rel}:{cls.name}.{m.name}.{v.attr}',
                                                'status': 'discharged' if ok else 'failed',
                                                'detail': (f'allow-listed: {ok}' if ok else
                                                           f'{m.name} (line {n.lineno}) hands out the class-level mutable {v.attr} (line {attrs[v.attr]}): '
                                                           'one object shared by every instance, request and application; a caller that writes into it '
                                                           'changes what all others get')})
                for a, ln in sorted(attrs.items()):
                    n_attrs += 1
                    where = muts.get(a, [])
                    allow = CLASS_ATTR_ALLOW.get((rel, cls.name, a))
                    bad = bool(where) and a not in own and not allow
                    out.append({'name': f'class_attr.{rel}:{cls.name}.{a}',
                                'status': 'failed' if bad else 'discharged',
                                'detail': (f'class-level mutable (line {ln}) mutated through an instance in ' +
                                           ', '.join(f'{m} line {l}' for m, l in where) +
                                           ' and no __init__/__new__/ts_props gives each instance its own: shared by all instances')
                                if bad else (f'class-level mutable (line {ln}): ' +
                                             ('never mutated through an instance' if not where else
                                              'each instance gets its own in __init__/__new__/ts_props' if a in own else
                                              f'allow-listed: {allow}'))})
    # ---- mutable default arguments that the function mutates: one object shared by every call that does not pass the argument
    n_defaults = 0
    for root, _d, files in os.walk(pkg):
        for fn in sorted(files):
            if not fn.endswith('.py'):
                continue
            path = os.path.join(root, fn)
            rel = os.path.relpath(path, repo)
            tree = ast.parse(open(path, encoding='utf8').read())
            for f in [n for n in ast.walk(tree) if isinstance(n, (ast.FunctionDef, ast.AsyncFunctionDef))]:
                a = f.args
                pos = a.posonlyargs + a.args
                pairs = list(zip(pos[len(pos) - len(a.defaults):], a.defaults)) + \
                    [(p_, d_) for p_, d_ in zip(a.kwonlyargs, a.kw_defaults) if d_ is not None]
                for prm, dflt in pairs:
                    if not _is_mutable_value(dflt):
                        continue
                    n_defaults += 1
                    where = []
                    for n in ast.walk(f):
                        base = None
                        if isinstance(n, ast.Subscript) and isinstance(n.ctx, (ast.Store, ast.Del)):
                            base = n.value
                        elif isinstance(n, ast.Call) and isinstance(n.func, ast.Attribute) and n.func.attr in MUTATORS:
                            base = n.func.value
                        elif isinstance(n, ast.AugAssign):
                            base = n.target.value if isinstance(n.target, ast.Subscript) else n.target
                        while isinstance(base, ast.Subscript):
                            base = base.value
                        if isinstance(base, ast.Name) and base.id == prm.arg:
                            where.append(n.lineno)
                    out.append({'name': f'default_arg.{rel}:{f.name}.{prm.arg}',
                                'status': 'failed' if where else 'discharged',
                                'detail': (f'mutable default of parameter {prm.arg} (line {f.lineno}) is mutated in the body (lines {where}): '
                                           'one object shared by all calls (and threads) that rely on the default') if where
                                else f'mutable default of parameter {prm.arg} (line {f.lineno}) is never mutated in the body'})
    # ---- process-lifetime memoisation and module-level mutables handed to callees
    MEMO = {'lru_cache', 'cache'}
    n_funcs = 0
    for root, _d, files in os.walk(pkg):
        for fn in sorted(files):
            if not fn.endswith('.py'):
                continue
            path = os.path.join(root, fn)
            rel = os.path.relpath(path, repo)
            tree = ast.parse(open(path, encoding='utf8').read())
            # module-level names bound to a mutable display / constructor
            mod_mut = {}
            for st in tree.body:
                if isinstance(st, ast.Assign) and len(st.targets) == 1 and isinstance(st.targets[0], ast.Name) and _is_mutable_value(st.value):
                    mod_mut[st.targets[0].id] = st.lineno
            for f in [n for n in ast.walk(tree) if isinstance(n, (ast.FunctionDef, ast.AsyncFunctionDef))]:
                n_funcs += 1
                for d in f.decorator_list:
                    core = d.func if isinstance(d, ast.Call) else d
                    nm = core.attr if isinstance(core, ast.Attribute) else core.id if isinstance(core, ast.Name) else None
                    if nm in MEMO:
                        out.append({'name': f'memo.{rel}:{f.name}', 'status': 'failed',
                                    'detail': f'{ast.unparse(d)} on {f.name} (line {f.lineno}): a process-lifetime cache keyed by the arguments only - '
                                              'results computed for one request / application are handed to later ones and every distinct key is retained'})
                local = {a.arg for a in f.args.args + f.args.kwonlyargs}
                for n in ast.walk(f):
                    if isinstance(n, ast.Call):
                        for a in list(n.args) + [k.value for k in n.keywords]:
                            if isinstance(a, ast.Name) and a.id in mod_mut and a.id not in local:
                                callee = ast.unparse(n.func)
                                ok = ESCAPE_ALLOW.get((rel, f.name, a.id))
                                out.append({'name': f'escape.{rel}:{f.name}.{a.id}', 'status': 'discharged' if ok else 'failed',
                                            'detail': (f'allow-listed: {ok}' if ok else
                                                       f'module-level mutable {a.id} (line {mod_mut[a.id]}) is handed to {callee}(...) in {f.name} (line {n.lineno}): '
                                                       'the callee (e.g. the server, PEP 3333 allows it to modify the header list) may change an object '
                                                       'shared by all requests')})
    out.append({'name': 'class_attr.scan_found_attributes', 'status': 'discharged' if n_attrs >= 3 else 'undecided',
                'detail': f'{n_attrs} class-level mutable attributes in the package'})
    return out


def run(repo, prop, tier):
    fns, tsprops = collect_functions(repo)
    obls, sites_out, problems = [], [], []
    if tsprops.get('Response') is None or tsprops.get('Request') is None:
        problems.append('ts_props decorators of Request / Response not found')
    n_sites = 0
    by_qual = {(f.rel, f.qual): f for f in fns}
    cache = {}

    def analysis(f):
        key = (f.rel, f.qual, f.node.lineno)      # a property getter and its setter share a qualified name
        if key not in cache:
            pq = f.qual.rsplit('.', 1)[0] if '.' in f.qual else None
            pf = by_qual.get((f.rel, pq)) if pq else None
            parent = analysis(pf) if pf is not None and isinstance(pf.node, (ast.FunctionDef, ast.AsyncFunctionDef)) else None
            cache[key] = Analysis(f, tsprops, set(), parent)
        return cache[key]
    for f in fns:
        if not on_request_path(f):
            continue
        try:
            an = analysis(f)
            sites = an.sites()
        except Exception as e:   # noqa
            problems.append(f'{f.rel}:{f.qual}: {e!r}')
            continue
        bad = []
        for (ln, text, reg) in sites:
            n_sites += 1
            allowed = None
            for (arel, aq, atext), why in ALLOW.items():
                if arel == f.rel and aq == f.qual and atext in text:
                    allowed = why
            # RESPSLOT / HDICTSLOT: a plain slot of a response / header object: allowed only in constructors of fresh objects
            if reg in ('RESPSLOT', 'HDICTSLOT', 'REQVIEW'):
                ok = f.qual.split('.')[-1] in ('__init__', '__new__')
            else:
                ok = reg in OK_REGIONS
            rec = {'file': f.rel, 'function': f.qual, 'line': ln, 'site': text, 'region': reg}
            if not ok and allowed:
                rec['allowed'] = allowed
                ok = True
            sites_out.append(rec)
            if not ok:
                bad.append(rec)
        if sites:
            obls.append({'name': f'confined.{f.rel}:{f.qual}', 'status': 'failed' if bad else 'discharged',
                         'detail': ('writes outside thread-local / request / fresh memory: ' +
                                    '; '.join(f"line {b['line']}: {b['site']} -> {b['region']}" for b in bad)) if bad
                         else f'{len(sites)} write site(s), all TL/REQ/FRESH/ARG or allow-listed',
                         'sites': [s for s in sites_out if s['function'] == f.qual and s['file'] == f.rel][:40]})
    # ---- class-level mutable attributes mutated through an instance (shared by every instance, application, request, thread)
    for o in class_level_mutables(repo):
        obls.append(o)
    obls.append({'name': 'confined.write_sites_found', 'status': 'discharged' if n_sites >= 60 else 'undecided',
                 'detail': f'{n_sites} write sites in {sum(1 for f in fns if on_request_path(f))} request-path functions '
                           f'({len(fns)} functions in the package)'})
    return {'obligations': obls,
            'assumptions': ['confinement analysis is name-based and flow-insensitive: regions are inferred from parameter names, '
                            'class tables and local bindings (frames/confinement.py); user handlers and hooks are outside it',
                            'threading.local semantics; a single dict/list/attribute operation is atomic in CPython',
                            'registration / configuration functions (listed in NOT_REQUEST_PATH) do not run concurrently with serving'],
            'problems': problems}


if __name__ == '__main__':
    import json
    import sys
    r = run(sys.argv[1] if len(sys.argv) > 1 else '/repo', 'C08', 'quick')
    for o in r['obligations']:
        if o['status'] != 'discharged':
            print(o['status'], o['name'], '|', o['detail'][:300])
    print(sum(1 for o in r['obligations'] if o['status'] == 'discharged'), '/', len(r['obligations']), r['problems'])
