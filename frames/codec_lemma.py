"""Exhaustive per-code-point lemmas (complete enumeration, evaluated natively) used by C14 and C20.

C14: T(s) = s.encode('utf8').decode('latin1') is what BaseResponse.headerlist applies to every stored value.  For every
     code point c (surrogates excluded: they are not encodable and raise):
       T(chr(c)) is Latin-1 encodable, T(chr(c)).encode('latin1').decode('utf8') == chr(c),
       and T(chr(c)) contains CR, LF or NUL iff c in {13, 10, 0}.
     With the (assumed, sampled) fact that both codecs are concatenation homomorphisms on valid input this lifts to all
     strings: a Clean value is emitted as a Latin-1 string without CR/LF/NUL that decodes back to the original text.
C20: html_escape / html.escape(quote=True): for every code point the image contains none of < > " ' and contains & only
     as the first character of one of the five entities produced.
The transcoding / escaping expressions are taken from the real source (AST) so that a change of the expression in the
repository changes what is enumerated.
"""
import ast
import os
import random
import time


def _find_func(tree, qual):
    node = tree
    for p in qual.split('.'):
        for n in ast.walk(node):
            if isinstance(n, (ast.FunctionDef, ast.ClassDef)) and n.name == p and n is not node:
                node = n
                break
        else:
            return None
    return node


def _codepoints():
    for c in range(0x110000):
        if 0xD800 <= c <= 0xDFFF:
            continue
        yield c


def run_c14(repo):
    t0 = time.time()
    obls = []
    src = open(os.path.join(repo, 'ombott/response.py'), encoding='utf8').read()
    fn = _find_func(ast.parse(src), 'BaseResponse.headerlist')
    # every `.decode(...)` call in headerlist must be  <x>.encode('utf8').decode('latin1')
    trans = []
    ok_shape = fn is not None
    if fn is not None:
        for n in ast.walk(fn):
            if isinstance(n, ast.Call) and isinstance(n.func, ast.Attribute) and n.func.attr == 'decode':
                inner = n.func.value
                good = (len(n.args) == 1 and isinstance(n.args[0], ast.Constant) and
                        isinstance(inner, ast.Call) and isinstance(inner.func, ast.Attribute) and inner.func.attr == 'encode'
                        and len(inner.args) == 1 and isinstance(inner.args[0], ast.Constant))
                if not good:
                    ok_shape = False
                else:
                    trans.append((inner.args[0].value, n.args[0].value))
    obls.append({'name': 'headerlist.transcoding_expression_found', 'status': 'discharged' if ok_shape and trans else 'undecided',
                 'detail': f'transcoding pairs in headerlist: {trans}'})
    bad = None
    n = 0
    for (enc, dec) in set(trans) or {('utf8', 'latin1')}:
        for c in _codepoints():
            ch = chr(c)
            n += 1
            try:
                t = ch.encode(enc).decode(dec)
                back = t.encode('latin1').decode('utf8')
            except Exception as e:   # noqa
                bad = (c, repr(e))
                break
            ctl = ('\r' in t) or ('\n' in t) or ('\0' in t)
            if back != ch or ctl != (c in (13, 10, 0)):
                bad = (c, t)
                break
    obls.append({'name': 'codec.every_code_point_wire_safe_and_round_trips', 'status': 'failed' if bad else 'discharged',
                 'detail': f'{n} code points enumerated (complete), first counterexample: {bad}',
                 'case': dict(kind='codec', codepoint=bad[0]) if bad else None})
    rnd = random.Random(0)
    hom_bad = None
    for _ in range(20000):
        a = ''.join(chr(rnd.choice([rnd.randrange(0x80), rnd.randrange(0x800), rnd.randrange(0xE000, 0x110000)])) for _ in range(rnd.randrange(4)))
        b = ''.join(chr(rnd.choice([rnd.randrange(0x80), rnd.randrange(0x800), rnd.randrange(0xE000, 0x110000)])) for _ in range(rnd.randrange(4)))
        T = lambda s: s.encode('utf8').decode('latin1')   # noqa: E731
        if T(a + b) != T(a) + T(b):
            hom_bad = (a, b)
            break
    obls.append({'name': 'codec.homomorphism_sampled', 'kind': 'sampled', 'status': 'failed' if hom_bad else 'discharged',
                 'detail': '20000 random pairs: T(a+b) == T(a)+T(b) (assumed in general; sampled here)'})
    # title(): canonical spelling of the names withheld for 204/304 (used by the VC BaseResponse.headerlist:emit.filter_is_blacklist_by_title,
    # where str.title() is uninterpreted): every case variant of a forbidden name has that name as its title(), and on ASCII text
    # title() changes nothing but case (all 128 x 128 two-character strings: the image of a character depends only on whether the
    # character before it is cased), so an ASCII name has a forbidden title() iff it is a case variant of the forbidden name.
    import itertools
    from contracts.headerlist import FORBIDDEN
    tbad = None
    nvar = 0
    for T in sorted({n for names in FORBIDDEN.values() for n in names}):
        letters = [i for i, ch in enumerate(T) if ch.isalpha()]
        for mask in range(1 << len(letters)):
            x = list(T.lower())
            for b, i in enumerate(letters):
                if mask >> b & 1:
                    x[i] = x[i].upper()
            nvar += 1
            if ''.join(x).title() != T:
                tbad = ''.join(x)
                break
        if tbad:
            break
    if not tbad:
        for a, b in itertools.product(range(128), repeat=2):
            s2 = chr(a) + chr(b)
            t2 = s2.title()
            if len(t2) != 2 or t2.lower() != s2.lower():
                tbad = s2
                break
    obls.append({'name': 'title.canonical_for_forbidden_names', 'status': 'failed' if tbad else 'discharged',
                 'detail': f'{nvar} case variants of the forbidden names + 16384 two-character ASCII strings (complete); counterexample: {tbad!r}'})
    return {'obligations': obls, 'assumptions': [
        'UTF-8 and Latin-1 codecs are concatenation homomorphisms on valid input (Python semantics; sampled, not proved)',
        'str.title() on ASCII text is local: the image of a character depends only on whether the previous character is cased',
        'per-code-point codec lemma is decided by complete native enumeration of the 1,112,064 scalar values'],
        'problems': [], 'wall_s': round(time.time() - t0, 2)}


ENTITIES = ('&amp;', '&lt;', '&gt;', '&quot;', '&#039;', '&#x27;')


def _escaped_ok(t):
    i = 0
    while i < len(t):
        ch = t[i]
        if ch in '<>"\'':
            return False
        if ch == '&':
            for e in ENTITIES:
                if t.startswith(e, i):
                    i += len(e)
                    break
            else:
                return False
            continue
        i += 1
    return True


def run_c20(repo):
    import importlib
    import sys
    t0 = time.time()
    if sys.path[0] != repo:
        sys.path.insert(0, repo)
    for name in list(sys.modules):
        if name == 'ombott' or name.startswith('ombott.'):
            f = getattr(sys.modules[name], '__file__', '') or ''
            if not f.startswith(repo + os.sep):
                del sys.modules[name]
    ch = importlib.import_module('ombott.common_helpers')
    import html
    obls = []
    for label, f in (('html_escape', ch.html_escape), ('html.escape', lambda s: html.escape(s, quote=True))):
        bad = None
        n = 0
        for c in _codepoints():
            n += 1
            t = f(chr(c))
            special = chr(c) in '&<>"\''
            if not _escaped_ok(t) or (not special and t != chr(c)):
                bad = (c, t)
                break
        obls.append({'name': f'escape.{label}.every_code_point_neutralised', 'status': 'failed' if bad else 'discharged',
                     'detail': f'{n} code points enumerated (complete), first counterexample: {bad}'})
        rnd = random.Random(1)
        hb = None
        for _ in range(20000):
            a = ''.join(rnd.choice('&<>"\'ab;#x0 ') for _ in range(rnd.randrange(5)))
            b = ''.join(rnd.choice('&<>"\'ab;#x0 ') for _ in range(rnd.randrange(5)))
            if f(a + b) != f(a) + f(b):
                hb = (a, b)
                break
        obls.append({'name': f'escape.{label}.homomorphism_sampled', 'kind': 'sampled', 'status': 'failed' if hb else 'discharged',
                     'detail': f'20000 random pairs over the special characters: f(a+b) == f(a)+f(b); counterexample {hb}'})
    return {'obligations': obls, 'assumptions': [
        'str.replace with a one-character needle acts per character (so html_escape is a concatenation homomorphism); sampled'],
        'problems': [], 'wall_s': round(time.time() - t0, 2)}


def run(repo, prop, tier):
    if prop == 'C14':
        return run_c14(repo)
    if prop == 'C20':
        return run_c20(repo)
    return {'obligations': [], 'assumptions': [], 'problems': []}
