"""C06 — the regular expression behind HeadersEaeter._eat_headers behaves as the contract of _eat_headers assumes.

The contract (contracts/C06.py: EatHeaders) replaces `end_headers_patt.search(chunk, base)` by this specification:

    let i = first index >= base at which CRLFCRLF occurs in chunk
    i exists                                   -> a match whose group 1 starts at i
    else, with tail = chunk[base:]:
      tail ends with CR LF CR                  -> no group 1, group 2 == CR LF CR
      tail ends with CR LF  or  CR LF LF (*)   -> no group 1, group 2 == CR LF
      tail ends with CR                        -> no group 1, group 2 == CR
      otherwise                                -> no match
    (*) `$` also matches before a final newline: a chunk ending in CR LF LF is reported like one ending in CR LF.

This frame decides, by complete enumeration, that the REAL pattern object of the repository (imported natively) agrees with
the specification on every byte string of length <= 7 over {CR, LF, '-', 'x'} and every base 0..len (167,481
(string, base) pairs; length <= 9 in the thorough tier).  A bounded validation of an assumption: labelled as such, never counted as proved.
"""
import importlib
import itertools
import os
import sys


def spec(chunk, base):
    i = chunk.find(b'\r\n\r\n', base)
    if i >= 0:
        return ('end', i)
    tail = chunk[base:]
    if tail.endswith(b'\r\n\r'):
        return ('tail', b'\r\n\r')
    if tail.endswith(b'\r\n') or tail.endswith(b'\r\n\n'):
        return ('tail', b'\r\n')
    if tail.endswith(b'\r'):
        return ('tail', b'\r')
    return None


def run(repo, prop, tier):
    sys.path.insert(0, repo)
    try:
        for m in [k for k in sys.modules if k == 'ombott' or k.startswith('ombott.')]:
            del sys.modules[m]
        mp = importlib.import_module('ombott.request_pkg.multipart')
        patt = mp.end_headers_patt
    except Exception as e:   # noqa
        return {'obligations': [{'name': 'regex.pattern_object_found', 'status': 'undecided', 'detail': repr(e)}],
                'assumptions': [], 'problems': [f'cannot import the pattern: {e!r}']}
    finally:
        if sys.path and sys.path[0] == repo:
            sys.path.pop(0)
    maxlen = 7 if tier == 'quick' else 9
    bad, n = None, 0
    for ln in range(maxlen + 1):
        for t in itertools.product(b'\r\n-x', repeat=ln):
            s = bytes(t)
            for base in range(ln + 1):
                n += 1
                m = patt.search(s, base)
                if m is None:
                    got = None
                elif m.start(1) >= 0:
                    got = ('end', m.start(1))
                else:
                    got = ('tail', m.group(2))
                if got != spec(s, base):
                    bad = (s, base, got, spec(s, base))
                    break
            if bad:
                break
        if bad:
            break
    return {'obligations': [
        {'name': 'regex.end_headers_patt_agrees_with_its_specification', 'kind': 'sampled',
         'status': 'failed' if bad else 'discharged',
         'detail': f'{n} (string, base) pairs, all strings of length <= {maxlen} over CR LF - x (complete for that scope); first disagreement: {bad!r}',
         'case': {'kind': 'regex', 'chunk': list(bad[0]), 'base': bad[1]} if bad else None}],
        'assumptions': ['the specification of end_headers_patt.search used by the contract of _eat_headers is validated on a bounded scope only'],
        'problems': []}
