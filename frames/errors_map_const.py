"""Constant evaluation of DefaultConfig.errors_map of the tree under check (C12, C13):
   every value is an HTTPError with a 4xx status; BodySizeError -> 413; RequestError and BodyParsingError -> 400;
   the three request error classes are all keys (so _raise always finds a mapping for them by class or by the fallback)."""
import importlib
import os
import sys


def run(repo, prop, tier):
    if sys.path[0] != repo:
        sys.path.insert(0, repo)
    for name in list(sys.modules):
        if name == 'ombott' or name.startswith('ombott.'):
            f = getattr(sys.modules[name], '__file__', '') or ''
            if not f.startswith(repo + os.sep):
                del sys.modules[name]
    obls = []
    try:
        om = importlib.import_module('ombott.ombott')
        errs = importlib.import_module('ombott.request_pkg.errors')
        resp = importlib.import_module('ombott.response')
        m = om.DefaultConfig.errors_map
        codes = {k.__name__: getattr(v, 'status_code', None) for k, v in m.items()}
        all4xx = all(isinstance(v, resp.HTTPError) and 400 <= v.status_code < 500 for v in m.values())
        obls.append({'name': 'errors_map.every_value_is_a_4xx_http_error', 'status': 'discharged' if all4xx and m else 'failed',
                     'detail': f'errors_map status codes: {codes}'})
        ok = (codes.get('BodySizeError') == 413 and codes.get('RequestError') == 400 and codes.get('BodyParsingError') == 400)
        obls.append({'name': 'errors_map.size_error_is_413_parsing_error_is_400', 'status': 'discharged' if ok else 'failed',
                     'detail': f'{codes}'})
        sub = issubclass(errs.BodySizeError, errs.RequestError) and issubclass(errs.BodyParsingError, errs.RequestError)
        obls.append({'name': 'errors_map.request_error_is_the_common_base', 'status': 'discharged' if sub else 'failed',
                     'detail': 'BodySizeError and BodyParsingError derive from RequestError (the fallback class of _raise)'})
    except Exception as e:   # noqa
        obls.append({'name': 'errors_map.evaluable', 'status': 'undecided', 'detail': repr(e)})
    return {'obligations': obls, 'assumptions': ['DefaultConfig.errors_map is evaluated by importing the real module (a constant of the class body)'],
            'problems': []}
