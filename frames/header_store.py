"""C14 — nothing writes into a response's header store except through the validating dictionary.

HeaderDict.__setitem__ / append / setdefault / update store only values that went through _hval (str, no CR / LF / NUL; under
contract: contracts/C14.py), and BaseResponse.headerlist emits what is stored.  That argument has a hole if some code writes
into the RAW store directly - the dict behind the HeaderDict is reachable as `response._headers` and as `headers.dict`.
Site obligations on the real source (complete: every attribute access named `_headers` or `dict` in the package is enumerated
from the AST): a write (item store / delete, augmented assignment, rebinding of the attribute, or a call of a mutating dict method
on it) is allowed only at the listed sites, each of which stores already-validated values:

  BaseResponse.__init__      self._headers = {}  and  self.headers.dict = self._headers      (creates the empty store, wires it)
  HTTPResponse.apply         response._headers.clear(); response._headers.update(self._headers)   (copies a validated store)
  HeaderDict.*               the validating dictionary itself (its methods are under contract)
  HeaderDict.copy            ret.dict = {...}                                                   (under contract: copies.py)
"""
import ast
import os

MUTATORS = {'update', 'setdefault', 'pop', 'popitem', 'clear', '__setitem__', '__delitem__', 'append', 'extend', 'insert'}
ALLOWED = {
    ('ombott/response.py', 'BaseResponse.__init__'),
    ('ombott/response.py', 'HTTPResponse.apply'),
}
ALLOWED_CLASSES = {('ombott/common_helpers.py', 'HeaderDict')}
NAMES = ('_headers', 'dict')


def _qual(stack):
    return '.'.join(stack)


def run(repo, prop, tier):
    obls, problems, sites = [], [], 0
    counts = {}
    pkg = os.path.join(repo, 'ombott')
    for root, _, files in os.walk(pkg):
        for f in sorted(files):
            if not f.endswith('.py'):
                continue
            path = os.path.join(root, f)
            rel = os.path.relpath(path, repo)
            try:
                tree = ast.parse(open(path, encoding='utf8').read())
            except (OSError, SyntaxError) as e:
                problems.append(f'cannot parse {rel}: {e}')
                continue

            def visit(node, stack):
                nonlocal sites
                for ch in ast.iter_child_nodes(node):
                    if isinstance(ch, (ast.FunctionDef, ast.AsyncFunctionDef, ast.ClassDef)):
                        visit(ch, stack + [ch.name])
                        continue
                    bad = None
                    # x._headers[...] = v / del x._headers[...] / x._headers[...] += v
                    if isinstance(ch, ast.Subscript) and isinstance(ch.ctx, (ast.Store, ast.Del)) \
                            and isinstance(ch.value, ast.Attribute) and ch.value.attr in NAMES:
                        bad = f'item write into .{ch.value.attr}'
                    # x._headers = v / x.headers.dict = v
                    elif isinstance(ch, ast.Attribute) and isinstance(ch.ctx, (ast.Store, ast.Del)) and ch.attr in NAMES:
                        bad = f'rebinding of .{ch.attr}'
                    # x._headers.update(...)
                    elif isinstance(ch, ast.Call) and isinstance(ch.func, ast.Attribute) and ch.func.attr in MUTATORS \
                            and isinstance(ch.func.value, ast.Attribute) and ch.func.value.attr in NAMES:
                        bad = f'.{ch.func.value.attr}.{ch.func.attr}(...)'
                    if bad:
                        sites += 1
                        q = _qual(stack)
                        ok = (rel, q) in ALLOWED or any(rel == r and (q == c or q.startswith(c + '.')) for r, c in ALLOWED_CLASSES)
                        k = counts[(rel, q)] = counts.get((rel, q), 0) + 1
                        obls.append({'name': f'header_store.write_only_through_the_validating_dict.{rel}:{q or "<module>"}#{k}',
                                     'status': 'discharged' if ok else 'failed',
                                     'detail': f'{rel}:{ch.lineno} in {q or "<module>"}: {bad}: ' + ('listed site' if ok else
                                               'a raw write into the header store bypasses _hval (CR / LF / NUL check, str conversion)'),
                                     'case': None})
                    visit(ch, stack)
            visit(tree, [])
    if sites == 0:
        problems.append('no write site of the header store found at all (expected the listed ones)')
    return {'obligations': obls,
            'assumptions': ['the raw store is reached only under the attribute names `_headers` and `dict` (aliases through local '
                            'variables are not followed: name-based)'],
            'problems': problems}
