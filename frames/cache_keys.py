"""C18 / C10 / C04 — the environ keys under which the derived request attributes are cached are the keys the invalidation deletes.

cache_in('environ[ K ]') keeps the value of a property under K in the environ (closures under contract: contracts/cachein.py);
BaseRequest._on_env_changed (under contract: contracts/reqobj.py) deletes 'ombott.request.' + name for the names that depend
on the changed key.  The two only fit together if
  * every property P that the invalidation table names is cached under exactly 'ombott.request.' + name(P), and
  * no two properties of the request classes share a key (one would return the other's cached value).
Both are site obligations on the decorator literals of the real source (complete: all decorators of the request package are
enumerated from the AST; a decorator whose argument is not a string literal is reported as undecided).
"""
import ast
import os
import re

FILES = ('ombott/request_pkg/body_mixin.py', 'ombott/request_pkg/props_mixin.py', 'ombott/request_pkg/request.py')
# name used by the invalidation table -> the property that must be cached under 'ombott.request.<name>'
INVALIDATED = {'forms': 'forms', 'files': 'files', 'params': 'params', 'post': 'POST', 'json': 'json', 'body': '_body',
               'query': 'query', 'headers': 'headers', 'cookies': 'cookies'}
KEY_RE = re.compile(r'^(.+?)\[\s*([^\[\]]+?)\s*\]$')


def run(repo, prop, tier):
    obls, problems = [], []
    found = {}     # property name -> (storage attr, key, file, line)
    for rel in FILES:
        try:
            tree = ast.parse(open(os.path.join(repo, rel), encoding='utf8').read())
        except OSError as e:
            problems.append(f'cannot read {rel}: {e}')
            continue
        for fn in [n for n in ast.walk(tree) if isinstance(n, ast.FunctionDef)]:
            for d in fn.decorator_list:
                if isinstance(d, ast.Call) and getattr(d.func, 'id', getattr(d.func, 'attr', None)) == 'cache_in':
                    a0 = d.args[0] if d.args else None
                    kw = {k.arg: k.value for k in d.keywords}
                    if not (isinstance(a0, ast.Constant) and isinstance(a0.value, str)) or 'key' in kw or len(d.args) > 1:
                        obls.append({'name': f'cache_key.{fn.name}.is_a_literal', 'status': 'undecided',
                                     'detail': f'{rel}:{fn.lineno}: cache_in argument is not one string literal: {ast.unparse(d)}'})
                        continue
                    m = KEY_RE.match(a0.value)
                    found[fn.name] = (m.group(1), m.group(2)) + (rel, fn.lineno) if m else (a0.value, None, rel, fn.lineno)
    if not found:
        problems.append('no cache_in decorator found in the request package')
    for name, pname in sorted(INVALIDATED.items()):
        got = found.get(pname)
        want = ('environ', 'ombott.request.' + name)
        ok = got is not None and got[:2] == want
        obls.append({'name': f'cache_key.{pname}_is_cached_under_the_key_the_invalidation_deletes',
                     'status': 'discharged' if ok else 'failed',
                     'detail': f'{pname}: cached under {got[:2] if got else None} ({got[2]}:{got[3]})' if got else f'{pname}: no cache_in property of that name',
                     'case': None})
    by_key = {}
    for pname, (attr, key, rel, line) in found.items():
        by_key.setdefault((attr, key), []).append(pname)
    dup = {k: sorted(v) for k, v in by_key.items() if len(v) > 1}
    obls.append({'name': 'cache_key.no_two_properties_share_a_key', 'status': 'failed' if dup else 'discharged',
                 'detail': f'{len(found)} cache_in properties, keys pairwise distinct' if not dup else f'shared keys: {dup}', 'case': None})
    return {'obligations': obls,
            'assumptions': ['cache_in splits its argument "attr[ key ]" with the regular expression in helpers.cache_in (reproduced here)'],
            'problems': problems}
