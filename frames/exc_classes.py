"""C03 / C12 — the catch-alls of the framework (`except Exception` in Ombott._handle, _cast and wsgi; `except RequestError` in POST)
see every exception the framework itself raises: every exception class defined in the package derives from Exception (not
directly from BaseException), and the body-error classes derive from RequestError.  The contracts of wsgi / _handle / _cast model
callee failures as `Exception`s; this frame is the site obligation that makes that model right for the framework's own classes.
Decided natively on the classes of the real package (imported from the tree under check)."""
import importlib
import inspect
import pkgutil
import sys


def run(repo, prop, tier):
    sys.path.insert(0, repo)
    obls, problems = [], []
    try:
        for m in [k for k in sys.modules if k == 'ombott' or k.startswith('ombott.')]:
            del sys.modules[m]
        pkg = importlib.import_module('ombott')
        classes = {}
        for mi in pkgutil.walk_packages(pkg.__path__, 'ombott.'):
            if mi.name.endswith('server_adapters'):
                continue
            try:
                mod = importlib.import_module(mi.name)
            except Exception as e:   # noqa
                problems.append(f'cannot import {mi.name}: {e!r}')
                continue
            for n, c in vars(mod).items():
                if inspect.isclass(c) and issubclass(c, BaseException) and c.__module__.startswith('ombott'):
                    classes[f'{c.__module__}.{c.__qualname__}'] = c
        bad = sorted(k for k, c in classes.items() if not issubclass(c, Exception))
        obls.append({'name': 'exceptions.every_framework_exception_is_an_Exception',
                     'status': 'failed' if bad else ('discharged' if len(classes) >= 10 else 'undecided'),
                     'detail': f'{len(classes)} exception classes defined in the package; not derived from Exception: {bad}',
                     'case': {'kind': 'exception_class', 'classes': bad} if bad else None})
        req = classes.get('ombott.request_pkg.errors.RequestError')
        body = [k for k, c in classes.items() if k.startswith('ombott.request_pkg.') and req is not None and c is not req]
        notreq = sorted(k for k in body if not issubclass(classes[k], req)) if req is not None else ['RequestError not found']
        obls.append({'name': 'exceptions.body_errors_are_request_errors', 'status': 'failed' if notreq else 'discharged',
                     'detail': f'{len(body)} exception classes of the request package; not derived from RequestError: {notreq}'})
    except Exception as e:   # noqa
        obls.append({'name': 'exceptions.package_importable', 'status': 'undecided', 'detail': repr(e)})
    finally:
        if sys.path and sys.path[0] == repo:
            sys.path.pop(0)
    return {'obligations': obls, 'assumptions': ['class hierarchy read from the imported package (native)'], 'problems': problems}
