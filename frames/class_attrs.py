"""Class-level mutable attributes mutated through an instance (shared by every instance / request / application / thread).
One site obligation per class attribute of the package that is bound to a mutable object in the class body: see
frames/confinement.py:class_level_mutables (the same obligations are part of the confinement frame of C08/C09/C10)."""
from frames import confinement


def run(repo, prop, tier):
    obls = confinement.class_level_mutables(repo)
    return {'obligations': obls,
            'assumptions': ['syntactic: an attribute counts as mutated through an instance when a method of its class stores an item into, '
                            'calls a mutator method on, or augments self.<attr> / cls.<attr> (aliases through locals are not followed)'],
            'problems': []}
