"""C20 supporting obligations over the real source (syntactic, per site):

 template.fields      error.html references only {e.status} {e.body} {url} {exception} {traceback}
 httperror.<site>     every HTTPError(...) the framework constructs has a literal status and a literal body (or an f-string
                      whose only fields are type(...)), so e.status / e.body never carry request text; the two name-valued
                      sites in Ombott.handler take their values from the constant lists built in RadiRouter.resolve
 lastresort.escaped   the last-resort page in Ombott.wsgi interpolates only html_escape(...) results
"""
import ast
import os
import string

ALLOWED_FIELDS = {'e.status', 'e.body', 'url', 'exception', 'traceback'}


def _literalish(node):
    if isinstance(node, ast.Constant):
        return True
    if isinstance(node, ast.JoinedStr):
        for v in node.values:
            if isinstance(v, ast.Constant):
                continue
            if isinstance(v, ast.FormattedValue) and isinstance(v.value, ast.Call) and isinstance(v.value.func, ast.Name) \
                    and v.value.func.id == 'type':
                continue
            return False
        return True
    return False


def run(repo, prop, tier):
    obls = []
    pkg = os.path.join(repo, 'ombott')
    # ---- template
    try:
        text = open(os.path.join(pkg, 'error.html'), encoding='utf8').read()
        fields = set()
        in_style = False
        for ln in text.splitlines():
            s = ln.strip()
            if in_style:
                if s.startswith('</style'):
                    in_style = False
                continue
            if s.startswith('<style'):
                in_style = True
                continue
            for _, field, spec, conv in string.Formatter().parse(s):
                if field is not None:
                    fields.add(field + (('!' + conv) if conv else '') + ((':' + spec) if spec else ''))
        bad = sorted(fields - ALLOWED_FIELDS)
        obls.append({'name': 'template.fields', 'status': 'failed' if bad else 'discharged',
                     'detail': f'fields used: {sorted(fields)}; not allowed: {bad}'})
    except Exception as e:   # noqa
        obls.append({'name': 'template.fields', 'status': 'undecided', 'detail': repr(e)})
    # ---- HTTPError construction sites
    sites = 0
    for root, _, files in os.walk(pkg):
        for fn in sorted(files):
            if not fn.endswith('.py'):
                continue
            path = os.path.join(root, fn)
            rel = os.path.relpath(path, repo)
            try:
                tree = ast.parse(open(path, encoding='utf8').read())
            except SyntaxError as e:
                obls.append({'name': f'httperror.parse.{rel}', 'status': 'undecided', 'detail': repr(e)})
                continue
            funcs = {}
            for f in ast.walk(tree):
                if isinstance(f, (ast.FunctionDef, ast.AsyncFunctionDef)):
                    for n in ast.walk(f):
                        funcs.setdefault(id(n), f.name)
            for n in ast.walk(tree):
                if isinstance(n, ast.Call) and isinstance(n.func, ast.Name) and n.func.id == 'HTTPError':
                    fname = funcs.get(id(n), '<module>')
                    if fname == 'abort':
                        continue   # abort(code, text) is the application's own helper: its text is application data
                    sites += 1
                    status = n.args[0] if n.args else None
                    body = n.args[1] if len(n.args) > 1 else None
                    for kw in n.keywords:
                        if kw.arg == 'status':
                            status = kw.value
                        if kw.arg == 'body':
                            body = kw.value
                    ok = (status is None or _literalish(status)) and (body is None or _literalish(body))
                    why = ''
                    if not ok and fname == 'handler' and all(isinstance(a, ast.Name) and a.id in ('status', 'body')
                                                             for a in (status, body) if a is not None):
                        ok = True
                        why = ' (names status/body: taken from the constant lists of RadiRouter.resolve, checked below)'
                    obls.append({'name': f'httperror.{rel}:{fname}:{n.lineno}', 'status': 'discharged' if ok else 'failed',
                                 'detail': f'status={ast.unparse(status) if status is not None else None} '
                                           f'body={ast.unparse(body) if body is not None else None}{why}'})
    obls.append({'name': 'httperror.sites_found', 'status': 'discharged' if sites >= 8 else 'undecided',
                 'detail': f'{sites} HTTPError(...) construction sites in the package'})
    # resolve's error lists start with two constants
    try:
        tree = ast.parse(open(os.path.join(pkg, 'router', 'radirouter.py'), encoding='utf8').read())
        ok, n = True, 0
        for f in ast.walk(tree):
            if isinstance(f, ast.FunctionDef) and f.name == 'resolve':
                for r in ast.walk(f):
                    if isinstance(r, ast.Return) and isinstance(r.value, ast.Tuple) and len(r.value.elts) == 2 \
                            and isinstance(r.value.elts[1], ast.List):
                        lst = r.value.elts[1].elts
                        n += 1
                        ok = ok and len(lst) == 3 and isinstance(lst[0], ast.Constant) and isinstance(lst[1], ast.Constant)
        obls.append({'name': 'httperror.resolve_error_lists_are_constants', 'status': 'discharged' if ok and n == 2 else 'failed',
                     'detail': f'{n} error lists [code, reason, extra] with constant code and reason'})
    except Exception as e:   # noqa
        obls.append({'name': 'httperror.resolve_error_lists_are_constants', 'status': 'undecided', 'detail': repr(e)})
    # ---- last resort page
    try:
        tree = ast.parse(open(os.path.join(pkg, 'ombott.py'), encoding='utf8').read())
        wsgi = [f for f in ast.walk(tree) if isinstance(f, ast.FunctionDef) and f.name == 'wsgi'][0]
        ok, n = True, 0
        for b in ast.walk(wsgi):
            if isinstance(b, ast.BinOp) and isinstance(b.op, ast.Mod) and isinstance(b.left, ast.Constant) \
                    and isinstance(b.left.value, str) and '<' in b.left.value:
                n += 1
                vals = b.right.elts if isinstance(b.right, ast.Tuple) else [b.right]
                for v in vals:
                    ok = ok and isinstance(v, ast.Call) and isinstance(v.func, ast.Name) and v.func.id == 'html_escape'
        obls.append({'name': 'lastresort.escaped', 'status': 'discharged' if ok and n >= 1 else 'failed',
                     'detail': f'{n} HTML %-templates in Ombott.wsgi; every interpolated value is html_escape(...)'})
    except Exception as e:   # noqa
        obls.append({'name': 'lastresort.escaped', 'status': 'undecided', 'detail': repr(e)})
    return {'obligations': obls, 'assumptions': ['syntactic site checks: names are resolved by spelling (HTTPError, html_escape)'],
            'problems': []}
