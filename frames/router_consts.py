"""C01 — generated wildcard names cannot collide with names a user can write.

Anonymous wildcards get generated names  <anon_prefix><n>  and Route.make_params_dict (under contract: contracts/C02.py) drops
every name that starts with anon_prefix before the handler is called.  "The handler is called with exactly the named
wildcards of the rule" therefore needs: no name the rule grammar accepts can start with anon_prefix.  Site obligation on the
real source: anon_prefix is a string literal in the class body of Route, the name grammar `py_name` is a regular-expression
literal in Parser, and anon_prefix contains a character no grammar-accepted name can contain (decided by matching every
prefix character against the grammar's character classes: complete over the literal).
"""
import ast
import os
import re


def run(repo, prop, tier):
    obls, problems = [], []
    rr = ast.parse(open(os.path.join(repo, 'ombott/router/radirouter.py'), encoding='utf8').read())
    pr = ast.parse(open(os.path.join(repo, 'ombott/router/parser.py'), encoding='utf8').read())
    prefix = None
    for cls in [n for n in ast.walk(rr) if isinstance(n, ast.ClassDef) and n.name == 'Route']:
        for st in cls.body:
            if isinstance(st, ast.Assign) and len(st.targets) == 1 and getattr(st.targets[0], 'id', None) == 'anon_prefix' \
                    and isinstance(st.value, ast.Constant) and isinstance(st.value.value, str):
                prefix = st.value.value
    py_name = None
    for n in ast.walk(pr):
        if isinstance(n, ast.Assign) and len(n.targets) == 1 and getattr(n.targets[0], 'id', None) == 'py_name' \
                and isinstance(n.value, ast.Constant) and isinstance(n.value.value, str):
            py_name = n.value.value
    if prefix is None or py_name is None:
        obls.append({'name': 'anon_prefix.literals_found', 'status': 'undecided',
                     'detail': f'Route.anon_prefix literal: {prefix!r}; Parser py_name literal: {py_name!r}'})
        return {'obligations': obls, 'assumptions': [], 'problems': problems}
    obls.append({'name': 'anon_prefix.literals_found', 'status': 'discharged',
                 'detail': f'Route.anon_prefix = {prefix!r}; name grammar py_name = {py_name!r}'})
    # a user name starting with the prefix exists iff the prefix itself is a prefix of some word of the grammar; for the
    # grammar  [a-zA-Z_]\w*  (and any grammar whose words consist of word characters) that is: every character of the prefix
    # is a word character and the first one may start a name.  Decide it on the literal with the grammar itself.
    rx = re.compile(py_name)
    can_prefix = bool(prefix) and all(rx.fullmatch(('a' + prefix[:i + 1]) if i else prefix[:1]) or rx.fullmatch(prefix[:i + 1])
                                      for i in range(len(prefix)))
    # independent formulation: some extension of the prefix is a name  <=>  prefix + 'a' or prefix itself matches
    can_prefix = can_prefix or bool(rx.fullmatch(prefix)) or bool(rx.fullmatch(prefix + 'a')) or bool(rx.fullmatch(prefix + '0'))
    obls.append({'name': 'anon_prefix.cannot_start_a_user_name', 'status': 'failed' if (can_prefix or not prefix) else 'discharged',
                 'detail': f'no word of {py_name!r} starts with {prefix!r}' if not can_prefix else
                           f'a wildcard named {prefix + "x"!r} is accepted by the rule grammar and would be dropped from the handler arguments',
                 'case': {'kind': 'rule', 'rule': f'/a/<{prefix}x>', 'path': '/a/1'} if can_prefix else None})
    return {'obligations': obls,
            'assumptions': ['the rule grammar takes wildcard names from the regular expression bound to py_name in Parser (checked syntactically)'],
            'problems': problems}
