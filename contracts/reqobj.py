"""C10 / C04 / C05 — the request object: copying and cache coherence.

BaseRequest.copy           the copy is a new object of the same class whose environ is a shallow copy of the WHOLE environ of the
                           original (every key: also the framework's cached views and the remembered body refusal - a copy taken
                           after the body was read shares the buffered body, it must not read the consumed stream again) and which
                           has the same configuration; the original is not written to.
BaseRequest._on_env_changed
                           cache coherence of the views cached in the environ: when a key changes, every cached view that is
                           computed from it is dropped - wsgi.input: forms, files, params, post, json, body;  QUERY_STRING: query,
                           params;  HTTP_*: headers, cookies - and nothing else is touched.  (The dependency table is the
                           specification; a copy shares the cached views of the original until one of them is invalidated.)
"""
import ast
import z3
from pyvc.engine import (Contract, Val, VInt, VBool, VStr, VObj, VList, VTuple, VFunc, VOpaque, VNone, NONE, VExc,
                         Unsupported, PyObj, StrSort, IntSort)


class Copy(Contract):
    props = ('C10', 'C04', 'C05', 'C12', 'C13')   # the copy reads the body under the SAME configuration (limits, error map)
    file = 'ombott/request_pkg/request.py'
    qualname = 'BaseRequest.copy'
    expected_labels = ('copy.environ_is_a_whole_shallow_copy', 'copy.same_class_and_configuration', 'copy.original_not_written')

    def pre(self, X):
        self.env = VObj('Environ', {})
        self.cfg = VOpaque(X.fresh(PyObj, 'config'), 'config')
        self.copies = []
        self.built = []
        c = self

        def env_copy(X, args, kwargs):
            e = VObj('EnvironCopy', {})
            c.copies.append((args[0], e, len(args), bool(kwargs)))
            return e

        def cls_call(X, args, kwargs):
            r = VObj('NewRequest', {})
            c.built.append((args, kwargs, r))
            return r
        # reads of the environ are free (and may yield anything): whatever they say, the copy gets its OWN environ
        def env_read(X, args, kwargs):
            return [NONE, VOpaque(X.fresh(PyObj, 'environ_value'), 'value')][X.choose(2, 'environ entry: absent | present')]
        self.stubs = {'Environ.copy': env_copy, 'Environ.get': env_read, 'Request._env_get': env_read, 'Request.get': env_read}
        self.me = VObj('Request', {'environ': self.env, 'config': self.cfg, '__class__': VFunc(cls_call, 'cls')})
        return {'self': self.me}

    def setattr_hook(self, X, obj, attr, val):
        if obj is self.me or obj is self.env:
            X.prove('copy.original_not_written', z3.BoolVal(False))
            return True
        return None

    def setitem_hook(self, X, obj, key, val):
        if obj is self.env:
            X.prove('copy.original_not_written', z3.BoolVal(False))
            return True
        if isinstance(obj, VObj) and obj.cls == 'EnvironCopy':
            X.prove('copy.environ_is_a_whole_shallow_copy', z3.BoolVal(False))      # keys rewritten in the copy
            return True
        return False

    def genexp_hook(self, X, node):
        # an environ rebuilt by a comprehension: a whole copy only if nothing is filtered out and keys / values are taken as they are
        if isinstance(node, ast.DictComp):
            whole = (len(node.generators) == 1 and not node.generators[0].ifs
                     and ast.unparse(node.generators[0].iter) == 'self.environ.items()'
                     and isinstance(node.generators[0].target, ast.Tuple) and len(node.generators[0].target.elts) == 2
                     and ast.unparse(node.key) == ast.unparse(node.generators[0].target.elts[0])
                     and ast.unparse(node.value) == ast.unparse(node.generators[0].target.elts[1]))
            e = VObj('EnvironCopy', {})
            if whole:
                self.copies.append((self.env, e, 1, False))
            else:
                X.prove('copy.environ_is_a_whole_shallow_copy', z3.BoolVal(False))
            return e
        return None

    def post(self, X, ret):
        X.prove('copy.original_not_written', z3.BoolVal(True))
        ok = len(self.copies) == 1 and self.copies[0][0] is self.env and self.copies[0][2] == 1 and not self.copies[0][3]
        one = len(self.built) == 1 and ret is self.built[0][2]
        if one:
            args, kwargs, _ = self.built[0]
            X.prove('copy.environ_is_a_whole_shallow_copy', z3.BoolVal(bool(ok) and len(args) == 1 and args[0] is self.copies[0][1]))
            X.prove('copy.same_class_and_configuration', z3.BoolVal(set(kwargs) == {'config'} and kwargs['config'] is self.cfg))
        else:
            X.prove('copy.environ_is_a_whole_shallow_copy', z3.BoolVal(False))
            X.prove('copy.same_class_and_configuration', z3.BoolVal(False))

    def post_raise(self, X, exc):
        X.prove('raises.nothing', z3.BoolVal(False))


DEPENDS = {           # cached view -> the environ keys it is computed from
    'wsgi.input': ('forms', 'files', 'params', 'post', 'json', 'body'),
    'QUERY_STRING': ('query', 'params'),
    'HTTP_': ('headers', 'cookies'),
}


class OnEnvChanged(Contract):
    props = ('C10', 'C18', 'C04', 'C15')
    file = 'ombott/request_pkg/request.py'
    qualname = 'BaseRequest._on_env_changed'
    assumptions = ('cached views live in the environ under "ombott.request.<view>"; the views computed from a key are: ' + repr(DEPENDS),
                   'dict.pop(key, None) removes the key if present and never raises')
    expected_labels = ('invalidate.every_view_computed_from_the_key', 'invalidate.nothing_else')

    def pre(self, X):
        self.kind = ('wsgi.input', 'QUERY_STRING', 'HTTP_', 'other')[X.choose(4, 'changed key')]
        if self.kind in ('wsgi.input', 'QUERY_STRING'):
            key = VStr(self.kind)
        elif self.kind == 'HTTP_':
            k = X.fresh(StrSort, 'header_key')
            X.assume(z3.PrefixOf(z3.StringVal('HTTP_'), k))
            key = VStr(k)
        else:
            k = X.fresh(StrSort, 'other_key')
            X.assume(z3.And(k != z3.StringVal('wsgi.input'), k != z3.StringVal('QUERY_STRING'),
                            z3.Not(z3.PrefixOf(z3.StringVal('HTTP_'), k))))
            key = VStr(k)
        self.popped = []
        c = self

        def env_pop(X, args, kwargs):
            k = z3.simplify(args[1].t)
            if not z3.is_string_value(k):
                raise Unsupported('pop of a symbolic key')
            c.popped.append((k.as_string(), len(args)))
            return NONE
        self.stubs = {'Environ.pop': env_pop}
        self.env = VObj('Environ', {})
        return {'request': VObj('Request', {'environ': self.env}), 'key': key, 'v': VOpaque(X.fresh(PyObj, 'value'), 'value')}

    def setitem_hook(self, X, obj, key, val):
        if obj is self.env:
            X.prove('invalidate.nothing_else', z3.BoolVal(False))
            return True
        return False

    def post(self, X, ret):
        want = {'ombott.request.' + v for v in DEPENDS.get(self.kind, ())}
        got = {k for k, n in self.popped}
        X.prove('invalidate.every_view_computed_from_the_key', z3.BoolVal(want <= got))
        X.prove('invalidate.nothing_else', z3.BoolVal(got <= want and all(n == 3 for k, n in self.popped)))

    def post_raise(self, X, exc):
        X.prove('raises.nothing', z3.BoolVal(False))


class SetItem(Contract):
    """BaseRequest.__setitem__: every change of the environ made through the request object is announced (env_changed with the key
    and the new value), so that the cached views computed from the key are dropped (_on_env_changed) - also for a key that was not
    there before (a view may have been computed and cached from its ABSENCE, e.g. an empty query); storing the value a key already
    has is a no-op; a read-only request refuses with KeyError and changes nothing."""
    props = ('C18', 'C10')
    file = 'ombott/request_pkg/request.py'
    qualname = 'BaseRequest.__setitem__'
    expected_labels = ('setitem.every_change_is_announced_once_after_the_store', 'setitem.same_value_is_a_no_op',
                       'setitem.read_only_refuses_and_changes_nothing')

    def pre(self, X):
        self.readonly = X.choose(2, 'read-only?') == 1
        self.present = X.choose(2, 'key present?') == 1
        self.key = X.fresh_str('key')
        self.value = VOpaque(X.fresh(PyObj, 'value'), 'value')
        self.old = VOpaque(X.fresh(PyObj, 'old_value'), 'value')
        self.events = []
        c = self

        def env_get(X, args, kwargs):
            k = z3.simplify(args[0].t) if isinstance(args[0], VStr) else None
            if k is not None and z3.is_string_value(k) and k.as_string() == 'ombott.request.readonly':
                return VBool(c.readonly)
            raise Unsupported('_env_get of another key')

        def emit(X, args, kwargs):
            c.events.append(('emit', args[1:], dict(kwargs)))
            return NONE
        self.env = VObj('Environ', {})
        self.stubs = {}
        self.me = VObj('Request', {'environ': self.env, '_env_get': VFunc(env_get, '_env_get'), 'emit': VFunc(lambda X, a, k: emit(X, [None] + list(a), k), 'emit')})
        return {'self': self.me, 'key': self.key, 'value': self.value}

    def contains_hook(self, X, container, item):
        if container is self.env:
            return z3.BoolVal(self.present)
        return None

    def getitem_hook(self, X, obj, key):
        if obj is self.env:
            if not self.present:
                X.raise_(KeyError, 'key')
            return self.old
        return None

    def setitem_hook(self, X, obj, key, val):
        if obj is self.env:
            self.events.append(('store', key, val))
            return True
        return False

    def post(self, X, ret):
        stores = [e for e in self.events if e[0] == 'store']
        emits = [e for e in self.events if e[0] == 'emit']
        if self.readonly:
            X.prove('setitem.read_only_refuses_and_changes_nothing', z3.BoolVal(False))
            return
        same = z3.And(z3.BoolVal(self.present), self.old.t == self.value.t)
        if not stores:
            X.prove('setitem.same_value_is_a_no_op', z3.And(same, z3.BoolVal(not emits)))
            return
        ok_store = len(stores) == 1 and stores[0][1] is self.key and stores[0][2] is self.value
        ok_emit = (len(emits) == 1 and self.events.index(emits[0]) > self.events.index(stores[0])
                   and len(emits[0][1]) == 3 and isinstance(emits[0][1][0], VStr)
                   and z3.is_string_value(z3.simplify(emits[0][1][0].t)) and z3.simplify(emits[0][1][0].t).as_string() == 'env_changed'
                   and emits[0][1][1] is self.key and emits[0][1][2] is self.value)
        X.prove('setitem.every_change_is_announced_once_after_the_store', z3.BoolVal(bool(ok_store and ok_emit)))

    def post_raise(self, X, exc):
        X.prove('setitem.read_only_refuses_and_changes_nothing',
                z3.BoolVal(self.readonly and exc.pyclass is KeyError and not self.events))


CONTRACTS = [Copy(), OnEnvChanged(), SetItem()]
