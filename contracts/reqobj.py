"""C10 / C04 / C05 — the request object: copying and cache coherence.

BaseRequest.copy           the copy is a new object of the same class whose environ is a shallow copy of the WHOLE environ of the
                           original (every key: also the framework's cached views and the remembered body refusal - a copy taken
                           after the body was read shares the buffered body, it must not read the consumed stream again) and which
                           has the same configuration; the original is not written to.
BaseRequest._on_env_changed
                           cache coherence of the views cached in the environ: when a key changes, every cached view that is
                           computed from it is dropped - wsgi.input: forms, files, params, post, json, body;  QUERY_STRING: query,
                           params;  HTTP_*: headers, cookies - and nothing else is touched.  (The dependency table is the
                           specification; a copy shares the cached views of the original until one of them is invalidated.)
"""
import ast
import z3
from pyvc.engine import (Contract, Val, VInt, VBool, VStr, VObj, VList, VTuple, VFunc, VOpaque, VNone, NONE, VExc,
                         Unsupported, PyObj, StrSort, IntSort)


class Copy(Contract):
    props = ('C10', 'C04', 'C05')
    file = 'ombott/request_pkg/request.py'
    qualname = 'BaseRequest.copy'
    expected_labels = ('copy.environ_is_a_whole_shallow_copy', 'copy.same_class_and_configuration', 'copy.original_not_written')

    def pre(self, X):
        self.env = VObj('Environ', {})
        self.cfg = VOpaque(X.fresh(PyObj, 'config'), 'config')
        self.copies = []
        self.built = []
        c = self

        def env_copy(X, args, kwargs):
            e = VObj('EnvironCopy', {})
            c.copies.append((args[0], e, len(args), bool(kwargs)))
            return e

        def cls_call(X, args, kwargs):
            r = VObj('NewRequest', {})
            c.built.append((args, kwargs, r))
            return r
        self.stubs = {'Environ.copy': env_copy}
        self.me = VObj('Request', {'environ': self.env, 'config': self.cfg, '__class__': VFunc(cls_call, 'cls')})
        return {'self': self.me}

    def setattr_hook(self, X, obj, attr, val):
        if obj is self.me or obj is self.env:
            X.prove('copy.original_not_written', z3.BoolVal(False))
            return True
        return None

    def setitem_hook(self, X, obj, key, val):
        if obj is self.env:
            X.prove('copy.original_not_written', z3.BoolVal(False))
            return True
        if isinstance(obj, VObj) and obj.cls == 'EnvironCopy':
            X.prove('copy.environ_is_a_whole_shallow_copy', z3.BoolVal(False))      # keys rewritten in the copy
            return True
        return False

    def genexp_hook(self, X, node):
        # an environ rebuilt by a comprehension: a whole copy only if nothing is filtered out and keys / values are taken as they are
        if isinstance(node, ast.DictComp):
            whole = (len(node.generators) == 1 and not node.generators[0].ifs
                     and ast.unparse(node.generators[0].iter) == 'self.environ.items()'
                     and isinstance(node.generators[0].target, ast.Tuple) and len(node.generators[0].target.elts) == 2
                     and ast.unparse(node.key) == ast.unparse(node.generators[0].target.elts[0])
                     and ast.unparse(node.value) == ast.unparse(node.generators[0].target.elts[1]))
            e = VObj('EnvironCopy', {})
            if whole:
                self.copies.append((self.env, e, 1, False))
            else:
                X.prove('copy.environ_is_a_whole_shallow_copy', z3.BoolVal(False))
            return e
        return None

    def post(self, X, ret):
        X.prove('copy.original_not_written', z3.BoolVal(True))
        ok = len(self.copies) == 1 and self.copies[0][0] is self.env and self.copies[0][2] == 1 and not self.copies[0][3]
        one = len(self.built) == 1 and ret is self.built[0][2]
        if one:
            args, kwargs, _ = self.built[0]
            X.prove('copy.environ_is_a_whole_shallow_copy', z3.BoolVal(bool(ok) and len(args) == 1 and args[0] is self.copies[0][1]))
            X.prove('copy.same_class_and_configuration', z3.BoolVal(set(kwargs) == {'config'} and kwargs['config'] is self.cfg))
        else:
            X.prove('copy.environ_is_a_whole_shallow_copy', z3.BoolVal(False))
            X.prove('copy.same_class_and_configuration', z3.BoolVal(False))

    def post_raise(self, X, exc):
        X.prove('raises.nothing', z3.BoolVal(False))


DEPENDS = {           # cached view -> the environ keys it is computed from
    'wsgi.input': ('forms', 'files', 'params', 'post', 'json', 'body'),
    'QUERY_STRING': ('query', 'params'),
    'HTTP_': ('headers', 'cookies'),
}


class OnEnvChanged(Contract):
    props = ('C10', 'C18', 'C04')
    file = 'ombott/request_pkg/request.py'
    qualname = 'BaseRequest._on_env_changed'
    assumptions = ('cached views live in the environ under "ombott.request.<view>"; the views computed from a key are: ' + repr(DEPENDS),
                   'dict.pop(key, None) removes the key if present and never raises')
    expected_labels = ('invalidate.every_view_computed_from_the_key', 'invalidate.nothing_else')

    def pre(self, X):
        self.kind = ('wsgi.input', 'QUERY_STRING', 'HTTP_', 'other')[X.choose(4, 'changed key')]
        if self.kind in ('wsgi.input', 'QUERY_STRING'):
            key = VStr(self.kind)
        elif self.kind == 'HTTP_':
            k = X.fresh(StrSort, 'header_key')
            X.assume(z3.PrefixOf(z3.StringVal('HTTP_'), k))
            key = VStr(k)
        else:
            k = X.fresh(StrSort, 'other_key')
            X.assume(z3.And(k != z3.StringVal('wsgi.input'), k != z3.StringVal('QUERY_STRING'),
                            z3.Not(z3.PrefixOf(z3.StringVal('HTTP_'), k))))
            key = VStr(k)
        self.popped = []
        c = self

        def env_pop(X, args, kwargs):
            k = z3.simplify(args[1].t)
            if not z3.is_string_value(k):
                raise Unsupported('pop of a symbolic key')
            c.popped.append((k.as_string(), len(args)))
            return NONE
        self.stubs = {'Environ.pop': env_pop}
        self.env = VObj('Environ', {})
        return {'request': VObj('Request', {'environ': self.env}), 'key': key, 'v': VOpaque(X.fresh(PyObj, 'value'), 'value')}

    def setitem_hook(self, X, obj, key, val):
        if obj is self.env:
            X.prove('invalidate.nothing_else', z3.BoolVal(False))
            return True
        return False

    def post(self, X, ret):
        want = {'ombott.request.' + v for v in DEPENDS.get(self.kind, ())}
        got = {k for k, n in self.popped}
        X.prove('invalidate.every_view_computed_from_the_key', z3.BoolVal(want <= got))
        X.prove('invalidate.nothing_else', z3.BoolVal(got <= want and all(n == 3 for k, n in self.popped)))

    def post_raise(self, X, exc):
        X.prove('raises.nothing', z3.BoolVal(False))


CONTRACTS = [Copy(), OnEnvChanged()]
