"""C10 / C18 / C04 — cache_in('environ[ key ]'): every derived request attribute is computed once per environ and kept IN that environ.

All 21 derived attributes of a request (query, forms, files, body, content_length, headers, cookies, url, ...) are properties
built by cache_in with a storage attribute and a key.  The three closures of the keyed variant are what makes "two request
objects on one environ agree" (C10), "a changed environ key drops exactly the dependent caches" (C18, together with
_on_env_changed which deletes these keys) and "the body is read once" (C04/C12: `body` is such a property) hold:

  fget(self)   storage = getattr(self, attr)
               key in storage      -> returns storage[key], the getter is NOT called, nothing is written
               key not in storage  -> the getter is called exactly once, with self; its result is stored under key in THAT storage
                                      and returned; if the getter raises AttributeError it is turned into PropertyGetterError
                                      (an AttributeError escaping a property would be mistaken for a missing attribute) and
                                      nothing is stored; any other exception passes through and nothing is stored
  fset(self,v) read-only: AttributeError before anything is written; else storage[key] = v
  fdel(self)   read-only: AttributeError before anything is written; else del storage[key]

`attr`, `key`, `getter`, `read_only` are the closure variables of the decorator (bound here to arbitrary values).
"""
import z3
from pyvc.engine import (Contract, Val, VInt, VBool, VStr, VObj, VFunc, VOpaque, VTuple, VNone, NONE, VExc, Unsupported,
                         PyObj, StrSort, PyRaise)


class _Keyed(Contract):
    props = ('C10', 'C18', 'C04')
    file = 'ombott/request_pkg/helpers.py'
    assumptions = ('the storage is a dict-like object reached by getattr(self, attr); `in`, item read, item write and item delete '
                   'are its only operations', 'closure variables attr, key, getter, read_only are arbitrary')

    def base(self, X):
        self.attr, self.key = X.fresh_str('attr'), X.fresh_str('key')
        self.me = VOpaque(X.fresh(PyObj, 'self'), 'request')
        self.storage = VObj('Storage', {})
        self.cached = X.fresh_bool('key_in_storage')
        self.stored = VOpaque(X.fresh(PyObj, 'stored'), 'value')
        self.ev = []
        self.getattr_ok = None
        return {'self': self.me, 'attr': self.attr, 'key': self.key}

    def builtin_hook(self, X, name, args, kwargs):
        if name == 'getattr' and len(args) == 2:
            ok = args[0] is self.me and args[1] is self.attr
            self.getattr_ok = ok if self.getattr_ok is None else (self.getattr_ok and ok)
            return self.storage
        return None

    def contains_hook(self, X, container, item):
        if container is self.storage:
            self.ev.append(('in', item))
            return self.cached.t
        return None

    def getitem_hook(self, X, obj, key):
        if obj is self.storage:
            self.ev.append(('read', key))
            written = [e for e in self.ev if e[0] == 'write' and e[1] is key]
            return written[-1][2] if written else self.stored
        return None

    def setitem_hook(self, X, obj, key, val):
        if obj is self.storage:
            self.ev.append(('write', key, val))
            return True
        return None

    def delitem_hook(self, X, obj, key):
        if obj is self.storage:
            self.ev.append(('del', key))
            return True
        return None

    def writes(self):
        return [e for e in self.ev if e[0] in ('write', 'del')]


class KeyedFget(_Keyed):
    qualname = 'cache_in.wrapper.fget#1'
    expected_labels = ('hit.stored_value_returned_getter_not_called', 'miss.getter_called_once_result_stored_in_this_storage_and_returned',
                       'getter_attribute_error.becomes_property_getter_error_nothing_stored',
                       'getter_other_error.passes_through_nothing_stored')

    def pre(self, X):
        env = self.base(X)
        self.outcome = X.choose(3, 'getter: returns | raises AttributeError | raises another exception')
        self.computed = VOpaque(X.fresh(PyObj, 'computed'), 'value')
        self.calls = []
        c = self

        def getter(X, args, kwargs):
            c.calls.append((list(args), dict(kwargs)))
            if c.outcome == 1:
                X.raise_(AttributeError, 'from_getter')
            if c.outcome == 2:
                X.raise_(KeyError, 'from_getter')
            return c.computed
        self.stubs = {'getter': getter}
        env['getter'] = VFunc(getter, 'getter')
        env['read_only'] = X.fresh_bool('read_only')
        return env

    def getattr_hook(self, X, obj, attr):
        if isinstance(obj, VFunc) and attr == '__name__':
            return X.fresh_str('getter_name')
        return None

    def _called_once(self):
        return len(self.calls) == 1 and len(self.calls[0][0]) == 1 and self.calls[0][0][0] is self.me and not self.calls[0][1]

    def post(self, X, ret):
        if not self.calls:
            X.prove('hit.stored_value_returned_getter_not_called',
                    z3.And(self.cached.t, z3.BoolVal(ret is self.stored and not self.writes() and bool(self.getattr_ok)
                                                     and all(e[1] is self.key for e in self.ev))))
        else:
            w = self.writes()
            ok = (self._called_once() and self.outcome == 0 and len(w) == 1 and w[0][0] == 'write' and w[0][1] is self.key
                  and w[0][2] is self.computed and ret is self.computed and bool(self.getattr_ok))
            X.prove('miss.getter_called_once_result_stored_in_this_storage_and_returned',
                    z3.And(z3.Not(self.cached.t), z3.BoolVal(bool(ok))))

    def post_raise(self, X, exc):
        name = getattr(exc.pyclass, '__name__', '')
        if self.outcome == 1:
            X.prove('getter_attribute_error.becomes_property_getter_error_nothing_stored',
                    z3.BoolVal(name == 'PropertyGetterError' and not issubclass(exc.pyclass, AttributeError)
                               and not self.writes() and self._called_once()))
        elif self.outcome == 2:
            X.prove('getter_other_error.passes_through_nothing_stored',
                    z3.BoolVal(exc.pyclass is KeyError and not self.writes() and self._called_once()))
        else:
            X.prove('raises.nothing_when_the_getter_returns', z3.BoolVal(False))


class KeyedFset(_Keyed):
    qualname = 'cache_in.wrapper.fset#1'
    expected_labels = ('read_only.refused_before_any_write', 'writable.value_stored_under_the_key_in_this_storage')

    def pre(self, X):
        env = self.base(X)
        self.ro = X.choose(2, 'read_only: False | True') == 1
        self.value = VOpaque(X.fresh(PyObj, 'value'), 'value')
        env['read_only'] = VBool(self.ro)
        env['value'] = self.value
        return env

    def post(self, X, ret):
        w = self.writes()
        X.prove('writable.value_stored_under_the_key_in_this_storage',
                z3.BoolVal(not self.ro and len(w) == 1 and w[0][0] == 'write' and w[0][1] is self.key and w[0][2] is self.value
                           and bool(self.getattr_ok)))

    def post_raise(self, X, exc):
        X.prove('read_only.refused_before_any_write', z3.BoolVal(self.ro and exc.pyclass is AttributeError and not self.writes()))


class KeyedFdel(_Keyed):
    qualname = 'cache_in.wrapper.fdel#1'
    expected_labels = ('read_only.refused_before_any_write', 'writable.key_deleted_from_this_storage')

    def pre(self, X):
        env = self.base(X)
        self.ro = X.choose(2, 'read_only: False | True') == 1
        env['read_only'] = VBool(self.ro)
        return env

    def post(self, X, ret):
        w = self.writes()
        X.prove('writable.key_deleted_from_this_storage',
                z3.BoolVal(not self.ro and len(w) == 1 and w[0][0] == 'del' and w[0][1] is self.key and bool(self.getattr_ok)))

    def post_raise(self, X, exc):
        X.prove('read_only.refused_before_any_write', z3.BoolVal(self.ro and exc.pyclass is AttributeError and not self.writes()))


CONTRACTS = [KeyedFget(), KeyedFset(), KeyedFdel()]
