"""static_file (C16 containment, C17 header assembly).

C16: every file-system access (exists / isfile / access / stat / open) is made on the one name
        T = abspath(join(abspath(root) + sep, filename.strip('/\\\\')))
     and only on paths where  T.startswith(abspath(root) + sep)  holds; every other path returns 403 / 404.
     "Inside the root" is what the statement says: the normalised location has the normalised root plus separator
     as a prefix.  abspath / join / strip are uninterpreted (no property of them is needed for this argument).
C17: on the 206 path Content-Range == "bytes {s}-{e-1}/{size}", Content-Length == str(e-s) and the body is
     _file_iter_range(file, s, e-s) for the SAME (s, e) = get_first_range(Range, size); a falsy first range -> 416;
     no Range header -> the open file with Content-Length == st_size; If-Modified-Since not older than the file
     -> 304 built without a body and without opening the file; HEAD -> body ''.
"""
import z3
import ast
from pyvc.engine import (Contract, Val, VInt, VBool, VStr, VObj, VFunc, VTuple, VNone, NONE, Unsupported, StrSort)

S = z3.StringVal


class MTime(Val):
    """st_mtime: a float = whole seconds `sec` plus a fraction in [0, 1) that may be non-zero (`frac_nz`)"""

    def __init__(self, sec, frac_nz):
        self.sec, self.frac_nz = sec, frac_nz


class StaticFile(Contract):
    props = ('C16', 'C17', 'C03')   # C03: the Content-Length static_file sets is the length of what its body delivers
    file = 'ombott/static_stream.py'
    qualname = 'static_file'
    max_paths = 6000
    assumptions = (
        'os.path.abspath / os.path.join / str.strip / basename / mimetypes / email.utils / parse_date: uninterpreted library '
        'functions that do not touch the file named (abspath is lexical); os.sep is the platform separator',
        'callee contract of get_first_range (proved in contracts/C17.py): None or (s, e) with 0 <= s < e <= size',
        'callee contract of _file_iter_range (proved in contracts/C17.py): yields exactly file[s:e] in chunks <= maxread',
        'st_mtime is a non-negative float: whole seconds plus a fraction in [0,1); Last-Modified has one-second resolution, so '
        '"not older than the file" is judged at that resolution: If-Modified-Since >= int(st_mtime)',
        'precondition: an If-Modified-Since header that is present is not the empty string (an empty one makes the '
        'comparison `"" >= int` raise TypeError - observed, outside the statement of C17)',
    )
    expected_labels = ('fs.open_only_tested_name_inside_root', 'fs.probe_only_tested_name_inside_root',
                       'resp.206_content_range', 'resp.206_content_length', 'resp.206_body_is_same_slice',
                       'resp.416_iff_no_satisfiable_range', 'resp.200_whole_file_true_length', 'resp.304_no_body_no_open',
                       'resp.head_has_no_body', 'resp.403_404_without_open', 'resp.304_iff_not_modified_since')

    # ------------------------------------------------------------------ symbolic world
    def pre(self, X):
        d = X.driver
        self.abspath = d.uf('abspath', StrSort, StrSort)
        self.join = d.uf('path_join', StrSort, StrSort, StrSort)
        self.strip = d.uf('strip_slashes', StrSort, StrSort)
        self.root_arg = X.fresh(StrSort, 'root')
        self.fn_arg = X.fresh(StrSort, 'filename')
        self.sep = S('/')
        self.rootp = z3.Concat(self.abspath(self.root_arg), self.sep)
        self.T = self.abspath(self.join(self.rootp, self.strip(self.fn_arg)))
        self.size = X.fresh(z3.IntSort(), 'st_size')
        self.mtime = X.fresh(z3.IntSort(), 'st_mtime_seconds')
        self.mtime_frac_nz = X.fresh(z3.BoolSort(), 'st_mtime_has_fraction')
        X.assume(self.mtime >= 0)
        X.assume(self.size >= 0)
        self.method = X.fresh(StrSort, 'method')
        self.opened = []
        self.range_result = None
        self.iter_args = None
        c = self

        def fs(label):
            def f(X, args, kwargs):
                strs = [a for a in args if isinstance(a, VStr)]   # (a method stub also receives its receiver)
                if not strs:
                    raise Unsupported('file name is not a str')
                name = strs[0]
                X.prove('fs.open_only_tested_name_inside_root' if label == 'open' else 'fs.probe_only_tested_name_inside_root',
                        z3.And(name.t == c.T, z3.PrefixOf(c.rootp, name.t)))
                X.record(fs=label)
                if label == 'open':
                    return VObj('File', {})
                if label == 'stat':
                    return VObj('Stat', {'st_size': VInt(c.size), 'st_mtime': MTime(c.mtime, c.mtime_frac_nz)})
                return X.fresh_bool(label)
            return f

        def abspath(X, args, kwargs):
            return VStr(c.abspath(args[-1].t))

        def join(X, args, kwargs):
            return VStr(c.join(args[-2].t, args[-1].t))

        def basename(X, args, kwargs):
            return X.fresh_str('basename')

        def guess_type(X, args, kwargs):
            if X.choose(2, 'guess: (type, no encoding) | (no type, encoding)') == 0:
                return VTuple([X.fresh_str('mimetype'), NONE])
            return VTuple([NONE, X.fresh_str('encoding')])

        def env_get(X, args, kwargs):
            key = [a for a in args if isinstance(a, VStr)][0]
            k = z3.simplify(key.t).as_string()
            v = [NONE, X.fresh_str(k)][X.choose(2, f'environ has {k}?')]
            if isinstance(v, VStr) and k == 'HTTP_IF_MODIFIED_SINCE':
                X.assume(z3.Length(v.t) > 0)     # stated precondition: a present If-Modified-Since header is not empty
            X.record(env=(k, v))
            return v

        def parse_date(X, args, kwargs):
            r = [NONE, X.fresh_int('ims')][X.choose(2, 'date parses?')]
            X.record(ims_parsed=r)
            return r

        def get_first_range(X, args, kwargs):
            hdr, maxlen = args
            X.prove('call.get_first_range_with_file_size', maxlen.t == c.size)
            if X.choose(2, 'first range satisfiable?') == 0:
                c.range_result = NONE
                return NONE
            s, e = X.fresh(z3.IntSort(), 'range_start'), X.fresh(z3.IntSort(), 'range_end')
            X.assume(z3.And(0 <= s, s < e, e <= maxlen.t))
            c.range_result = (s, e)
            return VTuple([VInt(s), VInt(e)])

        def file_iter_range(X, args, kwargs):
            c.iter_args = args
            return VObj('RangeIter', {})

        self.stubs = {
            'os.path.abspath': abspath, 'os.path.join': join, 'os.path.basename': basename,
            'os.path.exists': fs('exists'), 'os.path.isfile': fs('isfile'), 'os.access': fs('access'), 'os.stat': fs('stat'),
            'open': fs('open'), 'mimetypes.guess_type': guess_type, 'Environ.get': env_get, 'parse_date': parse_date,
            'email.utils.formatdate': lambda X, a, k: X.fresh_str('date'), 'time.time': lambda X, a, k: X.fresh_int('now'),
            'get_first_range': get_first_range, '_file_iter_range': file_iter_range,
        }
        req = VObj('Request', {'environ': VObj('Environ', {}), 'method': VStr(self.method)})
        osmod = VObj('os', {'path': VObj('os.path', {}), 'sep': VStr(self.sep), 'R_OK': VInt(4)})
        # the mimetype / download arguments do not take part in C16 / C17: two representative shapes each
        mimetype = [VStr('auto'), X.fresh_str('mimetype_arg')][X.choose(2, 'mimetype argument')]
        download = [VBool(False), X.fresh_str('download_arg')][X.choose(2, 'download argument')]
        return {'filename': VStr(self.fn_arg), 'root': VStr(self.root_arg), 'mimetype': mimetype, 'download': download,
                'charset': VStr('UTF-8'), 'Globals': VObj('Globals', {'request': req}), 'os': osmod,
                'mimetypes': VObj('mimetypes', {})}

    def method_hook(self, X, obj, name, args, kwargs):
        if name == 'strip' and isinstance(obj, VStr):
            if args:
                return VStr(self.strip(obj.t))
            return VStr(X.driver.uf('strip_ws', StrSort, StrSort)(obj.t))
        return None

    def builtin_hook(self, X, name, args, kwargs):
        if name == 'int' and len(args) == 1 and isinstance(args[0], MTime):
            return VInt(args[0].sec)            # int() truncates; the time stamp is not negative
        return None

    def compare_hook(self, X, op, a, b):
        # int <op> float time stamp, exact:  i >= sec + frac  <=>  i >= sec + (1 if frac != 0 else 0)   etc.
        if isinstance(a, VInt) and isinstance(b, MTime):
            up = b.sec + z3.If(b.frac_nz, 1, 0)
            return {ast.GtE: a.t >= up, ast.Gt: a.t > b.sec, ast.LtE: a.t <= b.sec, ast.Lt: a.t < up}.get(type(op))
        return None

    def str_hook(self, X, a):
        if isinstance(a, VInt):
            return VStr(X.driver.uf('str_of_int', z3.IntSort(), StrSort)(a.t))
        return None

    def construct_hook(self, X, pyclass, args, kwargs):
        if pyclass is dict and not args and not kwargs:
            return VObj('StrDict', {})
        name = getattr(pyclass, '__name__', '')
        if name in ('HTTPError', 'HTTPResponse'):
            return VObj('Resp', {'cls': VStr(name), 'args': VTuple(args), 'kw': VObj('StrDict', dict(kwargs))})
        return None

    # ------------------------------------------------------------------ postconditions
    def post(self, X, ret):
        if not (isinstance(ret, VObj) and ret.cls == 'Resp'):
            X.prove('post.returns_response', z3.BoolVal(False))
            return
        cls = z3.simplify(ret.fields['cls'].t).as_string()
        args = ret.fields['args'].items
        kw = ret.fields['kw'].fields
        opened = [r for r in X.trace if r.get('fs') == 'open']
        env = dict(r['env'] for r in X.trace if 'env' in r)
        sint = X.driver.uf('str_of_int', z3.IntSort(), StrSort)
        parsed = [r['ims_parsed'] for r in X.trace if 'ims_parsed' in r]
        not_modified = parsed[-1].t >= self.mtime if parsed and isinstance(parsed[-1], VInt) else z3.BoolVal(False)
        is304 = cls == 'HTTPResponse' and 'status' in kw and z3.simplify(kw['status'].t).as_long() == 304
        if any(r.get('fs') == 'stat' for r in X.trace):
            # once the file is known to exist: 304 exactly when a parsable If-Modified-Since is not older than the file
            X.prove('resp.304_iff_not_modified_since', not_modified if is304 else z3.Not(not_modified))
        if cls == 'HTTPError':
            code = z3.simplify(args[0].t).as_long()
            if code in (403, 404):
                X.prove('resp.403_404_without_open', z3.BoolVal(not opened))
            elif code == 416:
                X.prove('resp.416_iff_no_satisfiable_range', z3.BoolVal(isinstance(self.range_result, VNone)))
            else:
                X.prove('resp.unexpected_error_status', z3.BoolVal(False))
            return
        status = kw.get('status')
        body = args[0] if args else None
        code = z3.simplify(status.t).as_long() if status is not None else 200
        head = self.method == S('HEAD')
        if code == 304:
            ims = [r for r in X.trace if 'env' in r and r['env'][0] == 'HTTP_IF_MODIFIED_SINCE']
            X.prove('resp.304_no_body_no_open', z3.BoolVal(body is None and not opened))
            return
        if body is None:
            X.prove('resp.body_given', z3.BoolVal(False))
            return
        is_file = isinstance(body, VObj) and body.cls == 'File'
        is_iter = isinstance(body, VObj) and body.cls == 'RangeIter'
        is_empty = isinstance(body, VStr) and z3.is_string_value(z3.simplify(body.t)) and z3.simplify(body.t).as_string() == ''
        X.prove('resp.head_has_no_body', z3.If(head, z3.BoolVal(is_empty and not opened), z3.BoolVal((is_file or is_iter) and len(opened) == 1)))
        if code == 206:
            rr = self.range_result
            ok = isinstance(rr, tuple)
            X.prove('resp.206_only_with_satisfiable_range', z3.BoolVal(ok))
            if not ok:
                return
            s, e = rr
            cr, cl = kw.get('Content-Range'), kw.get('Content-Length')
            X.prove('resp.206_content_range', z3.BoolVal(isinstance(cr, VStr)) if not isinstance(cr, VStr) else
                    cr.t == z3.Concat(S('bytes '), sint(s), S('-'), sint(e - 1), S('/'), sint(self.size)))
            X.prove('resp.206_content_length', z3.BoolVal(False) if not isinstance(cl, VStr) else cl.t == sint(e - s))
            if is_iter:
                a = self.iter_args
                X.prove('resp.206_body_is_same_slice',
                        z3.And(z3.BoolVal(isinstance(a[0], VObj) and a[0].cls == 'File'), a[1].t == s, a[2].t == e - s)
                        if len(a) == 3 else z3.BoolVal(False))   # default maxread
            else:
                X.prove('resp.206_body_is_same_slice', z3.And(head, z3.BoolVal(is_empty)))
            return
        if code == 200:
            cl = kw.get('Content-Length')
            X.prove('resp.200_whole_file_true_length',
                    z3.And(z3.BoolVal(isinstance(cl, VInt)), cl.t == self.size, z3.BoolVal('Content-Range' not in kw),
                           z3.Or(head, z3.BoolVal(is_file)))
                    if isinstance(cl, VInt) else z3.BoolVal(False))
            X.prove('resp.200_only_without_range_header',
                    z3.BoolVal(isinstance(env.get('HTTP_RANGE'), VNone)) if not isinstance(env.get('HTTP_RANGE'), VStr)
                    else z3.Length(env['HTTP_RANGE'].t) == 0)
            return
        X.prove('resp.unexpected_status', z3.BoolVal(False))

    def post_raise(self, X, exc):
        X.prove('raises.nothing', z3.BoolVal(False))


CONTRACTS = [StaticFile()]
