"""C14 / C15 / C10 — copies do not share mutable state with the original, and copy what was STORED.

HeaderDict.copy        a new HeaderDict whose dictionary has, for every name, the same scalar value or a NEW list of the same values:
                       no value list is shared (appending to one side must not change the other)
BaseResponse.copy      the copy is built from the status and from the STORED header values (headers.copy().dict - not from the emitted,
                       already transcoded header list), and its cookies are re-parsed from the rendered text of the original's
                       cookies, so no Morsel object is shared (setting a cookie again on one side must not change the other)
Ombott.__init__        every application object gets its OWN configuration object, a new DefaultConfig instance built from the argument
                       (also when no argument is given), its own router, request and response
"""
import ast
import z3
from pyvc.engine import (Contract, Val, VInt, VBool, VStr, VObj, VList, VTuple, VFunc, VOpaque, VNone, NONE, VExc,
                         Unsupported, PyObj, StrSort, IntSort)


class HValue(Val):
    """the stored value of header k: a scalar or a list"""
    def __init__(self, owner, k):
        self.owner, self.k = owner, k


class ListCopy(Val):
    """v[:] of a stored list value: a new list with the same items"""
    def __init__(self, src):
        self.src = src


class HItems(Val):
    def __init__(self, owner):
        self.owner = owner


class HeaderDictCopy(Contract):
    props = ('C14', 'C10')
    file = 'ombott/common_helpers.py'
    qualname = 'HeaderDict.copy'
    assumptions = ('a dict comprehension over d.items() builds a new dict with one entry per entry of d, in order (Python semantics)',
                   'v[:] of a list is a new list with the same items')
    expected_labels = ('copy.new_object_of_the_same_class', 'copy.every_name_kept', 'copy.no_value_list_shared_scalars_as_they_are')

    def pre(self, X):
        self.islist = X.driver.uf('hv_islist', IntSort, z3.BoolSort())
        self.new = None
        self.assigned = None
        c = self

        def cls_call(X, args, kwargs):
            c.new = VObj('NewHeaderDict', {})
            return c.new
        # the original's own dictionary: dict.copy() of it is a SHALLOW copy (the value lists would be shared)
        self.stubs = {'OwnDict.copy': lambda X, a, k: VObj('ShallowCopy', {})}
        self.me = VObj('HeaderDict', {'__class__': VFunc(cls_call, 'cls'), 'dict': VObj('OwnDict', {})})
        return {'self': self.me}

    def method_hook(self, X, obj, name, args, kwargs):
        if obj is self.me and name == 'items' and not args:
            return HItems(obj)
        return None

    def getattr_hook(self, X, obj, attr):
        if obj is self.me and attr == 'items':
            return VFunc(lambda X2, a, k: HItems(self.me), 'items')
        return None

    def isinstance_hook(self, X, v, classes):
        if isinstance(v, HValue) and list(classes) == [list]:
            return self.islist(v.k)
        return None

    def genexp_hook(self, X, node):
        if not isinstance(node, ast.DictComp) or len(node.generators) != 1:
            return None
        g = node.generators[0]
        it = X.eval(g.iter)
        if not isinstance(it, HItems):
            raise Unsupported('dict comprehension over something else than self.items()')
        saved = dict(X.env)
        try:
            k = X.fresh(IntSort, 'k')
            key = VOpaque(X.driver.uf('hv_name', IntSort, PyObj)(k), 'name')
            val = HValue(self.me, k)
            X.assign(g.target, VTuple([key, val]))
            X.prove('copy.every_name_kept', z3.BoolVal(not g.ifs))
            kk = X.eval(node.key)
            X.prove('copy.every_name_kept', z3.BoolVal(kk is key))
            vv = X.eval(node.value)      # may split the path on islist(k)
            lst = self.islist(k)
            if isinstance(vv, ListCopy) and vv.src is val:
                ok = lst                  # a fresh list: only right when the stored value is a list
            elif vv is val:
                ok = z3.Not(lst)          # the stored object itself: only right for a scalar
            else:
                ok = z3.BoolVal(False)
            X.prove('copy.no_value_list_shared_scalars_as_they_are', ok)
            self.comp = VObj('NewDict', {})
            return self.comp
        finally:
            X.env.clear()
            X.env.update(saved)

    def setattr_hook(self, X, obj, attr, val):
        if obj is self.new and attr == 'dict':
            self.assigned = val
            return True
        return None

    def post(self, X, ret):
        if isinstance(self.assigned, VObj) and self.assigned.cls in ('ShallowCopy', 'OwnDict'):
            X.prove('copy.no_value_list_shared_scalars_as_they_are', z3.BoolVal(False))
        X.prove('copy.new_object_of_the_same_class',
                z3.BoolVal(ret is self.new and self.new is not None and self.assigned is not None))

    def post_raise(self, X, exc):
        X.prove('raises.nothing', z3.BoolVal(False))


def _hvalue_pyslice(self, X, lo, hi):
    if lo is None and hi is None:
        return ListCopy(self)
    raise Unsupported('partial slice of a header value')


HValue.pyslice = _hvalue_pyslice


class ResponseCopy(Contract):
    props = ('C14', 'C15', 'C10')
    file = 'ombott/response.py'
    qualname = 'BaseResponse.copy'
    assumptions = ('HeaderDict.copy as proved; SimpleCookie.output(header="") renders the cookies as text and SimpleCookie.load(text) parses '
                   'them into NEW Morsel objects (library)',)
    expected_labels = ('copy.built_from_status_and_stored_headers', 'copy.cookies_reparsed_from_text_no_morsel_shared',
                       'copy.class_is_a_response_class')

    def pre(self, X):
        self.has_cookies = X.choose(2, 'original has cookies?') == 1
        self.cookies = VObj('Cookies', {'truthy': VBool(True)}) if self.has_cookies else NONE
        self.status = VOpaque(X.fresh(PyObj, 'status'), 'status')
        self.hd = VObj('HeaderDict', {})
        self.hcopy = VObj('HeaderDictCopy', {'dict': VObj('CopiedDict', {})})
        self.built = []
        self.loads = []
        self.newjar = None
        c = self

        def cls_call(X, args, kwargs):
            r = VObj('NewResponse', {'_cookies': NONE})
            c.built.append((args, dict(kwargs), r))
            return r

        def jar(X, args, kwargs):
            c.newjar = VObj('NewJar', {})
            return c.newjar

        def load(X, args, kwargs):
            c.loads.append(args)
            return NONE

        def output(X, args, kwargs):
            t = VStr(X.fresh(StrSort, 'cookie_text'))
            c.rendered = (args, dict(kwargs), t)
            return t
        self.rendered = None
        self.stubs = {'HeaderDict.copy': lambda X, a, k: c.hcopy, 'SimpleCookie': jar, 'NewJar.load': load, 'Cookies.output': output,
                      'issubclass': lambda X, a, k: VBool(True)}
        self.me = VObj('Resp', {'status': self.status, 'headers': self.hd, '_cookies': self.cookies,
                                'headerlist': VOpaque(X.fresh(PyObj, 'emitted_header_list'), 'emitted')})
        self.cls_arg = X.choose(2, 'cls given?') == 1
        cls = VFunc(cls_call, 'cls') if self.cls_arg else NONE
        self.stubs['BaseResponse'] = cls_call
        return {'self': self.me, 'cls': cls}

    def post(self, X, ret):
        ok = len(self.built) == 1 and ret is self.built[0][2]
        X.prove('copy.class_is_a_response_class', z3.BoolVal(bool(ok)))
        if not ok:
            return
        args, kwargs, r = self.built[0]
        X.prove('copy.built_from_status_and_stored_headers',
                z3.BoolVal(not args and set(kwargs) == {'status', 'headers'} and kwargs['status'] is self.status
                           and kwargs['headers'] is self.hcopy.fields['dict']))
        if self.has_cookies:
            good = (r.fields.get('_cookies') is self.newjar and self.newjar is not None and len(self.loads) == 1
                    and self.rendered is not None and len(self.loads[0]) == 2 and self.loads[0][1] is self.rendered[2]
                    and self.rendered[0][0] is self.cookies)
            X.prove('copy.cookies_reparsed_from_text_no_morsel_shared', z3.BoolVal(bool(good)))
        else:
            X.prove('copy.cookies_reparsed_from_text_no_morsel_shared', z3.BoolVal(not self.loads and isinstance(r.fields.get('_cookies'), VNone)))

    def post_raise(self, X, exc):
        X.prove('raises.nothing', z3.BoolVal(exc.pyclass is AssertionError and False))


class OmbottInit(Contract):
    props = ('C10',)
    file = 'ombott/ombott.py'
    qualname = 'Ombott.__init__'
    expected_labels = ('init.own_configuration_object_built_from_the_argument', 'init.own_router_request_response')

    def pre(self, X):
        self.arg = (NONE, VOpaque(X.fresh(PyObj, 'config'), 'mapping'))[X.choose(2, 'config None | given')]
        if isinstance(self.arg, VOpaque):
            # an EMPTY mapping is falsy: both shapes of a given mapping are explored
            self.truthy = X.choose(2, 'given mapping empty | non-empty') == 1
            X.assume(X.driver.uf('truthy', PyObj, z3.BoolSort())(self.arg.t) == z3.BoolVal(self.truthy))
        self.made = []
        c = self

        def mk(name):
            def f(X, args, kwargs):
                o = VObj(name, {})
                c.made.append((name, args, dict(kwargs), o))
                return o
            return f
        self.stubs = {'DefaultConfig': mk('DefaultConfig'), 'RadiRouter': mk('RadiRouter'), 'Request': mk('Request'), 'Response': mk('Response')}
        self.me = VObj('App', {})
        return {'self': self.me, 'config': self.arg}

    def post(self, X, ret):
        f = self.me.fields
        cfgs = [m for m in self.made if m[0] == 'DefaultConfig']
        ok = len(cfgs) == 1 and f.get('config') is cfgs[0][3] and len(cfgs[0][1]) == 1 and cfgs[0][1][0] is self.arg
        X.prove('init.own_configuration_object_built_from_the_argument', z3.BoolVal(bool(ok)))
        names = {m[0]: m for m in self.made}
        own = all(n in names for n in ('RadiRouter', 'Request', 'Response')) and f.get('router') is names['RadiRouter'][3] \
            and f.get('request') is names['Request'][3] and f.get('response') is names['Response'][3] \
            and ok and names['Request'][2].get('config') is cfgs[0][3]
        X.prove('init.own_router_request_response', z3.BoolVal(bool(own)))

    def post_raise(self, X, exc):
        X.prove('raises.nothing', z3.BoolVal(False))


CONTRACTS = [HeaderDictCopy(), ResponseCopy(), OmbottInit()]


class _NoKeywords(Val):
    """**kw of a call without keyword arguments: an empty dict (falsy); only .get is used"""
    def truth(self, X=None):
        return z3.BoolVal(False)


class ConfigGetFrom(Contract):
    """SimpleConfig.get_from: every call builds a NEW NameSpace (never hands the argument back, whatever it is: None, a dict, another
    configuration object - an application constructed from another application's .config must get its own object) with one entry
    per key of the class, taken from the argument, else from the keywords, else the class default."""
    props = ('C10', 'C12', 'C13')
    file = 'ombott/common_helpers.py'
    qualname = 'SimpleConfig.get_from'
    assumptions = ('cls.items() yields the (key, default) pairs of the class; two keys are checked (comprehension unrolled)',)
    expected_labels = ('post.a_new_namespace_with_one_entry_per_key_from_argument_keywords_default',)

    def pre(self, X):
        self.arg_kind = X.choose(3, 'src_config: None | a dict | a configuration object (NameSpace)')
        self.keys = [X.fresh_str('k0'), X.fresh_str('k1')]
        self.dflts = [VOpaque(X.fresh(PyObj, 'd0'), 'v'), VOpaque(X.fresh(PyObj, 'd1'), 'v')]
        self.src = NONE if self.arg_kind == 0 else VObj('SrcDict' if self.arg_kind == 1 else 'SrcNameSpace', {})
        self.kw = _NoKeywords()
        self.built, self.gets = [], []
        c = self

        def src_get(X, args, kwargs):
            r = VOpaque(X.fresh(PyObj, 'from_src'), 'v')
            c.gets.append(('src', list(args[1:]), r))
            return r

        def kw_get(X, args, kwargs):
            r = VOpaque(X.fresh(PyObj, 'from_kw'), 'v')
            c.gets.append(('kw', list(args[1:]), r))
            return r

        def keys_of(X, args, kwargs):
            return VObj('KeyView', {})
        self.stubs = {'Cls.items': lambda X, a, k: VList([VTuple([kk, dd]) for kk, dd in zip(c.keys, c.dflts)]),
                      'Cls.keys': keys_of, 'SrcDict.get': src_get, 'SrcNameSpace.get': src_get, 'SrcDict.keys': keys_of,
                      'SrcNameSpace.keys': keys_of, 'EmptyDict.get': src_get, 'StrDict.get': kw_get}
        return {'cls': VObj('Cls', {}), 'src_config': self.src, 'kw': self.kw}

    def isinstance_hook(self, X, v, classes):
        if isinstance(v, VObj) and v.cls in ('SrcDict', 'SrcNameSpace'):
            names = {getattr(k, '__name__', '') for k in classes}
            if 'NameSpace' in names:
                return z3.BoolVal(v.cls == 'SrcNameSpace')
            if dict in classes:
                return z3.BoolVal(True)
        return None

    def construct_hook(self, X, pyclass, args, kwargs):
        if getattr(pyclass, '__name__', '') == 'NameSpace':
            o = VObj('NewNameSpace', {})
            self.built.append((list(args), dict(kwargs), o))
            return o
        if pyclass is dict and not args and not kwargs:
            return VObj('EmptyDict', {})
        if pyclass is set and len(args) == 1:
            return VObj('KeyView', {})
        return None

    def compare_hook(self, X, op, a, b):
        if isinstance(a, VObj) and a.cls == 'KeyView' or isinstance(b, VObj) and b.cls == 'KeyView':
            return X.fresh_bool('key_sets_compare').t
        return None

    def method_hook(self, X, obj, name, args, kwargs):
        if isinstance(obj, _NoKeywords) and name == 'get':
            r = VOpaque(X.fresh(PyObj, 'from_kw'), 'v')
            self.gets.append(('kw', list(args), r))
            return r
        return None

    def post(self, X, ret):
        ok = len(self.built) == 1 and ret is self.built[0][2] and not self.built[0][0]
        if ok:
            d = self.built[0][1].get('**')
            pairs = getattr(d, 'pairs', None)
            ok = set(self.built[0][1]) == {'**'} and pairs is not None and len(pairs) == len(self.keys)
            if ok:
                for (k, v), key, dflt in zip(pairs, self.keys, self.dflts):
                    # the value of each key: what the argument's get() answered when asked for (key, <what the keywords' get()
                    # answered when asked for (key, class default)>)
                    src = [g for g in self.gets if g[0] == 'src' and g[2] is v]
                    ok = ok and k is key and len(src) == 1 and len(src[0][1]) == 2 and src[0][1][0] is key
                    if ok:
                        inner = [g for g in self.gets if g[0] == 'kw' and g[2] is src[0][1][1]]
                        ok = len(inner) == 1 and inner[0][1] == [key, dflt]
        X.prove('post.a_new_namespace_with_one_entry_per_key_from_argument_keywords_default', z3.BoolVal(bool(ok)))

    def post_raise(self, X, exc):
        X.prove('raises.nothing', z3.BoolVal(False))


CONTRACTS.append(ConfigGetFrom())
