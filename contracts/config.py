"""Wiring contracts (C12, C05): small functions that connect configuration and framing choice to the readers.

Ombott.setup          the request object is configured with the MERGED configuration (DefaultConfig(config), the object stored in
                      self.config) - not with the caller's raw dict: the merged one carries errors_map, the table that turns body
                      errors into 4xx responses (BaseRequest._raise, proved in contracts/C12.py, looks the error up there).
BodyMixin.chunked     a Transfer-Encoding header whose final coding is `chunked` - in any letter case, alone or after other codings,
                      with or without optional white space around the comma - makes the request chunked; no header / empty header
                      does not.  (One direction per clause: the statement of C05 says nothing about exotic values.)
"""
import z3
from pyvc.engine import (Contract, Val, VInt, VBool, VStr, VObj, VList, VTuple, VFunc, VOpaque, VNone, NONE, VExc,
                         Unsupported, PyObj, StrSort, IntSort)


class Setup(Contract):
    props = ('C12', 'C13', 'C05', 'C20')
    file = 'ombott/ombott.py'
    qualname = 'Ombott.setup'
    expected_labels = ('setup.request_gets_the_merged_config', 'setup.merged_config_built_from_the_argument')

    def pre(self, X):
        self.arg = (NONE, VOpaque(X.fresh(PyObj, 'config'), 'dict'))[X.choose(2, 'config None | given')]
        self.merged = None
        self.given = []
        c = self

        def default_config(X, args, kwargs):
            X.prove('setup.merged_config_built_from_the_argument', z3.BoolVal(len(args) == 1 and args[0] is c.arg and not kwargs))
            c.merged = VObj('DefaultConfig', {})
            return c.merged

        def req_setup(X, args, kwargs):
            c.given.append(args[1:] if args else None)
            return NONE
        self.stubs = {'DefaultConfig': default_config, 'RequestObj.setup': req_setup}
        self.me = VObj('App', {'request': VObj('RequestObj', {}), 'config': NONE})
        return {'self': self.me, 'config': self.arg}

    def post(self, X, ret):
        ok = (self.merged is not None and len(self.given) == 1 and self.given[0] is not None and len(self.given[0]) == 1
              and self.given[0][0] is self.merged and self.me.fields.get('config') is self.merged)
        X.prove('setup.request_gets_the_merged_config', z3.BoolVal(bool(ok)))

    def post_raise(self, X, exc):
        X.prove('raises.nothing', z3.BoolVal(False))


class Chunked(Contract):
    props = ('C05', 'C07', 'C13', 'C04')
    file = 'ombott/request_pkg/body_mixin.py'
    qualname = 'BodyMixin.chunked'
    assumptions = ('str.lower(): uninterpreted except that lower(a + b) == lower(a) + lower(b) is NOT needed: the header value is given as '
                   'prefix + spelling-of-chunked + optional trailing blanks, and lower() of it is assumed to be lower(prefix) + "chunked" + blanks '
                   '(ASCII case folding is per character)',)
    expected_labels = ('chunked.final_coding_chunked_is_recognised', 'chunked.absent_header_is_not_chunked',
                       'chunked.a_header_that_does_not_name_chunked_is_not_chunked')

    def pre(self, X):
        self.mode = X.choose(3, 'header: final coding is chunked | absent or empty | other codings only')
        self.lower = X.driver.uf('str_lower', StrSort, StrSort)
        self.te = X.fresh(StrSort, 'transfer_encoding')
        if self.mode == 0:
            # lower(te) == lp + "chunked" + ws  with lp empty or ending in a comma + optional blanks, ws blanks only
            lp, ws = X.fresh(StrSort, 'lower_prefix'), X.fresh(StrSort, 'trailing_blanks')
            X.assume(self.lower(self.te) == z3.Concat(lp, z3.StringVal('chunked'), ws))
            X.assume(z3.Or(lp == z3.StringVal(''), z3.SuffixOf(z3.StringVal(','), lp), z3.SuffixOf(z3.StringVal(', '), lp),
                           z3.SuffixOf(z3.StringVal(',\t'), lp)))
            X.assume(z3.Or(ws == z3.StringVal(''), ws == z3.StringVal(' '), ws == z3.StringVal('\t')))
        elif self.mode == 1:
            X.assume(self.te == z3.StringVal(''))
            X.assume(self.lower(z3.StringVal('')) == z3.StringVal(''))
        else:
            # a value such as 'gzip' / 'identity' / 'deflate, gzip': the word chunked does not occur in it in any letter case.
            # Such a request is framed by Content-Length (C04): treating it as chunked would decode a plain body as chunks.
            X.assume(z3.Not(z3.Contains(self.lower(self.te), z3.StringVal('chunked'))))
        c = self

        def env_get(X, args, kwargs):
            key = z3.simplify(args[1].t) if isinstance(args[1], VStr) else None
            if key is None or not z3.is_string_value(key) or key.as_string() != 'HTTP_TRANSFER_ENCODING':
                raise Unsupported('environ.get of another key')
            if c.mode == 1 and X.choose(2, 'header absent | present and empty') == 0:
                return args[2] if len(args) > 2 else NONE
            return VStr(c.te)
        self.stubs = {'Environ.get': env_get}
        return {'self': VObj('Request', {'environ': VObj('Environ', {})})}

    def method_hook(self, X, obj, name, args, kwargs):
        if isinstance(obj, VStr) and name == 'lower' and not args:
            return VStr(self.lower(obj.t))
        return None

    def post(self, X, ret):
        t = X.truth(ret)
        if self.mode == 0:
            X.prove('chunked.final_coding_chunked_is_recognised', t)
        elif self.mode == 1:
            X.prove('chunked.absent_header_is_not_chunked', z3.Not(t))
        else:
            X.prove('chunked.a_header_that_does_not_name_chunked_is_not_chunked', z3.Not(t))

    def post_raise(self, X, exc):
        X.prove('raises.nothing', z3.BoolVal(False))


CONTRACTS = [Setup(), Chunked()]
