"""C18 — parse_qsl: the hand-written key/value scanner is total, terminates, and emits exactly the '&'-separated
segments split at their first '='.

Mode under contract: parse_qsl(qs, setitem=f) (the mode ombott uses for Request.query and Request.POST).  The nested
`add` (list promotion of repeated keys) is a callee here; its promotion logic is decided by the bounded check.

Proved for every string qs:
  total / terminates     no exception; the outer variant L - i decreases strictly and every inner loop is a bounded for-loop
  segment discipline     every outer iteration starts at a segment start (0 or just after an '&') and consumes exactly one
                         segment: up to the next '&' or the end
  key                    == qs[start:j], j the first index >= start holding '=' or '&' (or the end); an empty key emits nothing
  value                  == qs[j+1:e] with e the first '&' after j (or the end) when the key ended at '='; '' otherwise
  decoding               add(unquote(key.replace('+',' ')), unquote(value.replace('+',' '))) (unquote/replace: total library functions)
`c` (the last character scanned, or None) is modelled as a string with the 2-character sentinel "\\x00N" for None; it is
only ever compared with 1-character strings.
"""
import z3
from pyvc.engine import Contract, VInt, VBool, VStr, VNone, VObj, VFunc, NONE, Unsupported, StrSort

S = z3.StringVal
NONE_SENTINEL = S('\x00N')
EQ, AMP = S('='), S('&')


def nosep(t):
    return z3.And(z3.Not(z3.Contains(t, EQ)), z3.Not(z3.Contains(t, AMP)))


class ParseQsl(Contract):
    props = ('C18', 'C12')
    file = 'ombott/request_pkg/helpers.py'
    qualname = 'parse_qsl'
    assumptions = ('urllib.parse.unquote and str.replace are total functions on str (uninterpreted)',
                   'the nested add(k, v) does not raise (list promotion: bounded check)')
    expected_labels = ('loop0.variant_decreases', 'emit.key_is_segment_up_to_first_separator',
                       'emit.value_is_rest_of_segment', 'loop0.inv_preserved.at_segment_start',
                       'skip.only_empty_key')

    def pre(self, X):
        self.qs = X.fresh(StrSort, 'qs')
        self.unq = X.driver.uf('unquote', StrSort, StrSort)
        self.plus = X.driver.uf('plus_to_space', StrSort, StrSort)
        X.setg('n_emitted', VInt(0))
        X.setg('n_head', VInt(0))
        X.setg('aligned', VBool(True))     # no segment with an empty key followed by '=' met so far
        c = self

        def add(X, args, kwargs):
            k, v = args
            c.check_emit(X, k, v)
            X.setg('n_emitted', VInt(X.g('n_emitted').t + 1))
            return NONE
        self.stubs = {'add': add, 'urlunquote': lambda X, a, k: VStr(c.unq(a[0].t))}
        return {'qs': VStr(self.qs), 'append': NONE, 'setitem': VFunc(None, 'setitem')}

    def method_hook(self, X, obj, name, args, kwargs):
        if name == 'replace' and isinstance(obj, VStr):
            a, b = (z3.simplify(x.t).as_string() for x in args)
            if (a, b) != ('+', ' '):
                raise Unsupported('replace other than + -> space')
            return VStr(self.plus(obj.t))
        return None

    # ---- `c`: None | str  ->  one string with a sentinel
    def _c(self, X):
        v = X.v('c')
        return NONE_SENTINEL if isinstance(v, VNone) else v.t

    def havoc_override(self, X, k, name):
        if name == 'c':
            return VStr(X.fresh(StrSort, 'c'))
        return None

    def equal_hook(self, X, a, b):
        return None

    # ---- snapshots: start of the segment / of the value
    loop_frozen_ghost = {1: ('seg_start', 'n_emitted', 'n_head', 'aligned'),
                         2: ('seg_start', 'val_start', 'n_emitted', 'n_head', 'aligned')}

    def construct_hook(self, X, pyclass, args, kwargs):
        if pyclass is dict and not args and not kwargs:
            return VObj('StrDict', {})
        return None

    def after_havoc(self, X, k):
        if k == 0:
            X.setg('n_head', X.g('n_emitted'))

    def before_loop(self, X, k):
        if k == 1:
            X.setg('seg_start', X.v('i'))
        if k == 2:
            X.setg('val_start', X.v('i'))

    def _sub(self, X, start):
        return z3.SubString(self.qs, start, z3.Length(self.qs) - start)

    def _inner_inv(self, X, k, start, seps):
        i_hidden = X.v(f'__i{k}').t if X.has_local(f'__i{k}') else z3.IntVal(0)
        sub = self._sub(X, start)
        idx = X.v('idx').t
        scanned = z3.SubString(sub, 0, i_hidden)
        free = seps(scanned)
        c = self._c(X)
        return [
            ('index_in_range', z3.And(i_hidden >= 0, i_hidden <= z3.Length(sub))),
            ('no_separator_scanned', free),
            ('idx_and_c_follow_the_scan', z3.If(i_hidden == 0, z3.And(idx == 0, c == NONE_SENTINEL),
                                               z3.And(idx == i_hidden - 1, c == z3.SubString(sub, i_hidden - 1, 1)))),
        ]

    def _inv0(self, X):
        i, Lq = X.v('i').t, z3.Length(self.qs)
        return [
            ('at_segment_start', z3.And(i >= 0, z3.Implies(X.g('aligned').t,
                                                            z3.Or(i == 0, i > Lq, z3.SubString(self.qs, i - 1, 1) == AMP)))),
            ('length_is_length', X.v('L').t == Lq),
        ]

    def _inv1(self, X):
        st = X.g('seg_start').t
        Lq = z3.Length(self.qs)
        return self._inner_inv(X, 1, st, nosep) + [
            ('outer_facts', z3.And(X.v('i').t == st, X.v('L').t == Lq, st >= 0, st < Lq,
                                   z3.Implies(X.g('aligned').t, z3.Or(st == 0, z3.SubString(self.qs, st - 1, 1) == AMP))))]

    def _inv2(self, X):
        vs, st = X.g('val_start').t, X.g('seg_start').t
        Lq = z3.Length(self.qs)
        key_raw = z3.SubString(self.qs, st, vs - 1 - st)
        return self._inner_inv(X, 2, vs, lambda t: z3.Not(z3.Contains(t, AMP))) + [
            ('outer_facts', z3.And(X.v('i').t == vs, X.v('L').t == Lq, st >= 0, st < Lq, vs > st + 1, vs <= Lq + 1,
                                   z3.Implies(X.g('aligned').t, z3.Or(st == 0, z3.SubString(self.qs, st - 1, 1) == AMP)),
                                   nosep(key_raw),
                                   z3.Or(vs - 1 >= Lq, z3.SubString(self.qs, vs - 1, 1) == EQ),
                                   X.v('key').t == self.unq(self.plus(key_raw))))]

    @property
    def loop_inv(self):
        return {0: self._inv0, 1: self._inv1, 2: self._inv2}

    @property
    def loop_variant(self):
        return {0: lambda X: X.v('L').t + 1 - X.v('i').t}

    # ---- cut lemmas at the exits of the two scanning loops: restate what was scanned in terms of positions of qs
    def lemma(self, X, label, t):
        X.prove(label, t)
        X.assume(t)

    def after_loop(self, X, k, how):
        if k not in (1, 2):
            return
        qs, Lq = self.qs, z3.Length(self.qs)
        start = X.g('seg_start').t if k == 1 else X.g('val_start').t
        n = X.v(f'__i{k}').t
        m = n - 1 if how == 'break' else n          # number of separator-free characters scanned
        run = z3.SubString(qs, start, m)
        seps = nosep if k == 1 else (lambda t: z3.Not(z3.Contains(t, AMP)))
        sub = self._sub(X, start)
        self.lemma(X, f'lemma{k}.run_bounds', z3.And(m >= 0, start + m <= z3.If(start > Lq, start, Lq)))
        self.lemma(X, f'lemma{k}.run_restated_on_qs', z3.SubString(sub, 0, m) == run)
        self.lemma(X, f'lemma{k}.run_is_separator_free', seps(run))
        if how == 'break':
            self.lemma(X, f'lemma{k}.stopped_at_separator',
                       z3.And(self._c(X) == z3.SubString(qs, start + m, 1), X.v('idx').t == m, start + m < Lq))
        else:
            self.lemma(X, f'lemma{k}.ran_to_the_end', z3.And(z3.Or(start + m == Lq, z3.And(start > Lq, m == 0)),
                                                              X.v('idx').t == z3.If(m == 0, 0, m - 1)))

    # ---- what is emitted (declarative form of "split at '&', then at the first '='"):
    #   key   = qs[st:j]  separator-free, non-empty, followed by '=' / '&' / the end
    #   value = qs[j+1:e] '&'-free, followed by '&' / the end      when the key was followed by '=';  '' otherwise
    #   and scanning resumes just after the segment
    def check_emit(self, X, k, v):
        qs, Lq = self.qs, z3.Length(self.qs)
        st = X.g('seg_start').t
        i_now = X.v('i').t
        value_scanned = not (z3.is_string_value(z3.simplify(v.t)) and z3.simplify(v.t).as_string() == '')
        if value_scanned:
            vs = X.g('val_start').t
            j = vs - 1
            K = z3.SubString(qs, st, j - st)
            e = i_now - 1
            V = z3.SubString(qs, vs, e - vs)
            X.prove('emit.key_is_segment_up_to_first_separator',
                    z3.And(k.t == self.unq(self.plus(K)), nosep(K), z3.Length(K) > 0, j > st,
                           z3.Or(j >= Lq, z3.SubString(qs, j, 1) == EQ)))
            X.prove('emit.value_is_rest_of_segment',
                    z3.And(v.t == self.unq(self.plus(V)), z3.Not(z3.Contains(V, AMP)), e >= vs,
                           z3.Or(e >= Lq, z3.SubString(qs, e, 1) == AMP)))
        else:
            j = i_now - 1
            K = z3.SubString(qs, st, j - st)
            X.prove('emit.key_is_segment_up_to_first_separator',
                    z3.And(k.t == self.unq(self.plus(K)), nosep(K), z3.Length(K) > 0, j > st, j < Lq,
                           z3.SubString(qs, j, 1) == AMP))
            X.prove('emit.value_is_rest_of_segment', z3.Length(v.t) == 0)

    def end_of_body(self, X, k):
        if k != 0:
            return
        st = X.g('seg_start').t
        emitted = X.g('n_emitted').t - X.g('n_head').t
        first = z3.SubString(self.qs, st, 1)
        # an iteration that emits nothing is one whose key is empty: the segment starts with a separator
        X.prove('skip.only_empty_key', z3.Or(emitted == 1, z3.And(emitted == 0, z3.Or(first == EQ, first == AMP),
                                                                  X.v('i').t == st + 1)))
        # alignment is lost only by an empty key followed by '=' (such input is never produced by URL-encoding pairs
        # with non-empty keys); it is a ghost, so it is updated here
        X.setg('aligned', VBool(z3.And(X.g('aligned').t, z3.Not(z3.And(emitted == 0, first == EQ)))))

    def post(self, X, ret):
        X.prove('post.returns_none_in_setitem_mode', z3.BoolVal(isinstance(ret, VNone)))

    def post_raise(self, X, exc):
        X.prove('raises.nothing', z3.BoolVal(False))


CONTRACTS = [ParseQsl()]
