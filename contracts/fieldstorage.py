"""FieldStorage.read / iter_items (C13 in-memory budget, C12 exception frame).

read(src, headers_section, data_section, max_read)
    loads the header block and - for a text field - the value into memory, in that order, and returns the number of bytes
    it loaded.  Proved: the bytes asked from `src` are exactly the header block and (text fields only) the data section;
    the returned count equals the bytes loaded and is <= max_read; BodySizeError is raised exactly when the header block,
    or header block + text value, exceeds max_read - and BEFORE the offending section is read; an upload's data is never
    read (only a window object is created); every failure is a RequestError (BodySizeError, BodyParsingError or its
    subclass MalformedHeadersError): never KeyError / ValueError / StopIteration / UnicodeDecodeError.
iter_items(src, markup, max_read)
    every field is read with the budget that is LEFT (max_read minus what earlier fields loaded), so the total loaded by
    one form is <= max_read; failures are RequestErrors.
Sizes are counted in BYTES of the buffered body (section offsets), not in decoded characters.
"""
import z3
from pyvc.engine import (Contract, Val, VInt, VBool, VStr, VBytes, VObj, VFunc, VOpaque, VTuple, VSeq, VClass, VExc, VNone, NONE,
                         Unsupported, PyObj, BytesSort, StrSort)

L = z3.Length


class Read(Contract):
    props = ('C13', 'C12')
    file = 'ombott/request_pkg/multipart.py'
    qualname = 'FieldStorage.read'
    assumptions = ('src is the buffered body: seek(p) positions, read(n) returns at most n bytes',
                   'bytes.decode() raises only UnicodeDecodeError (a ValueError); str.splitlines() is total',
                   'parse_header may raise ValueError (no colon) or StopIteration (empty value) [its body uses split/next]; '
                   'options["name"] raises KeyError when absent',
                   'section offsets satisfy start <= end; max_read is an int')
    expected_labels = ('post.loaded_equals_returned_and_within_budget', 'post.upload_data_not_loaded',
                       'raise.only_request_errors', 'raise.size_error_iff_over_budget_before_reading', 'read.only_own_sections')
    loop_inv = {0: lambda X: []}
    loop_frozen_ghost = {0: ('loaded', 'pos')}

    def pre(self, X):
        g = X.globals
        self.SizeErr, self.ParseErr, self.MalErr = g['BodySizeError'], g['BodyParsingError'], g['MalformedHeadersError']
        self.hs, self.he, self.ds, self.de, self.maxr = (X.fresh(z3.IntSort(), n) for n in ('h_start', 'h_end', 'd_start', 'd_end', 'max_read'))
        X.assume(z3.And(0 <= self.hs, self.hs <= self.he, 0 <= self.ds, self.ds <= self.de))
        X.setg('loaded', VInt(0))
        X.setg('pos', VInt(-1))
        self.reads = []
        self.proxy = None
        c = self

        def seek(X, args, kwargs):
            X.setg('pos', VInt(args[1].t))
            return args[1]

        def read(X, args, kwargs):
            n = args[1].t
            p = X.g('pos').t
            which = len(c.reads)
            if which == 0:
                X.prove('read.only_own_sections', z3.And(p == c.hs, n == c.he - c.hs))
            else:
                X.prove('read.only_own_sections', z3.And(p == c.ds, n == c.de - c.ds, z3.BoolVal(which == 1)))
            c.reads.append(n)
            X.setg('loaded', VInt(X.g('loaded').t + n))
            X.setg('pos', VInt(-1))
            return VBytes(X.fresh(BytesSort, 'raw'))

        def parse_header(X, args, kwargs):
            k = X.choose(3, 'parse_header: ok | ValueError | StopIteration')
            if k == 1:
                X.raise_(ValueError, 'no colon')
            if k == 2:
                X.raise_(StopIteration, 'empty value')
            return VObj('Header', {'name': X.fresh_str('hname'), 'value': X.fresh_str('hvalue'), 'options': VObj('Options', {})})

        def opt_get(X, args, kwargs):
            return [NONE, X.fresh_str('filename')][X.choose(2, 'filename option present?')]
        self.stubs = {'Src.seek': seek, 'Src.read': read, 'Field.parse_header': parse_header, 'Options.get': opt_get}
        self.me = VObj('Field', {'name': NONE, 'value': NONE, 'filename': NONE, 'file': NONE, 'ctype': NONE, 'headers': VObj('HDict', {})})
        return {'self': self.me, 'src': VObj('Src', {}), 'headers_section': VTuple([VInt(self.hs), VInt(self.he)]),
                'data_section': VTuple([VInt(self.ds), VInt(self.de)]), 'max_read': VInt(self.maxr)}

    def method_hook(self, X, obj, name, args, kwargs):
        if name == 'decode' and isinstance(obj, VBytes):
            if X.choose(2, 'decodes as UTF-8?') == 1:
                X.raise_(UnicodeDecodeError, 'decode')
            return VStr(X.driver.uf('utf8_decode', BytesSort, StrSort)(obj.t))
        if name == 'splitlines' and isinstance(obj, VStr):
            text = X.driver.uf('line_text', PyObj, StrSort)
            return VSeq(X.fresh(z3.SeqSort(PyObj), 'lines'), lambda t: VStr(text(t)))
        return None

    def getitem_hook(self, X, obj, key):
        if isinstance(obj, VObj) and obj.cls == 'Options':
            if X.choose(2, 'name option present?') == 0:
                X.raise_(KeyError, 'name')
            return X.fresh_str('field_name')
        return None

    def setitem_hook(self, X, obj, key, val):
        return isinstance(obj, VObj) and obj.cls == 'HDict'

    def havoc_override(self, X, k, name):
        # fields of `self` assigned in the header loop: None or a string afterwards
        return None

    def after_havoc(self, X, k):
        for f in ('name', 'filename', 'ctype'):
            self.me.fields[f] = [NONE, X.fresh_str(f)][X.choose(2, f'{f} set by an earlier header line?')]

    def construct_hook(self, X, pyclass, args, kwargs):
        if getattr(pyclass, '__name__', '') == 'BytesIOProxy':
            self.proxy = args
            return VObj('Proxy', {})
        return None

    def post(self, X, ret):
        hsz, dsz = self.he - self.hs, self.de - self.ds
        loaded = X.g('loaded').t
        is_upload = self.proxy is not None
        X.prove('post.loaded_equals_returned_and_within_budget', z3.And(ret.t == loaded, loaded <= self.maxr,
                                                                        loaded == (hsz if is_upload else hsz + dsz)))
        if is_upload:
            a = self.proxy
            X.prove('post.upload_data_not_loaded',
                    z3.And(z3.BoolVal(len(self.reads) == 1 and len(a) == 3), a[1].t == self.ds, a[2].t == self.de)
                    if len(a) == 3 else z3.BoolVal(False))

    def post_raise(self, X, exc):
        ok = exc.pyclass in (self.SizeErr, self.ParseErr, self.MalErr)
        X.prove('raise.only_request_errors', z3.BoolVal(ok))
        if exc.pyclass is self.SizeErr:
            hsz, dsz = self.he - self.hs, self.de - self.ds
            n = len(self.reads)
            X.prove('raise.size_error_iff_over_budget_before_reading',
                    z3.And(hsz > self.maxr, z3.BoolVal(n == 0)) if n == 0 else
                    z3.And(hsz <= self.maxr, hsz + dsz > self.maxr, z3.BoolVal(n == 1 and self.proxy is None)))


class IterItems(Contract):
    props = ('C13', 'C12')
    file = 'ombott/request_pkg/multipart.py'
    qualname = 'FieldStorage.iter_items'
    ghost_const = ('budget0',)
    assumptions = ('callee contract of FieldStorage.read as proved: loads has_read <= max_read bytes or raises a RequestError',
                   'the markup list alternates data / headers sections starting with a data section (produced by '
                   'BodyMarkuper.iter_markup: bounded); an AssertionError on its shape is therefore not considered')
    expected_labels = ('loop0.inv_preserved.budget_accounting', 'call.read_with_the_budget_that_is_left', 'raise.only_request_errors')

    def pre(self, X):
        g = X.globals
        self.ParseErr = g['BodyParsingError']
        self.allowed = (g['BodySizeError'], g['BodyParsingError'], g['MalformedHeadersError'])
        self.max0 = X.fresh(z3.IntSort(), 'max_read')
        X.setg('budget0', VInt(self.max0))
        X.setg('loaded', VInt(0))
        X.setg('cnt', VInt(0))
        c = self

        def field_cls(X, args, kwargs):
            return VObj('Field', {})

        def field_read(X, args, kwargs):
            mr = kwargs.get('max_read')
            X.prove('call.read_with_the_budget_that_is_left',
                    mr.t == c.max0 - X.g('loaded').t if isinstance(mr, VInt) else z3.BoolVal(False))
            k = X.choose(2, 'read: ok | RequestError')
            if k == 1:
                X.raise_(c.ParseErr, 'read')
            n = X.fresh(z3.IntSort(), 'has_read')
            X.assume(z3.And(n >= 0, n <= mr.t))
            X.setg('loaded', VInt(X.g('loaded').t + n))
            return VInt(n)
        self.stubs = {'cls': field_cls, 'Field.read': field_read}
        return {'cls': VFunc(field_cls, 'cls'), 'src': VObj('Src', {}), 'markup': VObj('Markup', {}), 'max_read': VInt(self.max0)}

    def _section(self, X):
        cnt = X.g('cnt').t
        kind = z3.If(cnt % 2 == 0, z3.StringVal('data'), z3.StringVal('headers'))
        s, e = X.fresh(z3.IntSort(), 'sec_start'), X.fresh(z3.IntSort(), 'sec_end')
        X.assume(z3.And(0 <= s, s <= e))
        if z3.is_int_value(z3.simplify(cnt)) and z3.simplify(cnt).as_long() == 0:
            pass
        X.setg('cnt', VInt(cnt + 1))
        return VTuple([VStr(kind), VTuple([VInt(s), VInt(e)])])

    def builtin_hook(self, X, name, args, kwargs):
        if name == 'iter':
            return VObj('MarkupIter', {})
        if name == 'next' and isinstance(args[0], VObj) and args[0].cls == 'MarkupIter':
            if X.choose(2, 'another section?') == 0:
                return args[1] if len(args) > 1 else NONE
            return self._section(X)
        return None

    def unpack_tuple_first_data_starts_at_zero(self):
        pass

    def havoc_override(self, X, k, name):
        if name in ('headers', 'data'):
            if X.choose(2, f'{name} present?') == 0:
                return NONE
            s, e = X.fresh(z3.IntSort(), name + '_start'), X.fresh(z3.IntSort(), name + '_end')
            X.assume(z3.And(0 <= s, s <= e))
            return VTuple([VStr('headers' if name == 'headers' else 'data'), VTuple([VInt(s), VInt(e)])])
        return None

    def _inv(self, X):
        mr = X.v('max_read')
        cnt = X.g('cnt').t
        return [('budget_accounting', z3.And(mr.t == self.max0 - X.g('loaded').t, X.g('loaded').t >= 0))]

    @property
    def loop_inv(self):
        return {0: self._inv}

    def on_yield(self, X, val):
        X.prove('yield.total_loaded_within_the_budget', z3.Implies(self.max0 >= 0, X.g('loaded').t <= self.max0))

    def post_raise(self, X, exc):
        if exc.pyclass is AssertionError:
            return      # shape of the markup list: assumed (see assumptions)
        X.prove('raise.only_request_errors', z3.BoolVal(exc.pyclass in self.allowed))


CONTRACTS = [Read(), IterItems()]
