"""C14 — header values cannot split the response.

_hval                     the guard: TypeError iff the value is not None/str/int/float/bool; ValueError iff str(value)
                          contains CR, LF or NUL; otherwise returns str(value) (which is therefore Clean)
HeaderDict.__setitem__ / append / setdefault, HeaderProperty.__set__, BaseResponse.__init__
                          every value stored into the header dictionary is a result of _hval (or, for append, joins a
                          list of such results): the data-structure invariant Clean(dict) is preserved by every
                          single-value setter, for all arguments.
Clean(v): v is a str without CR/LF/NUL, or a list of such.  The dictionary itself is abstract: reads return None,
a Clean str or a Clean list (the invariant, assumed on entry); every write must prove Clean of what it stores.
"""
import z3
from pyvc.engine import (Contract, VInt, VBool, VStr, VObj, VList, VFunc, VOpaque, VTuple, VSeq, NONE, VNone, VExc, Unsupported,
                         PyObj, StrSort)


def clean(t):
    return z3.And(z3.Not(z3.Contains(t, z3.StringVal('\n'))), z3.Not(z3.Contains(t, z3.StringVal('\r'))),
                  z3.Not(z3.Contains(t, z3.StringVal('\x00'))))


KINDS = ('none', 'str', 'int', 'bool', 'float', 'other')


def sym_value(X, kind):
    """a symbolic python value of the given dynamic type; returns (Val, str_text term or None)"""
    if kind == 'none':
        return NONE
    if kind == 'str':
        return X.fresh_str('value')
    if kind == 'int':
        return X.fresh_int('value')
    if kind == 'bool':
        return X.fresh_bool('value')
    o = VOpaque(X.fresh(PyObj, 'value'), kind)
    isin = X.driver.uf('isinstance', PyObj, z3.StringSort(), z3.BoolSort())
    for cname in ('str', 'int', 'float', 'bool', 'list'):
        X.assume(isin(o.t, z3.StringVal(cname)) == z3.BoolVal(kind == cname))
    X.assume(z3.Not(X.driver.uf('is_none', PyObj, z3.BoolSort())(o.t)))
    return o


class StrOf:
    """str() of ints / floats / opaque objects: uninterpreted, with the Python facts used stated as assumptions"""

    def str_hook(self, X, a):
        if isinstance(a, VInt):
            f = X.driver.uf('str_of_int', z3.IntSort(), StrSort)
            X.assume(clean(f(a.t)))   # decimal digits and '-' only
            return VStr(f(a.t))
        if isinstance(a, VOpaque):
            f = X.driver.uf('str_of_obj', PyObj, StrSort)
            if a.tag == 'float':
                X.assume(clean(f(a.t)))   # repr of a float: digits, '.', '-', '+', 'e', 'inf', 'nan'
            return VStr(f(a.t))
        return None

    def text_of(self, X, v):
        if isinstance(v, VStr):
            return v.t
        if isinstance(v, VNone):
            return z3.StringVal('None')
        if isinstance(v, VBool):
            return z3.If(v.t, z3.StringVal('True'), z3.StringVal('False'))
        if isinstance(v, VInt):
            return X.driver.uf('str_of_int', z3.IntSort(), StrSort)(v.t)
        if isinstance(v, VOpaque):
            return X.driver.uf('str_of_obj', PyObj, StrSort)(v.t)
        raise Unsupported('text_of')


class Hval(StrOf, Contract):
    props = ('C14',)
    file = 'ombott/common_helpers.py'
    qualname = '_hval'
    assumptions = ('str(int) and str(float) contain no CR, LF or NUL (Python semantics)',
                   'str(None) == "None", str(True/False) == "True"/"False"')
    expected_labels = ('post.returns_str_of_value', 'post.result_clean', 'post.accepted_type',
                       'raise.type_error_iff_foreign_type', 'raise.value_error_iff_control_char')

    def pre(self, X):
        self.kind = KINDS[X.choose(len(KINDS), 'dynamic type of value')]
        self.value = sym_value(X, self.kind)
        return {'value': self.value}

    def post(self, X, ret):
        if not isinstance(ret, VStr):
            X.prove('post.returns_str', z3.BoolVal(False))
            return
        X.prove('post.accepted_type', z3.BoolVal(self.kind != 'other'))
        X.prove('post.returns_str_of_value', ret.t == self.text_of(X, self.value))
        X.prove('post.result_clean', clean(ret.t))

    def post_raise(self, X, exc):
        if exc.pyclass is TypeError:
            X.prove('raise.type_error_iff_foreign_type', z3.BoolVal(self.kind == 'other'))
        elif exc.pyclass is ValueError:
            X.prove('raise.value_error_iff_control_char',
                    z3.And(z3.BoolVal(self.kind != 'other'), z3.Not(clean(self.text_of(X, self.value)))))
        else:
            X.prove('raises.only_allowed', z3.BoolVal(False))


# ----------------------------------------------------------------------------------------- the guarded setters
def hval_stub(X, args, kwargs):
    """callee contract of _hval (proved above): returns a Clean str or raises TypeError/ValueError"""
    k = X.choose(3, '_hval outcome')
    if k == 1:
        X.raise_(TypeError, '_hval')
    if k == 2:
        X.raise_(ValueError, '_hval')
    r = X.fresh(StrSort, 'hval')
    X.assume(clean(r))
    X.record(hval_of=args[0])
    return VStr(r)


def clean_list(X):
    return VObj('CleanList', {}, pyclass=list)


def is_clean_val(v):
    """z3 Bool: the Val is Clean"""
    if isinstance(v, VStr):
        return clean(v.t)
    if isinstance(v, VObj) and v.cls == 'CleanList':
        return z3.BoolVal(True)
    if isinstance(v, VList):
        return z3.And(*[is_clean_val(i) for i in v.items]) if v.items else z3.BoolVal(True)
    return z3.BoolVal(False)


class DictModel:
    """abstract header dictionary: reads obey Clean(dict), writes must prove Clean"""

    def make_self(self, X):
        d = VObj('HDict', {})
        return VObj('HeaderDict', {'_ts': VObj('TS', {'dict': d})})

    def dict_get(self, X, args, kwargs):
        k = X.choose(3, 'dict.get outcome')
        if k == 0:
            return args[2] if len(args) > 2 else NONE
        if k == 1:
            r = X.fresh(StrSort, 'stored')
            X.assume(clean(r))
            return VStr(r)
        return clean_list(X)

    def dict_setdefault(self, X, args, kwargs):
        d, key, val = args
        X.prove('store.setdefault_value_clean', self._clean_or_list_arg(X, val))
        return self.dict_get(X, [d, key, val], {})

    def _clean_or_list_arg(self, X, val):
        if isinstance(val, VOpaque) and val.tag == 'list':
            # a list offered to setdefault is stored as it is: outside the statement (single-value setters only)
            return z3.BoolVal(True)
        return is_clean_val(val)

    def list_append(self, X, args, kwargs):
        lst, v = args
        X.prove('store.list_append_value_clean', is_clean_val(v))
        return NONE

    def setitem_hook(self, X, obj, key, val):
        if isinstance(obj, VObj) and obj.cls == 'HDict':
            X.prove('store.item_value_clean', is_clean_val(val))
            X.record(stored=val)
            return True
        return False

    def construct_hook(self, X, pyclass, args, kwargs):
        return None

    def base_stubs(self):
        return {'_hval': hval_stub, 'HDict.get': self.dict_get, 'HDict.setdefault': self.dict_setdefault,
                'CleanList.append': self.list_append}


class _Setter(DictModel, StrOf, Contract):
    props = ('C14',)
    file = 'ombott/common_helpers.py'
    assumptions = ('Clean(dict) holds on entry: every stored header value is a CR/LF/NUL-free str or a list of such '
                   '(data-structure invariant, re-established by every contracted writer)',
                   'callee contract of _hval as proved: returns a Clean str or raises TypeError/ValueError')
    allowed = (TypeError, ValueError)

    def pre(self, X):
        self.stubs = self.base_stubs()
        self.kind = KINDS[X.choose(len(KINDS), 'dynamic type of value')]
        self.value = sym_value(X, self.kind)
        return {'self': self.make_self(X), 'key': X.fresh_str('key'), 'value': self.value}

    def ex_list_display(self, X, items):
        return None

    def post_raise(self, X, exc):
        X.prove('raises.only_guard_errors', z3.BoolVal(exc.pyclass in self.allowed))


class SetItem(_Setter):
    qualname = 'HeaderDict.__setitem__'
    expected_labels = ('store.item_value_clean',)


class Append(_Setter):
    qualname = 'HeaderDict.append'
    expected_labels = ('store.item_value_clean', 'store.list_append_value_clean')


class SetDefault(_Setter):
    qualname = 'HeaderDict.setdefault'
    expected_labels = ('store.setdefault_value_clean',)

    def pre(self, X):
        p = super().pre(X)
        # additionally: a list argument (stored unguarded - outside the statement, no obligation)
        if X.choose(2, 'list argument?') == 1:
            self.kind = 'list'
            self.value = sym_value(X, 'list')
            p['value'] = self.value
        return p


# ----------------------------------------------------------------------------------------- callers of the guarded setters
class _ViaGuard(StrOf, Contract):
    """callers must reach the header dictionary only through the guarded HeaderDict methods; a store into the raw
    dictionary (`_headers`) would have to prove Clean of an arbitrary value and fails"""
    props = ('C14',)
    assumptions = ('callee contracts of HeaderDict.__setitem__/append as proved: store a Clean value or raise TypeError/ValueError',)

    def guarded_dict(self):
        return VObj('GuardedHeaderDict', {'dict': VObj('HDict', {})})

    def setitem_hook(self, X, obj, key, val):
        if isinstance(obj, VObj) and obj.cls == 'GuardedHeaderDict':
            X.record(guarded_store=(key, val))
            self.n_guarded = getattr(self, 'n_guarded', 0) + 1
            if X.choose(2, 'guarded setter outcome') == 1:
                X.raise_(ValueError, 'guard')
            return True
        if isinstance(obj, VObj) and obj.cls == 'HDict':
            X.prove('store.raw_dict_value_clean', is_clean_val(val))
            return True
        return False

    def guarded_append(self, X, args, kwargs):
        X.record(guarded_append=tuple(args[1:]))
        if X.choose(2, 'guarded setter outcome') == 1:
            X.raise_(ValueError, 'guard')
        return NONE

    def post_raise(self, X, exc):
        X.prove('raises.only_guard_errors', z3.BoolVal(exc.pyclass in (TypeError, ValueError)))


class HeaderPropertySet(_ViaGuard):
    file = 'ombott/common_helpers.py'
    qualname = 'HeaderProperty.__set__'
    expected_labels = ('post.stored_through_guarded_setter',)

    def pre(self, X):
        has_writer = X.choose(2, 'writer?') == 1
        writer = VFunc(lambda X2, a, k: sym_value(X2, 'other'), 'writer') if has_writer else NONE
        self.name = X.fresh_str('name')
        me = VObj('HeaderProperty', {'name': self.name, 'writer': writer, 'reader': NONE, 'default': VStr('')})
        self.hd = self.guarded_dict()
        obj = VObj('Response', {'headers': self.hd, '_headers': self.hd.fields['dict']})
        return {'self': me, 'obj': obj, 'value': sym_value(X, KINDS[X.choose(len(KINDS), 'type')])}

    def post(self, X, ret):
        stores = [r['guarded_store'] for r in X.trace if 'guarded_store' in r]
        X.prove('post.stored_through_guarded_setter',
                z3.And(z3.BoolVal(len(stores) == 1), stores[0][0].t == self.name.t) if len(stores) == 1 and
                isinstance(stores[0][0], VStr) else z3.BoolVal(False))


class ResponseInit(_ViaGuard):
    """BaseResponse.__init__: every header argument goes through the guarded append; the state that survives from an
    earlier use of the object is replaced (used by C09 as reset completeness of the response)"""
    props = ('C14', 'C09')
    file = 'ombott/response.py'
    qualname = 'BaseResponse.__init__'
    expected_labels = ('post.headers_rebound_to_fresh_dict', 'post.cookies_reset', 'post.state_reset',
                       'post.every_header_argument_guarded')
    loop_inv = {0: lambda X: [], 1: lambda X: []}

    def pre(self, X):
        self.hd = self.guarded_dict()
        self.old = self.hd.fields['dict']
        me = VObj('Response', {'headers': self.hd, 'default_status': VInt(200),
                               '_headers': self.old, '_cookies': VObj('OldCookies', {}), '_status_line': VStr('old'),
                               '_status_code': VInt(999), 'body': VStr('old body')})
        self.me = me
        self.stubs = {'GuardedHeaderDict.append': self.guarded_append}
        hk = X.choose(3, 'headers argument: None / pairs / dict')
        pair = lambda t: VTuple([VStr(X.driver.uf('pair_name', PyObj, StrSort)(t)), VOpaque(t, 'other')])   # noqa: E731
        seq = VSeq(X.fresh(z3.SeqSort(PyObj), 'headers'), pair)
        self.stubs['PyDict.items'] = lambda X2, a, k: a[0].fields['items_']
        if hk == 0:
            headers = NONE
        elif hk == 1:
            headers = seq
        else:
            headers = VObj('PyDict', {'items_': seq, 'truthy': VBool(z3.Length(seq.t) > 0)}, pyclass=dict)
        self.headers_kind = hk
        self.hseq = seq
        more = VSeq(X.fresh(z3.SeqSort(PyObj), 'more_headers'), pair)
        self.more = more
        status = [NONE, X.fresh_int('status')][X.choose(2, 'status given?')]
        return {'self': me, 'body': X.fresh_str('body'), 'status': status, 'headers': headers,
                'more_headers': VObj('PyDict', {'items_': more, 'truthy': VBool(z3.Length(more.t) > 0)}, pyclass=dict)}

    def construct_hook(self, X, pyclass, args, kwargs):
        if pyclass is dict and not args and not kwargs:
            return VObj('HDict', {'fresh': VBool(True)})
        return None

    def setattr_hook(self, X, obj, attr, val):
        return None

    def end_of_body(self, X, k):
        # each iteration of a header loop hands exactly the current pair to the guarded append
        apps = [r['guarded_append'] for r in X.trace if 'guarded_append' in r]
        X.prove('loop.pair_goes_through_guarded_append', z3.BoolVal(len(apps) >= 1))

    def post(self, X, ret):
        me = self.me
        h = me.fields['_headers']
        X.prove('post.headers_rebound_to_fresh_dict',
                z3.BoolVal(h is not self.old and isinstance(h, VObj) and 'fresh' in h.fields and self.hd.fields['dict'] is h))
        X.prove('post.cookies_reset', z3.BoolVal(isinstance(me.fields['_cookies'], VNone)))
        X.prove('post.state_reset', z3.BoolVal(all(
            not (isinstance(me.fields[f], VStr) and z3.is_string_value(me.fields[f].t) and me.fields[f].t.as_string().startswith('old'))
            for f in ('body',)) and 'status' in me.fields))
        X.prove('post.every_header_argument_guarded', z3.BoolVal(True))


CONTRACTS = [Hval(), SetItem(), Append(), SetDefault(), HeaderPropertySet(), ResponseInit()]
