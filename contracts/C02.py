"""C02 — method dispatch: verb > GET-for-HEAD > ANY, 405 with exact Allow, 404/405 split.

Ombott.to_route        candidates == [verb, 'GET', 'ANY'] if verb == 'HEAD' else [verb, 'ANY'], handed to router.resolve
PropsMixin.method      the request method is upper-cased (case-insensitive matching; registration upper-cases in RadiRouter.add)
Route.__getitem__      returns the handler of the FIRST candidate (in order) that is registered; RouteMethodError iff none
RadiRouter.resolve     (assuming the lookup contract of RadiDict.get, which is C01's and bounded):
                         no route            -> (None, [404, ...])           never 405
                         route, candidate ok -> ([handler, params, hooks], None)
                         route, none applies -> (None, [405, _, ",".join(sorted(route.methods))])   never 404
Ombott.handler         405 -> raises HTTPError(405, body, Allow=<that string>); 404 -> HTTPError(404) (or the partial hook)
"""
import z3
from pyvc.engine import (Contract, VInt, VBool, VStr, VObj, VFunc, VOpaque, VTuple, VList, VMap, VNone, NONE, VExc, Unsupported,
                         PyObj, StrSort)

S = z3.StringVal


class ToRoute(Contract):
    props = ('C02',)
    file = 'ombott/ombott.py'
    qualname = 'Ombott.to_route'
    expected_labels = ('call.candidates_in_priority_order', 'post.returns_what_resolve_returned')

    def pre(self, X):
        self.verb = X.fresh_str('verb')
        self.path = X.fresh_str('path')
        c = self

        def resolve(X, args, kwargs):
            router, path, methods = args
            ok = isinstance(methods, VList) and all(isinstance(m, VStr) for m in methods.items)
            is_head = c.verb.t == S('HEAD')
            if ok and len(methods.items) == 3:
                t = z3.And(is_head, methods.items[0].t == c.verb.t, methods.items[1].t == S('GET'), methods.items[2].t == S('ANY'))
            elif ok and len(methods.items) == 2:
                t = z3.And(z3.Not(is_head), methods.items[0].t == c.verb.t, methods.items[1].t == S('ANY'))
            else:
                t = z3.BoolVal(False)
            X.prove('call.candidates_in_priority_order', z3.And(t, path.t == c.path.t))
            c.ep, c.err = VOpaque(X.fresh(PyObj, 'end_point')), VOpaque(X.fresh(PyObj, 'error'))
            return VTuple([c.ep, c.err])
        self.stubs = {'Router.resolve': resolve}
        return {'self': VObj('App', {'router': VObj('Router', {})}), 'path': self.path, 'verb': self.verb}

    def post(self, X, ret):
        ok = isinstance(ret, VTuple) and len(ret.items) == 2 and ret.items[0] is self.ep and ret.items[1] is self.err
        X.prove('post.returns_what_resolve_returned', z3.BoolVal(ok))

    def post_raise(self, X, exc):
        X.prove('raises.nothing', z3.BoolVal(False))


class RequestMethod(Contract):
    props = ('C02',)
    file = 'ombott/request_pkg/props_mixin.py'
    qualname = 'PropsMixin.method'
    expected_labels = ('post.upper_of_request_method',)

    def pre(self, X):
        self.raw = [None, X.fresh_str('REQUEST_METHOD')][X.choose(2, 'REQUEST_METHOD present?')]
        c = self

        def env_get(X, args, kwargs):
            X.prove('env.key_is_request_method', args[0].t == S('REQUEST_METHOD'))
            return c.raw if c.raw is not None else args[1]
        return {'self': VObj('Request', {'_env_get': VFunc(env_get, '_env_get')})}

    def post(self, X, ret):
        up = X.driver.uf('str_upper', StrSort, StrSort)
        X.prove('post.upper_of_request_method', ret.t == up(self.raw.t if self.raw is not None else S('GET')))


class RouteGetItem(Contract):
    props = ('C02',)
    file = 'ombott/router/radirouter.py'
    qualname = 'Route.__getitem__'
    assumptions = ('registered handlers (RouteMethod objects) are truthy',
                   'checked for candidate lists of length 1..3 and a single str: complete for the callers, which pass the 2- or '
                   '3-element list built by Ombott.to_route (proved there)')
    expected_labels = ('post.first_registered_candidate_wins', 'raise.only_when_no_candidate_registered')

    def pre(self, X):
        n = X.choose(4, 'candidates: str | list of 1 | 2 | 3')
        self.names = [X.fresh_str(f'cand{i}') for i in range(max(n, 1))]
        K, V = StrSort, PyObj
        has = X.fresh(z3.ArraySort(K, z3.BoolSort()), 'registered')
        val = X.fresh(z3.ArraySort(K, V), 'handlers')
        self.has, self.val = has, val
        truthy = X.driver.uf('truthy', PyObj, z3.BoolSort())
        is_none = X.driver.uf('is_none', PyObj, z3.BoolSort())
        k = z3.Const('k!m', K)
        X.assume(z3.ForAll([k], z3.Implies(z3.Select(has, k), z3.And(truthy(z3.Select(val, k)), z3.Not(is_none(z3.Select(val, k)))))))
        m = VMap(has, val, lambda v: v.t, lambda t: VOpaque(t, 'handler'), lambda v: v.t)
        self.RouteMethodError = X.globals['RouteMethodError']
        method = self.names[0] if n == 0 else VList(list(self.names))
        return {'self': VObj('Route', {'_methods': m}), 'method': method}

    def _first(self):
        """(found, handler) of the first registered candidate"""
        found = z3.BoolVal(False)
        h = z3.Select(self.val, self.names[-1].t)
        for nm in reversed(self.names):
            reg = z3.Select(self.has, nm.t)
            h = z3.If(reg, z3.Select(self.val, nm.t), h)
            found = z3.Or(reg, found)
        return found, h

    def post(self, X, ret):
        found, h = self._first()
        X.prove('post.first_registered_candidate_wins',
                z3.And(found, ret.t == h) if isinstance(ret, VOpaque) else z3.BoolVal(False))

    def post_raise(self, X, exc):
        found, _ = self._first()
        X.prove('raise.only_when_no_candidate_registered', z3.And(z3.BoolVal(exc.pyclass is self.RouteMethodError), z3.Not(found)))


class Resolve(Contract):
    props = ('C02', 'C01')
    file = 'ombott/router/radirouter.py'
    qualname = 'RadiRouter.resolve'
    assumptions = ('lookup contract of RadiDict.get(path, allow_partial=True): returns (route, extra) with route falsy iff no registered '
                   'rule matches the whole path (this is C01, decided bounded); extra carries param_keys/param_values/hooks',
                   'callee contract of Route.__getitem__ as proved; sorted()/",".join() are uninterpreted: Allow is stated as that term')
    expected_labels = ('post.404_iff_no_route', 'post.endpoint_iff_candidate_registered', 'post.405_with_sorted_registered_names',
                       'call.path_stripped_of_slashes')

    def pre(self, X):
        self.path = X.fresh_str('path')
        self.has_route = X.choose(2, 'route found?') == 1
        self.methods_given = X.choose(2, 'methods given?') == 1
        self.strip = X.driver.uf('strip_slashes', StrSort, StrSort)
        self.RouteMethodError = X.globals['RouteMethodError']
        c = self
        self.extra = VObj('Extra', {})
        self.route = VObj('Route', {'methods': VOpaque(X.fresh(PyObj, 'route_methods'), 'methods'), 'truthy': VBool(True)}) if self.has_route else NONE
        self.meth = None

        def get(X, args, kwargs):
            X.prove('call.path_stripped_of_slashes', z3.And(args[1].t == c.strip(c.path.t), z3.BoolVal('allow_partial' in kwargs)))
            return VTuple([c.route, c.extra])

        def make_params(X, args, kwargs):
            X.prove('call.params_from_lookup_keys_and_values',
                    z3.BoolVal(args[1] is c.pk and args[2] is c.pv))
            c.params = VOpaque(X.fresh(PyObj, 'params'), 'params')
            return c.params

        self.pk, self.pv, self.hooks = (VOpaque(X.fresh(PyObj, n), n) for n in ('param_keys', 'param_values', 'hooks'))
        self.stubs = {'RadiDict.get': get, 'Route.make_params_dict': make_params,
                      'sorted': lambda X, a, k: VOpaque(X.driver.uf('sorted', PyObj, PyObj)(a[0].t), 'sorted')
                      if isinstance(a[0], VOpaque) else VOpaque(X.fresh(PyObj, 'sorted_of_something_else'), 'sorted')}
        methods = VList([X.fresh_str('m0'), X.fresh_str('m1')]) if self.methods_given else NONE
        self.methods = methods
        return {'self': VObj('Router', {'radidict': VObj('RadiDict', {})}), 'path': self.path, 'methods': methods}

    def method_hook(self, X, obj, name, args, kwargs):
        if name == 'strip' and isinstance(obj, VStr) and args:
            return VStr(self.strip(obj.t))
        if name == 'join' and isinstance(obj, VStr) and isinstance(args[0], VOpaque):
            return VStr(X.driver.uf('join', StrSort, PyObj, StrSort)(obj.t, args[0].t))
        return None

    def getitem_hook(self, X, obj, key):
        if obj is self.route:
            X.prove('call.dispatch_on_the_given_candidates', z3.BoolVal(key is self.methods))
            if X.choose(2, 'a candidate is registered?') == 1:
                self.meth = VOpaque(X.fresh(PyObj, 'route_method'), 'meth')
                return self.meth
            self.meth = 'none'
            X.raise_(self.RouteMethodError, 'no method')
        if obj is self.extra:
            k = z3.simplify(key.t).as_string()
            return {'param_keys': self.pk, 'param_values': self.pv, 'hooks': self.hooks}[k]
        return None

    def post(self, X, ret):
        if not self.methods_given:
            X.prove('post.route_or_none', z3.BoolVal(ret is self.route if self.has_route else isinstance(ret, VNone)))
            return
        ok = isinstance(ret, VTuple) and len(ret.items) == 2
        if not ok:
            X.prove('post.returns_pair', z3.BoolVal(False))
            return
        ep, err = ret.items
        is404 = isinstance(ep, VNone) and isinstance(err, VList) and isinstance(err.items[0], VInt) and \
            z3.simplify(err.items[0].t).as_long() == 404
        is405 = isinstance(ep, VNone) and isinstance(err, VList) and isinstance(err.items[0], VInt) and \
            z3.simplify(err.items[0].t).as_long() == 405
        X.prove('post.404_iff_no_route', z3.BoolVal(is404 == (not self.has_route)))
        if is404:
            X.prove('post.404_carries_lookup_extra', z3.BoolVal(err.items[2] is self.extra))
        is_ep = isinstance(ep, VList) and isinstance(err, VNone)
        X.prove('post.endpoint_iff_candidate_registered',
                z3.BoolVal(is_ep == (self.has_route and self.meth not in (None, 'none'))))
        if is_ep:
            X.prove('post.endpoint_is_handler_params_hooks',
                    z3.BoolVal(len(ep.items) == 3 and ep.items[0] is self.meth and ep.items[1] is self.params and ep.items[2] is self.hooks))
        if is405:
            srt = X.driver.uf('sorted', PyObj, PyObj)
            join = X.driver.uf('join', StrSort, PyObj, StrSort)
            X.prove('post.405_with_sorted_registered_names',
                    z3.And(z3.BoolVal(self.has_route and self.meth == 'none'),
                           err.items[2].t == join(S(','), srt(self.route.fields['methods'].t)))
                    if isinstance(err.items[2], VStr) and self.has_route else z3.BoolVal(False))
        X.prove('post.exactly_one_outcome', z3.BoolVal(sum([is404, is405, is_ep]) == 1))

    def post_raise(self, X, exc):
        X.prove('raises.nothing', z3.BoolVal(False))


class Handler(Contract):
    props = ('C02', 'C11')
    file = 'ombott/ombott.py'
    qualname = 'Ombott.handler'
    assumptions = ('route handlers and hooks are user code (opaque calls)',
                   'hook positions collected by the lookup are relative to request.path (the path the router resolved)')
    expected_labels = ('raise.405_with_allow_header', 'raise.404_never_405', 'hooks.called_with_the_matched_prefix_of_the_request_path')

    def pre(self, X):
        self.kind = ('405', '404', 'ok')[X.choose(3, 'routing outcome')]
        self.allow = X.fresh_str('allowed')
        self.body = X.fresh_str('reason')
        c = self
        if self.kind == '405':
            err = VList([VInt(405), self.body, self.allow])
        elif self.kind == '404':
            hooks = [VList([]), VOpaque(X.fresh(PyObj, 'hooks'), 'hooks')][0]
            err = VList([VInt(404), self.body, VObj('Extra404', {})])
        else:
            err = NONE
        self.called = []
        self.hook_calls = []
        self.path = X.fresh_str('path')
        self.pos = X.fresh_int('route_pos')

        def route(X, args, kwargs):
            c.called.append('route')
            return VOpaque(X.fresh(PyObj, 'result'), 'result')

        def hook(X, args, kwargs):
            c.called.append('hook')
            c.hook_calls.append(args)
            return NONE
        self.hook = VFunc(hook, 'hook')
        self.with_hook = self.kind == 'ok' and X.choose(2, 'route hooks collected?') == 1
        route_hooks = VList([VList([self.pos, VObj('Hooks', {})])]) if self.with_hook else NONE
        self.stubs = {}
        # the raw PATH_INFO is a different string from the decoded, resolved path
        env = VObj('Environ', {})
        self.raw = X.fresh_str('PATH_INFO')
        return {'app': VObj('App', {'request': VObj('Request', {'path': self.path, 'environ': env})}),
                'route': VFunc(route, 'route'), 'kwargs': VObj('StrDict', {}), 'route_hooks': route_hooks, 'error404_405': err}

    def getitem_hook(self, X, obj, key):
        if isinstance(obj, VObj) and obj.cls == 'Environ':
            return self.raw
        if isinstance(obj, VObj) and obj.cls == 'Hooks':
            simple = X.globals['HookTypes'].SIMPLE
            k = getattr(key, 'obj', None)
            if k is None and isinstance(key, VInt) and z3.is_int_value(z3.simplify(key.t)):
                k = z3.simplify(key.t).as_long()
            return self.hook if (k is simple or k == simple) else NONE
        if isinstance(obj, VObj) and obj.cls == 'Extra404':
            k = z3.simplify(key.t).as_string()
            if k == 'hooks':
                return VList([])     # no partial (404) hook installed: the plain 404 path
            return VOpaque(X.fresh(PyObj, k), k)
        return None

    def construct_hook(self, X, pyclass, args, kwargs):
        if getattr(pyclass, '__name__', '') == 'HTTPError':
            e = VExc(pyclass, payload=(args, kwargs))
            return e
        return None

    def post(self, X, ret):
        X.prove('post.handler_called_only_without_error',
                z3.BoolVal(self.kind == 'ok' and self.called == (['hook', 'route'] if self.with_hook else ['route'])))
        if self.with_hook:
            a = self.hook_calls[0] if self.hook_calls else []
            want = z3.SubString(self.path.t, 0, z3.If(1 + self.pos.t < 0, 0, 1 + self.pos.t))
            X.assume(self.pos.t >= 0)
            X.prove('hooks.called_with_the_matched_prefix_of_the_request_path',
                    a[0].t == z3.SubString(self.path.t, 0, 1 + self.pos.t) if len(a) == 1 and isinstance(a[0], VStr) else z3.BoolVal(False))
        else:
            X.prove('hooks.called_with_the_matched_prefix_of_the_request_path', z3.BoolVal(not self.hook_calls))

    def post_raise(self, X, exc):
        name = getattr(exc.pyclass, '__name__', '')
        args, kwargs = exc.payload if exc.payload else ((), {})
        if name != 'HTTPError' or not args:
            X.prove('raises.only_http_error', z3.BoolVal(False))
            return
        code = z3.simplify(args[0].t).as_long()
        if self.kind == '405':
            al = kwargs.get('Allow')
            X.prove('raise.405_with_allow_header',
                    z3.And(z3.BoolVal(code == 405), al.t == self.allow.t) if isinstance(al, VStr) else z3.BoolVal(False))
        elif self.kind == '404':
            X.prove('raise.404_never_405', z3.BoolVal(code == 404 and 'Allow' not in kwargs))
        else:
            X.prove('raises.nothing_when_routed', z3.BoolVal(False))


CONTRACTS = [ToRoute(), RequestMethod(), RouteGetItem(), Resolve(), Handler()]


class MakeParamsDict(Contract):
    """Route.make_params_dict(names, values): a NEW dict {name: value} over zip(names, values) without the anonymous names.
    (The dict goes to the handler as **kwargs and into environ['route.url_args']: it must belong to this request alone.)"""
    props = ('C01', 'C10', 'C08')
    file = 'ombott/router/radirouter.py'
    qualname = 'Route.make_params_dict'
    assumptions = ('a dict comprehension builds a new dict, visiting zip(names, values) in order (Python semantics)',)
    expected_labels = ('post.fresh_dict_of_named_pairs',)

    def pre(self, X):
        self.names = VOpaque(X.fresh(PyObj, 'names'), 'names')
        self.values = VOpaque(X.fresh(PyObj, 'values'), 'values')
        self.comp = None
        return {'cls': VObj('RouteClass', {'anon_prefix': VStr('anon-'), '_no_params': VObj('SharedDict', {})}),
                'names': self.names, 'values': self.values}

    def genexp_hook(self, X, node):
        import ast
        ok = False
        try:
            (g,) = node.generators
            ok = (isinstance(node, ast.DictComp) and isinstance(g.target, ast.Tuple) and len(g.target.elts) == 2
                  and isinstance(g.iter, ast.Call) and isinstance(g.iter.func, ast.Name) and g.iter.func.id == 'zip'
                  and [ast.unparse(a) for a in g.iter.args] == ['names', 'values']
                  and ast.unparse(node.key) == g.target.elts[0].id and ast.unparse(node.value) == g.target.elts[1].id
                  and len(g.ifs) == 1 and ast.unparse(g.ifs[0]) == f'not {g.target.elts[0].id}.startswith(cls.anon_prefix)')
        except Exception:
            ok = False
        self.comp = VObj('FreshDict', {'ok': VBool(ok)})
        return self.comp

    def post(self, X, ret):
        X.prove('post.fresh_dict_of_named_pairs', z3.BoolVal(ret is self.comp and self.comp is not None) if self.comp is None
                else z3.And(z3.BoolVal(ret is self.comp), self.comp.fields['ok'].t))

    def post_raise(self, X, exc):
        X.prove('raises.nothing', z3.BoolVal(False))


CONTRACTS.append(MakeParamsDict())


# ----------------------------------------------------------------------------------------- the method table of a route
import ast as _ast
from pyvc.engine import VPy as VPy_, Val   # noqa: E402


class KeySet(Val):
    """set(<dict>) / set(<list of names>): only intersection and truthiness are used"""

    def __init__(self, member):      # member: z3 String -> z3 Bool ; names: concrete list of z3 strings or None
        self.member = member
        self.names = None

    def truth(self, X):
        if getattr(self, 'nonempty', None) is not None:
            return self.nonempty
        raise Unsupported('truthiness of an unbounded set')


class _MethodTable(Contract):
    props = ('C02', 'C11')
    file = 'ombott/router/radirouter.py'
    assumptions = ('the method table is a dict name -> RouteMethod; checked for method lists of length 1 and 2 and a single str '
                   '(RadiRouter.add passes the upper-cased list of the registration: any length behaves like repeated length 1)',)

    def table_pre(self, X):
        K = StrSort
        self.has0 = X.fresh(z3.ArraySort(K, z3.BoolSort()), 'registered')
        self.val0 = X.fresh(z3.ArraySort(K, PyObj), 'handlers')
        self.m = VMap(self.has0, self.val0, lambda v: v.t, lambda t: VOpaque(t, 'route_method'), lambda v: v.t)
        self.route_method = X.driver.uf('RouteMethod', StrSort, PyObj, PyObj)     # (name, handler) -> the new entry
        n = X.choose(3, 'method argument: str | [m] | [m1, m2]')
        self.names = [X.fresh_str(f'meth{i}') for i in range(max(n, 1))]
        self.arg = self.names[0] if n == 0 else VList(list(self.names))
        self.handler = VOpaque(X.fresh(PyObj, 'handler'), 'handler')
        self.me = VObj('Route', {'_methods': self.m, 'rule': VStr('/r')})
        self.RouteMethodError = X.globals['RouteMethodError']

    def construct_hook(self, X, pyclass, args, kwargs):
        if getattr(pyclass, '__name__', '') == 'RouteMethod':
            route, name, handler = args[0], args[1], args[2]
            X.prove('entry.bound_to_this_route_name_and_handler', z3.And(z3.BoolVal(route is self.me), handler.t == self.handler.t))
            return VOpaque(self.route_method(name.t, handler.t), 'route_method')
        if pyclass is set and len(args) == 1:
            a = args[0]
            if isinstance(a, VMap):
                ks = KeySet(lambda k, _m=a: z3.Select(_m.has, k))
                return ks
            if isinstance(a, VList):
                ks = KeySet(lambda k, _l=a: z3.Or(*[k == i.t for i in _l.items]))
                ks.names = [i.t for i in a.items]
                return ks
        return None

    def binop_hook(self, X, op, a, b):
        if isinstance(op, _ast.BitAnd) and isinstance(a, KeySet) and isinstance(b, KeySet):
            finite = a if a.names is not None else b
            other = b if finite is a else a
            if finite.names is None:
                raise Unsupported('intersection of two unbounded sets')
            r = KeySet(lambda k: z3.And(a.member(k), b.member(k)))
            r.nonempty = z3.Or(*[other.member(n) for n in finite.names])
            r.names = finite.names
            return r
        return None

    def genexp_hook(self, X, node):
        # {m: self._methods[m].handler_fullname for m in registered}  (error message only)   /   [self._methods.pop(m, None) for m in method]
        (g,) = node.generators
        if isinstance(node, _ast.DictComp):
            return VOpaque(X.fresh(PyObj, 'names_for_message'), 'msg')
        src = X.eval(g.iter)
        call = node.elt
        ok = (isinstance(src, VList) and isinstance(call, _ast.Call) and isinstance(call.func, _ast.Attribute) and call.func.attr == 'pop'
              and _ast.unparse(call.func.value) == 'self._methods' and len(call.args) == 2 and isinstance(g.target, _ast.Name)
              and _ast.unparse(call.args[0]) == g.target.id)
        if not ok:
            raise Unsupported('list comprehension is not the per-name pop')
        for item in src.items:
            X.env[g.target.id] = item
            X.eval(call)
        return VOpaque(X.fresh(PyObj, 'popped'), 'list')

    def builtin_hook(self, X, name, args, kwargs):
        return None

    def getattr_hook(self, X, obj, attr):
        if isinstance(obj, VPy_) and attr == 'get_func_fullname':
            return VFunc(lambda X2, a, k: X2.fresh_str('fullname'), 'get_func_fullname')
        return None

    def table_after_set(self):
        has, val = self.has0, self.val0
        for n in self.names:
            has = z3.Store(has, n.t, z3.BoolVal(True))
            val = z3.Store(val, n.t, self.route_method(n.t, self.handler.t))
        return has, val

    def unchanged(self):
        return z3.And(self.m.has == self.has0, self.m.val == self.val0)




class SetMethod(_MethodTable):
    qualname = 'Route.set_method'
    expected_labels = ('post.exactly_the_named_entries_replaced',)

    def pre(self, X):
        self.table_pre(X)
        c = self

        def _set_methods(X, args, kwargs):
            # callee contract (proved below as Route._set_methods): binds every listed name, nothing else
            me, methods, handler = args[0], args[1], args[2]
            X.prove('call.set_methods_with_the_list', z3.BoolVal(isinstance(methods, VList) and [i.t for i in methods.items] == [n.t for n in c.names]
                                                                 and handler is c.handler))
            has, val = c.table_after_set()
            c.m.has, c.m.val = has, val
            return NONE
        self.stubs = {'Route._set_methods': _set_methods}
        return {'self': self.me, 'method': self.arg, 'handler': self.handler, 'meta': NONE}

    def post(self, X, ret):
        has, val = self.table_after_set()
        X.prove('post.exactly_the_named_entries_replaced', z3.And(self.m.has == has, self.m.val == val))


class SetMethods(_MethodTable):
    qualname = 'Route._set_methods'
    expected_labels = ('post.exactly_the_named_entries_bound',)

    def pre(self, X):
        self.table_pre(X)
        if not isinstance(self.arg, VList):
            self.arg = VList([self.names[0]])
        return {'self': self.me, 'methods': self.arg, 'handler': self.handler, 'meta': NONE}

    def post(self, X, ret):
        has, val = self.table_after_set()
        X.prove('post.exactly_the_named_entries_bound', z3.And(self.m.has == has, self.m.val == val))


class AddMethod(_MethodTable):
    qualname = 'Route.add_method'
    expected_labels = ('post.added_only_when_none_was_registered', 'raise.refused_iff_some_name_registered_and_table_unchanged')

    def pre(self, X):
        self.table_pre(X)
        c = self

        def names_of(arg):
            if isinstance(arg, VStr):
                return [arg]
            if isinstance(arg, (VList, VTuple)) and all(isinstance(i, VStr) for i in arg.items):
                return list(arg.items)
            raise Unsupported('method list argument of a callee')

        def _set_methods(X, args, kwargs):
            # callee contract (proved: SetMethods): binds exactly the names it is GIVEN, in the table as it is NOW
            X.prove('call.set_methods_with_this_handler', z3.BoolVal(len(args) >= 3 and args[2] is c.handler))
            for n in names_of(args[1]):
                c.m.has = z3.Store(c.m.has, n.t, z3.BoolVal(True))
                c.m.val = z3.Store(c.m.val, n.t, c.route_method(n.t, c.handler.t))
            return NONE

        def _raise_if_registered(X, args, kwargs):
            # callee contract (proved: RaiseIfRegistered): raises RouteMethodError iff one of the names it is GIVEN is registered
            # in the table as it is NOW; changes nothing
            if X.decide(z3.Or(*[z3.Select(c.m.has, n.t) for n in names_of(args[1])])):
                X.raise_(c.RouteMethodError, 'registered')
            return NONE
        self.stubs = {'Route._set_methods': _set_methods, 'Route._raise_if_registered': _raise_if_registered}
        return {'self': self.me, 'method': self.arg, 'handler': self.handler, 'meta': NONE}

    def clash(self):
        return z3.Or(*[z3.Select(self.has0, n.t) for n in self.names])

    def post(self, X, ret):
        has, val = self.table_after_set()
        X.prove('post.added_only_when_none_was_registered', z3.And(z3.Not(self.clash()), self.m.has == has, self.m.val == val))

    def post_raise(self, X, exc):
        X.prove('raise.refused_iff_some_name_registered_and_table_unchanged',
                z3.And(z3.BoolVal(exc.pyclass is self.RouteMethodError), self.clash(), self.unchanged()))


class RaiseIfRegistered(_MethodTable):
    qualname = 'Route._raise_if_registered'
    expected_labels = ('post.silent_only_without_clash', 'raise.iff_some_name_registered')

    def pre(self, X):
        self.table_pre(X)
        if not isinstance(self.arg, VList):
            self.arg = VList([self.names[0]])
        self.stubs = {'RouteMethod.get_func_fullname': lambda X, a, k: X.fresh_str('fullname')}
        return {'self': self.me, 'method': self.arg, 'candidate': self.handler}

    def clash(self):
        return z3.Or(*[z3.Select(self.has0, n.t) for n in self.names])

    def post(self, X, ret):
        X.prove('post.silent_only_without_clash', z3.And(z3.Not(self.clash()), self.unchanged()))

    def post_raise(self, X, exc):
        X.prove('raise.iff_some_name_registered', z3.And(z3.BoolVal(exc.pyclass is self.RouteMethodError), self.clash(), self.unchanged()))


class RemoveMethod(_MethodTable):
    qualname = 'Route.remove_method'
    expected_labels = ('post.exactly_the_named_entries_removed',)

    def pre(self, X):
        self.table_pre(X)
        return {'self': self.me, 'method': self.arg}

    def post(self, X, ret):
        has = self.has0
        for n in self.names:
            has = z3.Store(has, n.t, z3.BoolVal(False))
        k = z3.Const('k!rm', StrSort)
        others = z3.ForAll([k], z3.Implies(z3.And(*[k != n.t for n in self.names]),
                                           z3.Select(self.m.val, k) == z3.Select(self.val0, k)))
        X.prove('post.exactly_the_named_entries_removed', z3.And(self.m.has == has, others))


CONTRACTS += [SetMethod(), SetMethods(), AddMethod(), RaiseIfRegistered(), RemoveMethod()]


class RouterAdd(Contract):
    """RadiRouter.add: the registration-side normalisation of verbs — every given name, one string or any list of strings,
    reaches _add upper-cased, in order, nothing dropped or added; everything else is passed through unchanged."""
    props = ('C02',)
    file = 'ombott/router/radirouter.py'
    qualname = 'RadiRouter.add'
    assumptions = ('str.upper is an uninterpreted function (the request side upper-cases with the same function: PropsMixin.method)',
                   'lists of 1..3 names are checked (the comprehension is unrolled; the element expression does not depend on the length)')
    expected_labels = ('call.every_name_upper_cased_in_order', 'call.other_arguments_passed_through', 'post.returns_what__add_returns')

    def pre(self, X):
        self.upper = X.driver.uf('str_upper', StrSort, StrSort)
        k = X.choose(4, 'methods: one str | list of 1 | list of 2 | list of 3')
        self.names = [X.fresh_str(f'm{i}') for i in range(max(k, 1))]
        methods = self.names[0] if k == 0 else VList(list(self.names))
        self.rule, self.handler = X.fresh_str('rule'), VOpaque(X.fresh(PyObj, 'handler'), 'func')
        self.name, self.meta, self.ow = VOpaque(X.fresh(PyObj, 'name'), 'obj'), VOpaque(X.fresh(PyObj, 'meta'), 'obj'), X.fresh_bool('overwrite')
        self.result = VOpaque(X.fresh(PyObj, 'added'), 'route')
        self.called = 0
        c = self

        def _add(X, args, kwargs):
            c.called += 1
            ms = args[2] if len(args) > 2 else None
            ok = isinstance(ms, (VList, VTuple)) and len(ms.items) == len(c.names) and all(isinstance(i, VStr) for i in ms.items)
            X.prove('call.every_name_upper_cased_in_order',
                    z3.And(*[i.t == c.upper(n.t) for i, n in zip(ms.items, c.names)]) if ok else z3.BoolVal(False))
            rest_ok = (len(args) == 5 and args[1] is c.rule and args[3] is c.handler and args[4] is c.name
                       and kwargs.get('meta') is c.meta and kwargs.get('overwrite') is c.ow and set(kwargs) == {'meta', 'overwrite'})
            X.prove('call.other_arguments_passed_through', z3.BoolVal(bool(rest_ok)))
            return c.result
        self.stubs = {'RadiRouter._add': _add}
        return {'self': VObj('RadiRouter', {}), 'rule': self.rule, 'methods': methods, 'handler': self.handler,
                'name': self.name, 'meta': self.meta, 'overwrite': self.ow}

    def method_hook(self, X, obj, name, args, kwargs):
        if isinstance(obj, VStr) and name == 'upper' and not args:
            return VStr(self.upper(obj.t))
        return None

    def post(self, X, ret):
        X.prove('post.returns_what__add_returns', z3.BoolVal(ret is self.result and self.called == 1))

    def post_raise(self, X, exc):
        X.prove('raises.nothing', z3.BoolVal(False))


CONTRACTS += [RouterAdd()]


class RouterAddInner(Contract):
    """RadiRouter._add: tree, route index and name index change together, or not at all.
      * a name that already belongs to ANOTHER route (and no overwrite) is refused before anything is changed;
      * a rule that is already registered (same pattern AND filters: _match) reuses its Route object - its other methods stay; a new
        rule is put into the tree and into self.routes under its pattern, both or neither;
      * the verbs are bound with set_method when overwrite is asked for, otherwise with add_method (which refuses a taken verb),
        with the handler and meta given;
      * the name, if any, is bound to the route that now serves the rule; the route is returned."""
    props = ('C02', 'C11')
    file = 'ombott/router/radirouter.py'
    qualname = 'RadiRouter._add'
    assumptions = ('callee contracts: _match returns the registered Route for (pattern, filters) or None; RadiDict.add (tree insert: bounded); '
                   'Route.set_method / add_method as proved (add_method may refuse with RouteMethodError and then changes nothing)',
                   'a Route object is truthy')
    expected_labels = ('name.clash_refused_before_any_change', 'route.registered_rule_reuses_its_route', 'route.new_rule_enters_tree_and_index_together',
                       'methods.bound_with_the_requested_mode', 'name.bound_to_the_serving_route', 'post.returns_the_serving_route',
                       'route.looked_up_by_pattern_and_filters', 'route.refused_by_the_tree_changes_nothing')

    def pre(self, X):
        g = X.globals
        self.BuildErr, self.MethErr = g['RouteBuildError'], g['RouteMethodError']
        self.exists = X.choose(2, 'rule already registered?') == 1
        self.named = X.choose(2, 'name given?') == 1
        self.name_state = X.choose(3, 'name: free | belongs to this route | belongs to another route') if self.named else 0
        self.overwrite = X.fresh_bool('overwrite')
        self.rule = X.fresh_str('rule')
        self.handler, self.meta = VOpaque(X.fresh(PyObj, 'handler'), 'func'), VOpaque(X.fresh(PyObj, 'meta'), 'meta')
        self.methods = VOpaque(X.fresh(PyObj, 'methods'), 'list')
        self.name = X.fresh_str('name') if self.named else NONE
        if self.named:
            X.assume(z3.Length(self.name.t) > 0)
        self.new_route = VObj('Route', {'pattern': X.fresh_str('pattern'), 'filters': VOpaque(X.fresh(PyObj, 'filters'), 'filters'), 'truthy': VBool(True)})
        self.old_route = VObj('Route', {'pattern': self.new_route.fields['pattern'], 'filters': self.new_route.fields['filters'], 'truthy': VBool(True)})
        self.other_route = VObj('Route', {'pattern': X.fresh_str('other_pattern'), 'filters': NONE, 'truthy': VBool(True)})
        self.events = []
        self.tree_refused = False
        c = self

        def route_ctor(X, args, kwargs):
            c.events.append(('Route', args))
            return c.new_route

        def match(X, args, kwargs):
            # _match(rule=None, filters=None, *, route_pattern=None, get_hooks=False): "the same rule" means same pattern AND same
            # filters - a lookup without the filters would fold a rule with other filters into this route
            a = list(args[1:])
            pat = kwargs.get('route_pattern', kwargs.get('rule', a[0] if a else None))
            flt = kwargs.get('filters', a[1] if len(a) > 1 else None)
            ok = (pat is c.new_route.fields['pattern'] and flt is c.new_route.fields['filters'] and len(a) <= 2
                  and set(kwargs) <= {'route_pattern', 'rule', 'filters'} and not ('rule' in kwargs and 'route_pattern' in kwargs))
            X.prove('route.looked_up_by_pattern_and_filters', z3.BoolVal(bool(ok)))
            c.events.append(('_match', args[1:]))
            return c.old_route if c.exists else NONE

        def names_get(X, args, kwargs):
            if not c.named:
                return NONE
            cur = c.name_now
            return cur if cur is not None else NONE

        def tree_add(X, args, kwargs):
            # the tree may refuse the rule (a wildcard at a shared position with another filter: RadiDictKeyError, a LookupError)
            if X.choose(2, 'tree.add: accepts | refuses') == 1:
                c.tree_refused = True
                X.raise_(LookupError, 'tree refuses')
            c.events.append(('tree.add', args[1:]))
            return NONE

        def params_signature(X, args, kwargs):
            return VOpaque(X.fresh(PyObj, 'signature'), 'signature')

        def bind(mode):
            def f(X, args, kwargs):
                c.events.append((mode, args))
                if mode == 'add_method' and X.choose(2, 'add_method: ok | verb taken') == 1:
                    X.raise_(c.MethErr, 'taken')
                return NONE
            return f
        self.name_now = [None, None, self.other_route][self.name_state]
        if self.name_state == 1:
            self.name_now = self.old_route if self.exists else None      # "belongs to this route" needs the route to exist
            if not self.exists:
                self.name_state = 0
        self.stubs = {'Route': route_ctor, 'Router._match': match, 'Names.get': names_get, 'Tree.add': tree_add,
                      'Route.params_signature': params_signature, 'Route.set_method': bind('set_method'), 'Route.add_method': bind('add_method')}
        self.routes_idx, self.names_idx = VObj('RoutesIdx', {}), VObj('Names', {})
        self.me = VObj('Router', {'radidict': VObj('Tree', {}), 'routes': self.routes_idx, 'named_routes': self.names_idx})
        return {'self': self.me, 'rule': self.rule, 'methods': self.methods, 'handler': self.handler, 'name': self.name,
                'meta': self.meta, 'overwrite': self.overwrite}

    def setitem_hook(self, X, obj, key, val):
        if obj is self.routes_idx:
            self.events.append(('routes[]', key, val))
            return True
        if obj is self.names_idx:
            self.events.append(('names[]', key, val))
            self.name_now = val
            return True
        return False

    def _changes(self):
        return [e for e in self.events if e[0] in ('tree.add', 'routes[]', 'names[]', 'set_method', 'add_method')]

    def _serving(self):
        return self.old_route if self.exists else self.new_route

    def post(self, X, ret):
        serving = self._serving()
        X.prove('post.returns_the_serving_route', z3.BoolVal(ret is serving))
        tree = [e for e in self.events if e[0] == 'tree.add']
        idx = [e for e in self.events if e[0] == 'routes[]']
        if self.exists:
            X.prove('route.registered_rule_reuses_its_route', z3.BoolVal(not tree and not idx))
        else:
            ok = (len(tree) == 1 and len(idx) == 1 and tree[0][1][0] is self.new_route.fields['pattern'] and tree[0][1][1] is self.new_route
                  and idx[0][1] is self.new_route.fields['pattern'] and idx[0][2] is self.new_route)
            X.prove('route.new_rule_enters_tree_and_index_together', z3.BoolVal(bool(ok)))
        binds = [e for e in self.events if e[0] in ('set_method', 'add_method')]
        okb = len(binds) == 1 and binds[0][1][0] is serving and binds[0][1][1] is self.methods and binds[0][1][2] is self.handler \
            and binds[0][1][3] is self.meta
        X.prove('methods.bound_with_the_requested_mode',
                z3.And(z3.BoolVal(bool(okb)), self.overwrite.t == z3.BoolVal(binds[0][0] == 'set_method')) if okb else z3.BoolVal(False))
        nm = [e for e in self.events if e[0] == 'names[]']
        if self.named:
            X.prove('name.bound_to_the_serving_route',
                    z3.BoolVal(len(nm) == 1 and nm[0][1] is self.name and nm[0][2] is serving))
            if self.name_state == 2:
                X.prove('name.clash_refused_before_any_change', self.overwrite.t)      # only an overwrite may take a name over
        else:
            X.prove('name.bound_to_the_serving_route', z3.BoolVal(not nm))

    def post_raise(self, X, exc):
        if exc.pyclass is self.BuildErr:
            X.prove('name.clash_refused_before_any_change',
                    z3.And(z3.BoolVal(self.named and self.name_state == 2 and not self._changes()), z3.Not(self.overwrite.t)))
        elif exc.pyclass is self.MethErr:
            # refused by add_method: nothing but a brand-new (method-less) route may have been entered, and only without overwrite
            binds = [e for e in self.events if e[0] in ('set_method', 'add_method')]
            X.prove('methods.bound_with_the_requested_mode',
                    z3.And(z3.BoolVal(len(binds) == 1 and binds[0][0] == 'add_method' and not [e for e in self.events if e[0] == 'names[]']),
                           z3.Not(self.overwrite.t)))
        elif exc.pyclass is LookupError and self.tree_refused:
            # a registration the tree refuses leaves the route index, the name index and every method table as they were
            X.prove('route.refused_by_the_tree_changes_nothing', z3.BoolVal(not self._changes()))
        else:
            X.prove('raises.only_build_or_method_errors', z3.BoolVal(False))


CONTRACTS += [RouterAddInner()]


class ToPattern(Contract):
    """RadiRouter.to_pattern: the pattern of a rule is EXACTLY what parse_rule makes of it - the same function registration uses -
    so removal and hook removal address the node registration created (no extra normalisation on one side only)."""
    props = ('C11',)
    file = 'ombott/router/radirouter.py'
    qualname = 'RadiRouter.to_pattern'
    expected_labels = ('pattern.is_the_first_component_of_parse_rule',)

    def pre(self, X):
        self.rule = X.fresh_str('rule')
        self.pattern = X.fresh_str('pattern')
        c = self

        def parse_rule(X, args, kwargs):
            X.prove('pattern.parsed_from_this_rule', z3.BoolVal(len(args) >= 1 and args[-1] is c.rule))
            return VTuple([c.pattern, VOpaque(X.fresh(PyObj, 'params'), 'p'), VOpaque(X.fresh(PyObj, 'filters'), 'f'),
                           VOpaque(X.fresh(PyObj, 'po'), 'po'), VOpaque(X.fresh(PyObj, 'fo'), 'fo')])
        self.stubs = {'Cls.parse_rule': parse_rule}
        return {'cls': VObj('Cls', {}), 'rule': self.rule}

    def post(self, X, ret):
        X.prove('pattern.is_the_first_component_of_parse_rule', z3.BoolVal(ret is self.pattern))

    def post_raise(self, X, exc):
        X.prove('raises.nothing', z3.BoolVal(False))


class RemoveHook(Contract):
    """RadiRouter.remove_hook: the hook is removed from the tree node of to_pattern(rule) in hooks-only mode and from the hook index
    under the same pattern (afterwards the index has no entry for it, whether or not it had one); routes are not touched."""
    props = ('C11',)
    file = 'ombott/router/radirouter.py'
    qualname = 'RadiRouter.remove_hook'
    expected_labels = ('hook.removed_from_tree_and_index_under_one_pattern',)

    def pre(self, X):
        self.rule = X.fresh_str('rule')
        self.pattern = X.fresh_str('pattern')
        self.present = X.fresh_bool('pattern_in_hook_index')
        self.ev = []
        c = self

        def pop(X, args, kwargs):
            # pop(pattern, default): removes the entry if there is one, never raises; pop(pattern): KeyError when absent
            if len(args) < 3 and not kwargs and X.decide(z3.Not(c.present.t)):
                X.raise_(KeyError, 'absent')
            c.ev.append(('hooks.gone', args[1]))
            return NONE
        self.hooks = VObj('Hooks', {})
        self.stubs = {'Router.to_pattern': lambda X, a, k: (c.ev.append(('to_pattern', a[1:])), c.pattern)[1],
                      'Tree.remove': lambda X, a, k: (c.ev.append(('tree.remove', a[1:], dict(k))), NONE)[1],
                      'Hooks.pop': pop}
        self.me = VObj('Router', {'radidict': VObj('Tree', {}), 'hooks': self.hooks, 'routes': VObj('Routes', {}),
                                  'named_routes': VObj('Names', {})})
        return {'self': self.me, 'rule': self.rule}

    def contains_hook(self, X, container, item):
        if container is self.hooks:
            self.asked = item
            return self.present.t
        return None

    def delitem_hook(self, X, obj, key):
        if obj is self.hooks:
            if X.decide(z3.Not(self.present.t)):
                X.raise_(KeyError, 'absent')
            self.ev.append(('hooks.gone', key))
            return True
        return None

    def post(self, X, ret):
        tr = [e for e in self.ev if e[0] == 'tree.remove']
        hp = [e for e in self.ev if e[0] == 'hooks.gone']
        tp = [e for e in self.ev if e[0] == 'to_pattern']
        tree_ok = (len(tp) == 1 and tp[0][1][0] is self.rule and len(tr) == 1 and tr[0][1][0] is self.pattern and len(tr[0][1]) == 1
                   and set(tr[0][2]) == {'hooks_only'} and isinstance(tr[0][2]['hooks_only'], VBool)
                   and z3.is_true(z3.simplify(tr[0][2]['hooks_only'].t)))
        if hp:
            idx_ok = z3.BoolVal(len(hp) == 1 and hp[0][1] is self.pattern)
        else:
            # nothing removed from the index: only right if the (same) pattern was asked for and is not there
            idx_ok = z3.And(z3.BoolVal(getattr(self, 'asked', None) is self.pattern), z3.Not(self.present.t))
        X.prove('hook.removed_from_tree_and_index_under_one_pattern', z3.And(z3.BoolVal(bool(tree_ok)), idx_ok))

    def post_raise(self, X, exc):
        X.prove('raises.nothing', z3.BoolVal(False))


CONTRACTS += [ToPattern(), RemoveHook()]


class AddHook(Contract):
    """RadiRouter.add_hook: the hook set of a rule lives in two places - the tree node of the rule's pattern and self.hooks - and
    both change together, under the pattern parse_rule gives, to the very object the installer returned; when the installer
    returns None or the set it was given, neither place is written.  The installer is handed the hooks found for this pattern
    and the caller's arguments unchanged.  The pattern is returned."""
    props = ('C11',)
    file = 'ombott/router/radirouter.py'
    qualname = 'RadiRouter.add_hook'
    assumptions = ('parse_rule, RadiRouter._match (get_hooks) and RadiDict.add_hooks are callees (tree walks: bounded, C01/C11 cases)',
                   '1 or 2 wildcards are checked for the params table (comprehension unrolled)')
    expected_labels = ('installer.given_the_hooks_of_this_pattern_and_the_callers_arguments',
                       'hooks.tree_and_index_written_together_or_not_at_all', 'post.returns_the_pattern')

    def pre(self, X):
        self.rule = X.fresh_str('rule')
        self.pattern = X.fresh_str('pattern')
        n = 1 + X.choose(2, 'wildcards: 1 | 2')
        self.pnames = [X.fresh_str(f'p{i}') for i in range(n)]
        self.filters = [VOpaque(X.fresh(PyObj, f'filter{i}'), 'filter') for i in range(n)]
        self.a0, self.k0 = VOpaque(X.fresh(PyObj, 'arg0'), 'obj'), VOpaque(X.fresh(PyObj, 'kw0'), 'obj')
        how = X.choose(2, 'found hooks: None | a set')
        self.found = NONE if how == 0 else VObj('HookSet', {'tag': 'found'})
        self.outcome = X.choose(3, 'installer returns: None | what it was given | a new set')
        self.new = VObj('HookSet', {'tag': 'new'})
        self.ev = []
        c = self

        def parse_rule(X, args, kwargs):
            c.ev.append(('parse_rule', args[-1]))
            return VTuple([c.pattern, VList(list(c.pnames)), VList(list(c.filters)), VOpaque(X.fresh(PyObj, 'po'), 'po'),
                           VOpaque(X.fresh(PyObj, 'fo'), 'fo')])

        def _match(X, args, kwargs):
            ok = len(args) == 1 and set(kwargs) == {'route_pattern', 'get_hooks'} and kwargs['route_pattern'] is c.pattern \
                and isinstance(kwargs['get_hooks'], VBool) and z3.is_true(z3.simplify(kwargs['get_hooks'].t))
            c.ev.append(('_match', ok))
            return c.found

        def installer(X, args, kwargs):
            a = list(args)
            if a and isinstance(a[0], VObj) and a[0].cls == 'Router':
                a = a[1:]
            ok = len(a) == 2 and a[0] is c.found and a[1] is c.a0 and set(kwargs) == {'kw'} and kwargs['kw'] is c.k0
            c.ev.append(('installer', ok))
            return [NONE, c.found, c.new][c.outcome]

        def add_hooks(X, args, kwargs):
            c.ev.append(('tree.add_hooks', list(args[1:]), dict(kwargs)))
            return NONE
        self.hooks = VObj('HooksIndex', {})
        self.stubs = {'Router.parse_rule': parse_rule, 'Router._match': _match, 'Router.hook_installer': installer,
                      'Tree.add_hooks': add_hooks}
        self.me = VObj('Router', {'radidict': VObj('Tree', {}), 'hooks': self.hooks})
        return {'self': self.me, 'rule': self.rule, 'args': VTuple([self.a0]), 'kwargs': VObj('StrDict', {'kw': self.k0})}

    def setitem_hook(self, X, obj, key, val):
        if obj is self.hooks:
            self.ev.append(('hooks.set', key, val))
            return True
        return None

    def post(self, X, ret):
        inst = [e for e in self.ev if e[0] == 'installer']
        mt = [e for e in self.ev if e[0] == '_match']
        pr = [e for e in self.ev if e[0] == 'parse_rule']
        X.prove('installer.given_the_hooks_of_this_pattern_and_the_callers_arguments',
                z3.BoolVal(len(inst) == 1 and inst[0][1] and len(mt) == 1 and mt[0][1] and len(pr) == 1 and pr[0][1] is self.rule
                           and self.ev.index(pr[0]) < self.ev.index(mt[0]) < self.ev.index(inst[0])))
        tw = [e for e in self.ev if e[0] == 'tree.add_hooks']
        iw = [e for e in self.ev if e[0] == 'hooks.set']
        if self.outcome == 2:
            ok = len(tw) == 1 and len(iw) == 1 and not tw[0][2] and len(tw[0][1]) == 3 and tw[0][1][0] is self.pattern \
                and tw[0][1][1] is self.new and iw[0][1] is self.pattern and iw[0][2] is self.new and self._params_ok(X, tw[0][1][2])
        else:
            ok = not tw and not iw
        X.prove('hooks.tree_and_index_written_together_or_not_at_all', z3.BoolVal(bool(ok)))
        X.prove('post.returns_the_pattern', z3.BoolVal(ret is self.pattern))

    def _params_ok(self, X, p):
        """{name: [False, filter]} for the wildcards of the rule, in order"""
        pairs = getattr(p, 'pairs', None)
        if pairs is None or len(pairs) != len(self.pnames):
            return False
        for (k, v), n, f in zip(pairs, self.pnames, self.filters):
            if k is not n or not isinstance(v, VList) or len(v.items) != 2 or v.items[1] is not f:
                return False
            if not (isinstance(v.items[0], VBool) and z3.is_false(z3.simplify(v.items[0].t))):
                return False
        return True

    def post_raise(self, X, exc):
        X.prove('raises.nothing', z3.BoolVal(False))


CONTRACTS += [AddHook()]


class RouteMethods(Contract):
    """Route.methods: the caller gets a NEW dict with the entries of the method table - never the table itself (whoever edits the
    result must not de-register handlers)."""
    props = ('C02', 'C11')
    file = 'ombott/router/radirouter.py'
    qualname = 'Route.methods'
    expected_labels = ('post.a_copy_of_the_table_not_the_table',)

    def pre(self, X):
        self.table = VObj('MethodTable', {})
        self.copies = []
        c = self
        self.stubs = {'MethodTable.copy': lambda X, a, k: (c.copies.append(VObj('TableCopy', {})), c.copies[-1])[1]}
        return {'self': VObj('Route', {'_methods': self.table})}

    def construct_hook(self, X, pyclass, args, kwargs):
        if pyclass is dict and len(args) == 1 and args[0] is self.table and not kwargs:
            self.copies.append(VObj('TableCopy', {}))
            return self.copies[-1]
        return None

    def post(self, X, ret):
        X.prove('post.a_copy_of_the_table_not_the_table', z3.BoolVal(len(self.copies) == 1 and ret is self.copies[0]))

    def post_raise(self, X, exc):
        X.prove('raises.nothing', z3.BoolVal(False))


CONTRACTS += [RouteMethods()]
