"""C07 — BytesIOProxy: the window [_st, _end) over the buffered body that stands for one uploaded file.

Representation invariant  _st <= _pos <= _end  (established by __init__ with _pos = _st, assumed on entry, proved on exit).
  read(sz)    n = _end - _pos if sz is None or sz <= 0 else min(sz, _end - _pos); returns src[_pos:_pos+n] and advances _pos by n;
              the source is only ever positioned inside the window and never read beyond _end: no byte of another part
  tell()      == _pos - _st
  seek(p, SEEK_SET)  _pos = _st + clamp(p, 0, _end - _st); returns the new tell(); SEEK_CUR / SEEK_END reduce to SEEK_SET with
              tell()+p / (_end-_st)+p; any other whence -> ValueError
"""
import z3
from pyvc.engine import Contract, VInt, VBytes, VObj, VFunc, VNone, NONE, Unsupported, BytesSort

L = z3.Length


def clamp(x, lo, hi):
    return z3.If(x < lo, lo, z3.If(x > hi, hi, x))


class _Proxy(Contract):
    props = ('C07',)
    file = 'ombott/request_pkg/multipart.py'
    assumptions = ('source file contract: seek(p) positions at p; read(n) at position p returns content[p:p+n] (the buffered body is a '
                   'BytesIO or a regular temporary file: no short reads)',
                   'representation invariant _st <= _pos <= _end <= len(source) holds on entry')

    def proxy_pre(self, X):
        self.st, self.end, self.pos = (X.fresh(z3.IntSort(), n) for n in ('_st', '_end', '_pos'))
        self.content = X.fresh(BytesSort, 'source_content')
        X.assume(z3.And(0 <= self.st, self.st <= self.pos, self.pos <= self.end, self.end <= L(self.content)))
        self.src_pos = None
        c = self

        def src_seek(X, args, kwargs):
            p = args[1].t
            X.prove('source.positioned_inside_the_window', z3.And(p >= c.st, p <= c.end))
            c.src_pos = p
            return VInt(p)

        def src_read(X, args, kwargs):
            n = args[1].t
            if c.src_pos is None:
                X.prove('source.read_only_after_seek', z3.BoolVal(False))
                raise Unsupported('read without seek')
            X.prove('source.never_read_beyond_the_window', z3.And(n >= 0, c.src_pos + n <= c.end))
            return VBytes(z3.SubSeq(c.content, c.src_pos, n))
        self.stubs = {'Src.seek': src_seek, 'Src.read': src_read}
        self.me = VObj('Proxy', {'_src': VObj('Src', {}), '_st': VInt(self.st), '_end': VInt(self.end), '_pos': VInt(self.pos)})
        return self.me

    def inv_after(self):
        p = self.me.fields['_pos'].t
        return z3.And(self.st <= p, p <= self.end, self.me.fields['_st'].t == self.st, self.me.fields['_end'].t == self.end)

    def post_raise(self, X, exc):
        X.prove('raises.nothing', z3.BoolVal(False))


class Read(_Proxy):
    qualname = 'BytesIOProxy.read'
    expected_labels = ('post.returns_window_slice_and_advances', 'source.never_read_beyond_the_window')

    def pre(self, X):
        me = self.proxy_pre(X)
        self.sz = [None, X.fresh(z3.IntSort(), 'sz')][X.choose(2, 'sz given?')]
        return {'self': me, 'sz': VInt(self.sz) if self.sz is not None else NONE}

    def post(self, X, ret):
        room = self.end - self.pos
        n = room if self.sz is None else z3.If(self.sz > 0, z3.If(self.sz < room, self.sz, room), room)
        X.prove('post.returns_window_slice_and_advances',
                z3.And(ret.t == z3.SubSeq(self.content, self.pos, n), self.me.fields['_pos'].t == self.pos + n, self.inv_after()))


class Tell(_Proxy):
    qualname = 'BytesIOProxy.tell'
    expected_labels = ('post.offset_inside_window',)

    def pre(self, X):
        return {'self': self.proxy_pre(X)}

    def post(self, X, ret):
        X.prove('post.offset_inside_window', z3.And(ret.t == self.pos - self.st, self.inv_after()))


class Seek(_Proxy):
    qualname = 'BytesIOProxy.seek'
    expected_labels = ('post.seek_set_clamped_to_window', 'post.seek_cur_end_reduce_to_set', 'raise.only_unknown_whence')

    def pre(self, X):
        me = self.proxy_pre(X)
        self.p = X.fresh(z3.IntSort(), 'pos')
        self.whence = X.choose(4, 'whence: SET | CUR | END | other')
        c = self
        self.inner = []

        def tell(X, args, kwargs):
            return VInt(args[0].fields['_pos'].t - c.st)

        def seek(X, args, kwargs):
            # the recursive call: SEEK_SET with the callee contract proved below for whence == 0
            o, p = args[0], args[1].t
            X.prove('recursion.only_seek_set', z3.BoolVal(len(args) == 2 and not kwargs))
            c.inner.append(p)
            o.fields['_pos'] = VInt(c.st + clamp(p, 0, c.end - c.st))
            return VInt(o.fields['_pos'].t - c.st)
        self.stubs.update({'Proxy.tell': tell, 'Proxy.seek': seek})
        wh = [VInt(0), VInt(1), VInt(2), VInt(X.fresh(z3.IntSort(), 'whence'))][self.whence]
        if self.whence == 3:
            X.assume(z3.And(wh.t != 0, wh.t != 1, wh.t != 2))
        return {'self': me, 'pos': VInt(self.p), 'whence': wh}

    def post(self, X, ret):
        new = self.me.fields['_pos'].t
        width = self.end - self.st
        if self.whence == 0:
            X.prove('post.seek_set_clamped_to_window',
                    z3.And(new == self.st + clamp(self.p, 0, width), ret.t == new - self.st, self.inv_after()))
        elif self.whence in (1, 2):
            target = (self.pos - self.st) + self.p if self.whence == 1 else width + self.p
            X.prove('post.seek_cur_end_reduce_to_set',
                    z3.And(new == self.st + clamp(target, 0, width), ret.t == new - self.st, self.inv_after()))
        else:
            X.prove('post.unknown_whence_must_raise', z3.BoolVal(False))

    def post_raise(self, X, exc):
        X.prove('raise.only_unknown_whence', z3.BoolVal(exc.pyclass is ValueError and self.whence == 3))


CONTRACTS = [Read(), Tell(), Seek()]
