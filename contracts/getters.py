"""C18 / C12 — the thin request properties between the parsers and the user.

BodyMixin.query   a NEW form dict from the factory; if QUERY_STRING (read through _env_get, default '') is non-empty, parse_qsl is
                  run on exactly that text with setitem bound to THAT dict (so repeated keys are promoted in the dict that is
                  returned); the dict is published under 'ombott.request.get' and returned; an empty query string: no parse
BodyMixin.forms / BodyMixin.files
                  force POST (which fills both views in the environ) and hand out the environ entry of that name - never POST itself
"""
import z3
from pyvc.engine import (Contract, Val, VInt, VBool, VStr, VObj, VFunc, VOpaque, VTuple, VNone, NONE, VExc, Unsupported,
                         PyObj, StrSort)


class Query(Contract):
    props = ('C18',)
    file = 'ombott/request_pkg/body_mixin.py'
    qualname = 'BodyMixin.query'
    assumptions = ('parse_qsl as proved (contracts/C18.py, contracts/collect.py); _env_get decodes the environ text (C20 codec lemma)',)
    expected_labels = ('nonempty.parsed_once_from_the_query_string_into_the_returned_dict', 'empty.nothing_parsed',
                       'post.a_new_dict_published_and_returned')

    def pre(self, X):
        self.qs = X.fresh_str('query_string')
        self.made, self.parsed, self.asked, self.published = [], [], [], []
        c = self

        def factory(X, args, kwargs):
            d = VObj('Forms', {})
            c.made.append((d, list(args[1:]), dict(kwargs)))
            return d

        def env_get(X, args, kwargs):
            c.asked.append((list(args[1:]), dict(kwargs)))
            return c.qs

        def parse_qsl(X, args, kwargs):
            c.parsed.append((list(args), dict(kwargs)))
            return NONE
        self.environ = VObj('Environ', {})
        self.stubs = {'Req._forms_factory': factory, 'Req._env_get': env_get, 'parse_qsl': parse_qsl}
        return {'self': VObj('Req', {'environ': self.environ})}

    def getattr_hook(self, X, obj, attr):
        if isinstance(obj, VObj) and obj.cls == 'Forms' and attr == '__setitem__':
            return VFunc(lambda X2, a, k: NONE, ('setitem_of', id(obj)))
        return None

    def setitem_hook(self, X, obj, key, val):
        if obj is self.environ:
            self.published.append((key, val))
            return True
        return None

    def _asked_ok(self):
        if len(self.asked) != 1 or self.asked[0][1]:
            return False
        a = self.asked[0][0]
        k = z3.simplify(a[0].t) if a and isinstance(a[0], VStr) else None
        if k is None or not z3.is_string_value(k) or k.as_string() != 'QUERY_STRING':
            return False
        if len(a) == 2:
            d = z3.simplify(a[1].t) if isinstance(a[1], VStr) else None
            return d is not None and z3.is_string_value(d) and d.as_string() == ''
        return False

    def post(self, X, ret):
        one = len(self.made) == 1 and not self.made[0][1] and not self.made[0][2] and ret is self.made[0][0]
        pub = len(self.published) == 1 and isinstance(self.published[0][0], VStr) \
            and z3.is_string_value(z3.simplify(self.published[0][0].t)) \
            and z3.simplify(self.published[0][0].t).as_string() == 'ombott.request.get' and self.published[0][1] is ret
        X.prove('post.a_new_dict_published_and_returned', z3.BoolVal(bool(one and pub and self._asked_ok())))
        if self.parsed:
            a, k = self.parsed[0]
            ok = (len(self.parsed) == 1 and len(a) == 1 and a[0] is self.qs and set(k) == {'setitem'}
                  and isinstance(k['setitem'], VFunc) and one and k['setitem'].name == ('setitem_of', id(ret)))
            X.prove('nonempty.parsed_once_from_the_query_string_into_the_returned_dict',
                    z3.And(z3.BoolVal(bool(ok)), z3.Length(self.qs.t) > 0))
        else:
            X.prove('empty.nothing_parsed', z3.Length(self.qs.t) == 0)

    def post_raise(self, X, exc):
        X.prove('raises.nothing', z3.BoolVal(False))


class _View(Contract):
    props = ('C12', 'C07')
    file = 'ombott/request_pkg/body_mixin.py'
    view = None
    expected_labels = ('post.the_environ_entry_of_this_view_after_POST_was_forced',)

    def pre(self, X):
        self.forced = []
        self.entry = VObj('Forms', {})
        self.environ = VObj('Environ', {})
        self.read = []
        return {'self': VObj('Req', {'environ': self.environ})}

    def getattr_hook(self, X, obj, attr):
        if isinstance(obj, VObj) and obj.cls == 'Req' and attr == 'POST':
            self.forced.append(len(self.read))
            return VObj('PostDict', {})
        return None

    def getitem_hook(self, X, obj, key):
        if obj is self.environ:
            self.read.append(key)
            return self.entry
        return None

    def post(self, X, ret):
        k = z3.simplify(self.read[0].t) if len(self.read) == 1 and isinstance(self.read[0], VStr) else None
        ok = (ret is self.entry and self.forced and self.forced[0] == 0 and k is not None and z3.is_string_value(k)
              and k.as_string() == 'ombott.request.' + self.view)
        X.prove('post.the_environ_entry_of_this_view_after_POST_was_forced', z3.BoolVal(bool(ok)))

    def post_raise(self, X, exc):
        X.prove('raises.nothing', z3.BoolVal(False))


class FormsView(_View):
    qualname = 'BodyMixin.forms'
    view = 'forms'


class FilesView(_View):
    qualname = 'BodyMixin.files'
    view = 'files'


CONTRACTS = [Query(), FormsView(), FilesView()]
