"""C20 — framework error pages: request text reaches the page only escaped.

error_render.render(err_resp, url, debug)
    every template line is formatted with a context in which `url` is repr(html.escape(url)) - the request URL enters in no
    other way - and, with debug off, `exception` and `traceback` are the constant placeholder; `e` is the error object.
Ombott.default_error_handler(res)
    JSON requested -> json.dumps(dict(body, exception=repr(..), traceback)) and Content-Type application/json;
    otherwise render(res, request.url, config.debug) - the debug flag is the configured one, never a constant True.
Together with (a) the complete per-code-point enumeration of html.escape / html_escape (frames/codec_lemma.py), (b) the
template check (frames/error_sites.py: error.html references only e.status, e.body, url, exception, traceback) and (c) the
literal-body check of every framework HTTPError(...) site, this gives the statement; str.format does not re-scan
substituted values and repr() of a string without quotes adds only quotes and backslash escapes (assumed, Python semantics).
"""
import z3
from pyvc.engine import (Contract, Val, VInt, VBool, VStr, VObj, VFunc, VOpaque, VJoin, VSeq, VTuple, VNone, NONE, Unsupported, PyObj, StrSort)

S = z3.StringVal


class TemplateCache(Val):
    """the module level list `_html_lns`: shared by all threads; it may only ever be replaced as a whole"""

    def __init__(self, seq):
        self.seq = seq

    def truth(self, X):
        return z3.Length(self.seq.t) > 0

    def havoc(self, X, hint):
        return TemplateCache(VSeq(X.fresh(self.seq.t.sort(), hint), self.seq.wrap))

    def as_seq(self):
        return self.seq


class TemplateFile(Val):
    def __init__(self, seq):
        self.seq = seq

    def as_seq(self):
        return self.seq


class _AnyLoop(dict):
    def get(self, k, default=None):
        return lambda X: []


class Render(Contract):
    props = ('C20', 'C08', 'C09')
    file = 'ombott/error_render.py'
    qualname = 'render'
    assumptions = ('str.format substitutes field values without re-scanning them; repr() of a str free of quotes adds only the '
                   'surrounding quotes and backslash escapes (Python semantics)',
                   'the template lines come from the constant file error.html (request independent)')
    expected_labels = ('format.url_only_escaped_and_quoted', 'format.no_exception_text_unless_debug', 'post.page_is_joined_lines',
                       'cache.filled_atomically')
    loop_inv = _AnyLoop()

    def pre(self, X):
        d = X.driver
        self.url = X.fresh(StrSort, 'url')
        self.escape = d.uf('html_escape', StrSort, StrSort)
        self.repr_s = d.uf('repr_str', StrSort, StrSort)
        self.fmt = d.uf('format_line', StrSort, StrSort, PyObj, StrSort, StrSort, StrSort)
        self.debug = X.choose(2, 'debug?') == 1
        self.loaded = X.choose(2, 'template already cached?') == 1
        self.err = VOpaque(X.fresh(PyObj, 'err_resp'), 'err')
        text = d.uf('line_text', PyObj, StrSort)
        self.line = lambda t: VStr(text(t))   # noqa: E731   (a sequence of opaque line objects: Seq(String) is not decidable)
        self.lines = VSeq(X.fresh(z3.SeqSort(PyObj), 'cached_lines'), self.line)
        if self.loaded:
            X.assume(z3.Length(self.lines.t) > 0)
        else:
            X.assume(z3.Length(self.lines.t) == 0)
        c = self
        self.n_format = 0

        def escape(X, args, kwargs):
            return VStr(c.escape(args[-1].t))

        def hopen(X, args, kwargs):
            return TemplateFile(VSeq(X.fresh(z3.SeqSort(PyObj), 'file_lines'), c.line))
        self.stubs = {'Sanitize.escape': escape, 'HtmlPath.open': hopen}
        errobj = VObj('ErrResp', {'traceback': VOpaque(X.fresh(PyObj, 'tb'), 'tb'), 'exception': VOpaque(X.fresh(PyObj, 'exc'), 'exc'),
                                  'body': X.fresh_str('err_body'), 'status': X.fresh_str('err_status')})
        self.errobj = errobj
        self.errobj = errobj
        return {'err_resp': errobj, 'url': VStr(self.url), 'debug': VBool(self.debug),
                'sanitize_html': VObj('Sanitize', {}), 'html': VObj('HtmlPath', {}), '_html_lns': TemplateCache(self.lines)}

    def setattr_hook(self, X, obj, attr, val):
        if obj is getattr(self, 'errobj', None):
            # the error object may be one shared by all requests (errors_map entries): rendering reads it, never writes it
            X.prove('frame.the_error_object_is_read_not_written', z3.BoolVal(False))
            return True
        return None

    def builtin_hook(self, X, name, args, kwargs):
        if name == 'repr':
            a = args[0]
            if isinstance(a, VStr):
                return VStr(self.repr_s(a.t))
            return VStr(X.driver.uf('repr_obj', PyObj, StrSort)(a.t)) if isinstance(a, VOpaque) else None
        if name == 'type':
            return VOpaque(X.fresh(PyObj, 'type'), 'type')
        return None

    def construct_hook(self, X, pyclass, args, kwargs):
        if pyclass is dict and not args:
            return VObj('StrDict', dict(kwargs))
        return None

    def genexp_hook(self, X, node):
        # [ln.strip() for ln in s]: the stripped template lines, request independent
        return VSeq(X.fresh(z3.SeqSort(PyObj), 'template_lines'), self.line)

    def setslice_hook(self, X, target, val):
        # _html_lns[:] = [...]   (fills the module level cache from the constant template file)
        import ast
        if isinstance(target.value, ast.Name) and target.value.id == '_html_lns' and isinstance(val, VSeq) \
                and target.slice.lower is None and target.slice.upper is None:
            # one assignment of the complete list: other threads see the old (empty) or the new (complete) content
            X.prove('cache.filled_atomically', z3.BoolVal(True))
            X.env['_html_lns'] = TemplateCache(val)
            return True
        return False

    def havoc_override(self, X, k, name):
        if name == 'out':
            return VJoin('str', X.fresh(StrSort, 'out'))
        return None

    def method_hook(self, X, obj, name, args, kwargs):
        if isinstance(obj, TemplateFile) and name == 'readlines':
            return VOpaque(X.fresh(PyObj, 'file_lines'), 'file_lines')
        if name == 'strip' and isinstance(obj, VStr) and not args:
            return VStr(X.driver.uf('strip_ws', StrSort, StrSort)(obj.t))
        if isinstance(obj, TemplateCache):
            # append / extend / insert / clear ...: a piecemeal fill of a cache that other threads read meanwhile
            X.prove('cache.filled_atomically', z3.BoolVal(False))
            return NONE
        if name == 'format' and isinstance(obj, VStr):
            self.n_format += 1
            u = kwargs.get('url')
            X.prove('format.url_only_escaped_and_quoted',
                    z3.And(z3.BoolVal(not args and set(kwargs) == {'e', 'exception', 'traceback', 'url'}),
                           u.t == self.repr_s(self.escape(self.url))) if isinstance(u, VStr) else z3.BoolVal(False))
            ex, tb = kwargs.get('exception'), kwargs.get('traceback')
            const = lambda v: isinstance(v, VStr) and z3.is_string_value(z3.simplify(v.t))   # noqa: E731
            X.prove('format.no_exception_text_unless_debug', z3.BoolVal(self.debug or (const(ex) and const(tb))))
            X.prove('format.error_object_is_the_argument', z3.BoolVal(kwargs.get('e') is self.errobj))
            return X.fresh_str('formatted_line')
        return None

    def post(self, X, ret):
        X.prove('post.page_is_joined_lines', z3.BoolVal(isinstance(ret, VStr)))

    def post_raise(self, X, exc):
        X.prove('raises.nothing', z3.BoolVal(False))


class DefaultErrorHandler(Contract):
    props = ('C20', 'C02', 'C08', 'C09')
    file = 'ombott/ombott.py'
    qualname = 'Ombott.default_error_handler'
    assumptions = ('json.dumps of a dict of str/None values returns valid JSON (library)',
                   'the error object handed in may be shared by all requests (the configured errors_map entries are): writing a header '
                   'or attribute on it instead of on the response is a leak between requests')
    expected_labels = ('json.body_is_json_dumps_of_a_dict', 'json.content_type_set', 'html.rendered_with_request_url_and_configured_debug',
                       'post.returns_the_page_text_itself')

    def pre(self, X):
        self.want_json = X.choose(2, 'JSON requested?') == 1
        self.url = X.fresh_str('request_url')
        self.debug = X.fresh_bool('config_debug')
        c = self
        self.calls = []

        def dumps(X, args, kwargs):
            # default options: the text is pure ASCII (ensure_ascii), hence encodable whatever the exception text contains
            X.prove('json.dumps_with_ascii_safe_defaults', z3.BoolVal(not kwargs))
            c.calls.append(('dumps', args))
            return X.fresh_str('json_text')

        def render(X, args, kwargs):
            c.calls.append(('render', args))
            return X.fresh_str('html_text')
        self.stubs = {'json.dumps': dumps, 'error_render.render': render}
        self.hdr = VObj('Headers', {})
        me = VObj('App', {'request': VObj('Request', {'is_json_requested': VBool(self.want_json), 'url': self.url}),
                          'response': VObj('Response', {'headers': self.hdr}),
                          'config': VObj('Config', {'debug': self.debug, 'catchall': X.fresh_bool('config_catchall')})})
        self.res = VObj('ErrResp', {'body': X.fresh_str('body'), 'status': X.fresh_str('status'), 'status_code': X.fresh_int('code'),
                                    'exception': VOpaque(X.fresh(PyObj, 'exc')),
                                    'traceback': VOpaque(X.fresh(PyObj, 'tb')),
                                    # the error's own header stores: it may be an object shared by all requests (errors_map entries)
                                    'headers': VObj('ErrHeaders', {}), '_headers': VObj('ErrHeaders', {}),
                                    '_cookies': VObj('ErrHeaders', {})})
        self.stored = {}
        return {'self': me, 'res': self.res}

    def builtin_hook(self, X, name, args, kwargs):
        if name == 'repr':
            return X.fresh_str('repr')
        return None

    def construct_hook(self, X, pyclass, args, kwargs):
        if pyclass is dict and not args:
            return VObj('StrDict', dict(kwargs))
        if getattr(pyclass, '__name__', '') in ('HTTPResponse', 'HTTPError'):
            return VObj('NewResponse', {})
        return None

    def setitem_hook(self, X, obj, key, val):
        if obj is self.hdr:
            self.stored[z3.simplify(key.t).as_string()] = val
            return True
        if isinstance(obj, VObj) and obj.cls == 'ErrHeaders':
            X.prove('frame.the_error_object_is_read_not_written', z3.BoolVal(False))
            return True
        return False

    def setattr_hook(self, X, obj, attr, val):
        if obj is self.res:
            X.prove('frame.the_error_object_is_read_not_written', z3.BoolVal(False))
            return True
        return None

    def post(self, X, ret):
        # the handler returns the page TEXT: _cast applies the raised error (status, Allow and the other headers of the error) to
        # the response and then sends this text - a response object returned here would be applied over it and drop those headers
        X.prove('post.returns_the_page_text_itself', z3.BoolVal(isinstance(ret, VStr)))
        if self.want_json:
            ok = len(self.calls) == 1 and self.calls[0][0] == 'dumps' and isinstance(self.calls[0][1][0], VObj) \
                and self.calls[0][1][0].cls == 'StrDict'
            X.prove('json.body_is_json_dumps_of_a_dict', z3.BoolVal(ok))
            ct = self.stored.get('Content-Type')
            X.prove('json.content_type_set', ct.t == S('application/json') if isinstance(ct, VStr) else z3.BoolVal(False))
        else:
            ok = len(self.calls) == 1 and self.calls[0][0] == 'render'
            a = self.calls[0][1] if ok else []
            X.prove('html.rendered_with_request_url_and_configured_debug',
                    z3.And(z3.BoolVal(a[0] is self.res), a[1].t == self.url.t, a[2].t == self.debug.t)
                    if ok and len(a) == 3 and isinstance(a[1], VStr) and isinstance(a[2], VBool) else z3.BoolVal(False))

    def post_raise(self, X, exc):
        X.prove('raises.nothing', z3.BoolVal(False))


CONTRACTS = [Render(), DefaultErrorHandler()]
