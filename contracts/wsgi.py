"""Ombott._handle and Ombott.wsgi (C03; the dominance obligation F4 of C09).

Callees (hooks, routing, the handler, _cast, the response's headerlist, start_response) are opaque: each may return, raise an
arbitrary Exception, raise an HTTPResponse, or raise KeyboardInterrupt.  An event log records the calls in order.

_handle(environ)
   F4  request.__init__(environ) and response.__init__() are the first two events on EVERY path (also the early 400 for an
       undecodable path), so nothing of an earlier request is visible afterwards;
   H1  emit('before_request') precedes routing, routing precedes the handler;
   H2  once the inner try is entered, emit('after_request') happens exactly once, whatever was raised before it;
   H3  an HTTPResponse raised anywhere after the initialisation is RETURNED; any other Exception becomes a returned
       HTTPError(500, ...) and its traceback text is written to wsgi.errors; only KeyboardInterrupt/SystemExit/MemoryError escape.
wsgi(environ, start_response)
   W1  normal path: start_response is called exactly once, after _cast returned, with (response._status_line, response.headerlist);
   W2  for status 100/101/204/304 or method HEAD the returned iterable is [] and a close() of the cast result is called exactly once;
   W3  exception path with catchall: start_response('500 …', headers, exc_info) and a one-element body (empty for HEAD);
       with catchall off the exception propagates; KeyboardInterrupt/SystemExit/MemoryError always propagate;
   W4  the last-resort page interpolates the path only through html_escape.
"""
import z3
from pyvc.engine import (Contract, Val, VInt, VBool, VStr, VBytes, VObj, VFunc, VOpaque, VTuple, VList, VClass, VExc, VNone, NONE,
                         Unsupported, PyObj, StrSort, BytesSort)

S = z3.StringVal


class _Events(Contract):
    file = 'ombott/ombott.py'

    def outcome(self, X, what, allow=('ok', 'exc', 'resp', 'kbd')):
        k = X.choose(len(allow), f'{what}: ' + ' | '.join(allow))
        kind = allow[k]
        self.log.append((what, kind))
        if kind == 'exc':
            X.raise_(RuntimeError, what)
        if kind == 'resp':
            X.raise_(self.HTTPResponse, what)
        if kind == 'kbd':
            X.raise_(KeyboardInterrupt, what)
        return kind

    def names(self):
        return [w for w, _ in self.log]


class Handle(_Events):
    props = ('C03', 'C08', 'C09', 'C10')
    qualname = 'Ombott._handle'
    max_paths = 3000
    assumptions = ('hooks, routing and the handler are opaque calls that may return or raise anything',
                   'str.encode("latin1") of a WSGI path succeeds; bytes.decode("utf8") raises only UnicodeDecodeError')
    expected_labels = ('F0.environ_bound_to_this_application', 'F4.request_and_response_initialised_first', 'H1.before_hooks_then_routing_then_handler',
                       'H2.after_hooks_exactly_once', 'H3.responses_returned_failures_become_500', 'H3.only_interrupts_escape',
                       'F5.environ_without_PATH_INFO_escapes_before_any_per_request_state_is_used')

    def pre(self, X):
        g = X.globals
        self.HTTPResponse, self.HTTPError = g['HTTPResponse'], g['HTTPError']
        self.log = []
        self.errors_written = []
        self.no_path_info = False
        c = self

        def req_init(X, args, kwargs):
            X.prove('F4.request_initialised_with_this_environ', z3.BoolVal(len(args) == 2 and args[1] is c.environ))
            c.outcome(X, 'request.__init__', ('ok', 'exc'))
            return NONE

        def resp_init(X, args, kwargs):
            c.outcome(X, 'response.__init__', ('ok', 'exc'))
            return NONE

        def emit(X, args, kwargs):
            name = z3.simplify(args[1].t).as_string()
            c.outcome(X, 'emit:' + name)
            return NONE

        def to_route(X, args, kwargs):
            kind = c.outcome(X, 'to_route')
            if X.choose(2, 'route found?') == 1:
                return VTuple([VTuple([VOpaque(X.fresh(PyObj, 'route')), VOpaque(X.fresh(PyObj, 'kwargs')), VOpaque(X.fresh(PyObj, 'hooks'))]), NONE])
            return VTuple([NONE, VOpaque(X.fresh(PyObj, 'error404_405'))])

        def handler(X, args, kwargs):
            c.outcome(X, 'handler')
            c.result = VOpaque(X.fresh(PyObj, 'handler_result'), 'result')
            return c.result

        def write(X, args, kwargs):
            c.errors_written.append(args[1])
            return NONE
        self.result = None
        def env_setdefault(X, args, kwargs):
            # dict.setdefault: stores only when the key is absent - an environ handed over by another application may carry it
            key = z3.simplify(args[1].t).as_string()
            if X.choose(2, f'environ already has {key}?') == 1:
                return VOpaque(X.fresh(PyObj, 'existing'), 'existing')
            c.envstore[key] = args[2]
            return args[2]
        self.stubs = {'Environ.setdefault': env_setdefault,
                      'Request.__init__': req_init, 'Response.__init__': resp_init, 'App.emit': emit, 'App.to_route': to_route,
                      'App.handler': handler, 'format_exc': lambda X, a, k: X.fresh_str('stacktrace'), 'Errors.write': write}
        self.environ = VObj('Environ', {})
        self.req = VObj('Request', {'path': X.fresh_str('path'), 'method': X.fresh_str('method')})
        self.resp = VObj('Response', {})
        self.envstore = {}
        return {'self': VObj('App', {'request': self.req, 'response': self.resp}), 'environ': self.environ}

    def getitem_hook(self, X, obj, key):
        if obj is self.environ:
            k = z3.simplify(key.t).as_string()
            if k == 'PATH_INFO':
                # PEP 3333 lets a server omit PATH_INFO when it is empty
                if X.choose(2, 'environ has PATH_INFO?') == 1:
                    self.no_path_info = True
                    X.raise_(KeyError, 'PATH_INFO')
                return X.fresh_str('PATH_INFO')
            if k == 'wsgi.errors':
                return VObj('Errors', {})
        return None

    def setitem_hook(self, X, obj, key, val):
        if obj is self.environ:
            self.envstore[z3.simplify(key.t).as_string()] = val
            return True
        return False

    def method_hook(self, X, obj, name, args, kwargs):
        if name == 'encode' and isinstance(obj, VStr):
            return VBytes(X.driver.uf('latin1', StrSort, BytesSort)(obj.t))
        if name == 'decode' and isinstance(obj, VBytes):
            if X.choose(2, 'path decodes as UTF-8?') == 1:
                self.log.append(('decode', 'undecodable'))
                X.raise_(UnicodeDecodeError, 'path')
            return VStr(X.driver.uf('utf8', BytesSort, StrSort)(obj.t))
        return None

    def construct_hook(self, X, pyclass, args, kwargs):
        if pyclass is self.HTTPError:
            return VObj('HTTPError', {'code': args[0], 'args': VTuple(args)})
        return None

    # ---- common obligations, evaluated at every exit
    def _common(self, X, how, value):
        names = self.names()
        inits_ok = [k for w, k in self.log[:2]]
        # F4: the first two events are the two initialisations (or the first one failed)
        if len(names) >= 2:
            f4 = names[0] == 'request.__init__' and names[1] == 'response.__init__'
        else:
            f4 = names[:1] == ['request.__init__'] and self.log[0][1] != 'ok'
        X.prove('F4.request_and_response_initialised_first', z3.BoolVal(f4))
        # F0: whatever environ is served (a fresh one, or one derived from another application's request), request.app is THIS application
        X.prove('F0.environ_bound_to_this_application', z3.BoolVal(self.envstore.get('ombott.app') is X.env.get('self')))
        # H1 order
        order = [n for n in names if n in ('emit:before_request', 'to_route', 'handler')]
        want = ['emit:before_request', 'to_route', 'handler'][:len(order)]
        X.prove('H1.before_hooks_then_routing_then_handler', z3.BoolVal(order == want))
        # H2 after hooks exactly once when the inner try was entered
        entered = 'emit:before_request' in names
        X.prove('H2.after_hooks_exactly_once', z3.BoolVal(names.count('emit:after_request') == (1 if entered else 0)
                                                          and (not entered or names[-1] == 'emit:after_request')))

    def post(self, X, ret):
        self._common(X, 'return', ret)
        kinds = [k for _, k in self.log]
        bad = [k for k in kinds if k not in ('ok',)]
        if 'undecodable' in kinds:
            ok = isinstance(ret, VObj) and ret.cls == 'HTTPError' and z3.simplify(ret.fields['code'].t).as_long() == 400 \
                and self.names()[:2] == ['request.__init__', 'response.__init__']
        elif not bad:
            ok = ret is self.result
        else:
            # the LAST failure decides (a failing after-hook replaces an earlier failure)
            last = [k for k in kinds if k != 'ok'][-1]
            if last == 'resp':
                ok = isinstance(ret, VExc) and ret.pyclass is self.HTTPResponse
            elif last == 'exc':
                ok = (isinstance(ret, VObj) and ret.cls == 'HTTPError' and z3.simplify(ret.fields['code'].t).as_long() == 500
                      and len(self.errors_written) == 1)
            else:
                ok = False
        X.prove('H3.responses_returned_failures_become_500', z3.BoolVal(bool(ok)))

    def post_raise(self, X, exc):
        if self.no_path_info and exc.pyclass is KeyError:
            # nothing of this thread's request / response state has been re-initialised yet: the failure must leave through the
            # stateless last-resort page of wsgi, not through an error page built from the previous request's objects
            X.prove('F5.environ_without_PATH_INFO_escapes_before_any_per_request_state_is_used', z3.BoolVal(not self.log))
            return
        self._common(X, 'raise', exc)
        X.prove('H3.only_interrupts_escape', z3.BoolVal(exc.pyclass is KeyboardInterrupt))


class Wsgi(_Events):
    props = ('C03', 'C20')
    qualname = 'Ombott.wsgi'
    max_paths = 4000
    assumptions = ('_handle, _cast, response.headerlist, start_response and close() are opaque calls that may return or raise',
                   'domain_map is not configured (the default); with a domain_map only the PATH_INFO prefix is rewritten before the same code runs')
    expected_labels = ('W1.start_response_once_after_cast', 'W2.no_body_and_closed_once', 'W3.last_resort_response',
                       'W4.path_only_through_html_escape')

    def pre(self, X):
        g = X.globals
        self.HTTPResponse = g['HTTPResponse']
        self.log = []
        self.sr_calls = []
        self.closed = 0
        self.escaped_args = []
        self.catchall = X.choose(2, 'catchall?') == 1
        self.debug = X.choose(2, 'debug?') == 1
        self.status = X.fresh(z3.IntSort(), 'status_code')
        self.method = X.fresh(StrSort, 'REQUEST_METHOD')
        self.has_close = X.choose(2, 'cast result has close()?') == 1
        c = self

        def handle(X, args, kwargs):
            c.outcome(X, '_handle', ('ok', 'exc', 'kbd'))
            return VOpaque(X.fresh(PyObj, 'handled'), 'handled')

        def cast(X, args, kwargs):
            c.outcome(X, '_cast', ('ok', 'exc'))
            c.out = VObj('CastResult', {})
            return c.out

        def start_response(X, args, kwargs):
            c.sr_calls.append(args)
            c.log.append(('start_response', 'call'))
            if len(args) == 2 and X.choose(2, 'start_response raises?') == 1:      # (a call with exc_info is assumed not to raise)
                c.log.append(('start_response', 'exc'))
                X.raise_(RuntimeError, 'start_response')
            return NONE

        def close(X, args, kwargs):
            c.closed += 1
            c.outcome(X, 'close', ('ok', 'exc'))
            return NONE

        def html_escape(X, args, kwargs):
            c.escaped_args.append(args[0])
            return X.fresh_str('escaped')

        def env_get(X, args, kwargs):
            k = z3.simplify(args[1].t).as_string()
            if k == 'REQUEST_METHOD':
                return VStr(c.method)
            if k == 'PATH_INFO':
                c.path_value = X.fresh_str('PATH_INFO')
                return c.path_value
            return NONE
        self.out = None
        self.path_value = None
        self.stubs = {'App._handle': handle, 'App._cast': cast, 'start_response': start_response, 'html_escape': html_escape,
                      'Environ.get': env_get, 'Errors.write': lambda X, a, k: NONE, 'sys.exc_info': lambda X, a, k: VOpaque(X.fresh(PyObj, 'exc_info'), 'exc_info'),
                      'format_exc': lambda X, a, k: X.fresh_str('tb'), 'tob': lambda X, a, k: VBytes(X.fresh(BytesSort, 'page')),
                      'repr': lambda X, a, k: X.fresh_str('repr')}
        self.environ = VObj('Environ', {})
        self.resp = VObj('Response', {'_status_code': VInt(self.status), '_status_line': X.fresh_str('status_line')})
        cfg = VObj('Config', {'domain_map': NONE, 'catchall': VBool(self.catchall), 'debug': VBool(self.debug), 'app_name_header': VStr('')})
        self.headerlist = VOpaque(X.fresh(PyObj, 'headerlist'), 'headerlist')
        return {'self': VObj('App', {'config': cfg, 'response': self.resp}), 'environ': self.environ,
                'start_response': VFunc(start_response, 'start_response')}

    def getattr_hook(self, X, obj, attr):
        if obj is self.resp and attr == 'headerlist':
            self.outcome(X, 'headerlist', ('ok', 'exc'))
            return self.headerlist
        return None

    def getitem_hook(self, X, obj, key):
        if obj is self.environ:
            k = z3.simplify(key.t).as_string()
            if k == 'REQUEST_METHOD':
                return VStr(self.method)
            if k == 'wsgi.errors':
                return VObj('Errors', {})
        return None

    def builtin_hook(self, X, name, args, kwargs):
        if name == 'getattr' and len(args) == 3 and args[0] is self.out and z3.simplify(args[1].t).as_string() == 'close':
            return VFunc(self.stubs_close, 'close') if self.has_close else args[2]
        return None

    def stubs_close(self, X, args, kwargs):
        self.closed += 1
        self.outcome(X, 'close', ('ok', 'exc'))
        return NONE

    def _failed(self):
        return [w for w, k in self.log if k in ('exc',)]

    def post(self, X, ret):
        head = self.method == S('HEAD')
        nobody = z3.Or(head, *[self.status == c for c in (100, 101, 204, 304)])
        failed = self._failed()
        if not failed:
            ok_sr = (len(self.sr_calls) == 1 and len(self.sr_calls[0]) == 2 and self.sr_calls[0][0] is self.resp.fields['_status_line']
                     and self.sr_calls[0][1] is self.headerlist and self.names().index('start_response') > self.names().index('_cast'))
            X.prove('W1.start_response_once_after_cast', z3.BoolVal(bool(ok_sr)))
            empty = isinstance(ret, VList) and not ret.items
            same = ret is self.out
            X.prove('W2.no_body_and_closed_once',
                    z3.If(nobody, z3.BoolVal(empty and self.closed == (1 if self.has_close else 0)),
                          z3.BoolVal(same and self.closed == 0)))
        else:
            last = self.sr_calls[-1] if self.sr_calls else ()
            ok = (self.catchall and len(last) == 3 and isinstance(last[0], VStr)
                  and z3.is_string_value(z3.simplify(last[0].t)) and z3.simplify(last[0].t).as_string().startswith('500 ')
                  and isinstance(ret, VList))
            X.prove('W3.last_resort_response', z3.And(z3.BoolVal(bool(ok)), z3.If(head, z3.BoolVal(isinstance(ret, VList) and len(ret.items) == 0),
                                                                                    z3.BoolVal(isinstance(ret, VList) and len(ret.items) == 1))))
            X.prove('W4.path_only_through_html_escape',
                    z3.BoolVal(self.path_value is not None and len(self.escaped_args) >= 1 and self.escaped_args[0] is self.path_value))

    def post_raise(self, X, exc):
        failed = self._failed()
        if exc.pyclass is KeyboardInterrupt:
            X.prove('W3.interrupts_propagate', z3.BoolVal(('_handle', 'kbd') in self.log))
        else:
            if not (bool(failed) and not self.catchall):
                X.record(debug_log=list(self.log), exc=str(exc.pyclass), tag=str(exc.tag))
            X.prove('W3.exception_escapes_only_without_catchall', z3.BoolVal(bool(failed) and not self.catchall))


CONTRACTS = [Handle(), Wsgi()]
