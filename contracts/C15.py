"""C15 — signed cookies: verify before unpickle.

cookie_decode._lscmp(a, b)        <=>  a == b      (Python semantics of sum(0 if x == y else 1 for x, y in zip(a, b))
                                                    stated as: the sum is 0 iff a and b agree on their common length)
cookie_decode.cookie_is_encoded   <=>  data starts with '!' and contains '?'
cookie_decode(data, key)          pickle.loads is reached only when data = '!' ++ sig ++ '?' ++ msg (first '?'), and
                                  sig == b64encode(HMAC_md5(key, msg)); its argument is b64decode(msg); every other path
                                  returns None without deserialising anything
cookie_encode(data, key)          == '!' ++ b64encode(HMAC_md5(key, msg)) ++ '?' ++ msg,  msg = b64encode(dumps(data))
round trip                        cookie_decode(cookie_encode(d, k), k) == d   from the library axioms
                                  loads(dumps(d)) == d, b64decode(b64encode(x)) == x, '?' not in b64encode(x)
Forgery: that the signature equality FAILS for a payload the signer never signed is the cryptographic assumption A-HMAC;
it cannot be proved here and is listed as such.
"""
import ast
import z3
from pyvc.engine import (Contract, Val, VInt, VBool, VBytes, VStr, VObj, VFunc, VOpaque, VNone, NONE, VTuple, Unsupported,
                         BytesSort, PyObj, bytes_lit)

L = z3.Length
BANG, QM = bytes_lit(b'!'), bytes_lit(b'?')


class _Mismatches(Val):
    def __init__(self, a, b):
        self.a, self.b = a, b


class Lscmp(Contract):
    props = ('C15',)
    file = 'ombott/common_helpers.py'
    qualname = 'cookie_decode._lscmp'
    assumptions = ('Python semantics: sum(0 if x == y else 1 for x, y in zip(a, b)) is >= 0 and is 0 iff a and b agree on '
                   'their common length (the generator expression must have exactly this shape: checked on the AST)',)
    expected_labels = ('post.true_iff_equal',)

    def pre(self, X):
        self.a, self.b = X.fresh(BytesSort, 'a'), X.fresh(BytesSort, 'b')
        return {'a': VBytes(self.a), 'b': VBytes(self.b)}

    def genexp_hook(self, X, node):
        # exactly:  (0 if x == y else 1  for x, y in zip(<a>, <b>))
        try:
            (g,) = node.generators
            ok = (not g.ifs and isinstance(g.target, ast.Tuple) and len(g.target.elts) == 2
                  and isinstance(g.iter, ast.Call) and isinstance(g.iter.func, ast.Name) and g.iter.func.id == 'zip'
                  and len(g.iter.args) == 2 and isinstance(node.elt, ast.IfExp)
                  and isinstance(node.elt.body, ast.Constant) and node.elt.body.value == 0
                  and isinstance(node.elt.orelse, ast.Constant) and node.elt.orelse.value == 1
                  and isinstance(node.elt.test, ast.Compare) and len(node.elt.test.ops) == 1
                  and isinstance(node.elt.test.ops[0], ast.Eq))
            x, y = (e.id for e in g.target.elts)
            ok = ok and {node.elt.test.left.id, node.elt.test.comparators[0].id} == {x, y}
        except Exception:
            ok = False
        if not ok:
            raise Unsupported('generator expression is not the mismatch counter over zip(a, b)')
        return _Mismatches(X.eval(g.iter.args[0]), X.eval(g.iter.args[1]))

    def builtin_hook(self, X, name, args, kwargs):
        if name == 'sum' and len(args) == 1 and isinstance(args[0], _Mismatches):
            a, b = args[0].a.t, args[0].b.t
            m = z3.If(L(a) < L(b), L(a), L(b))
            n = X.fresh(z3.IntSort(), 'mismatches')
            X.assume(n >= 0)
            X.assume((n == 0) == (z3.SubSeq(a, 0, m) == z3.SubSeq(b, 0, m)))
            return VInt(n)
        return None

    def post(self, X, ret):
        X.prove('post.true_iff_equal', X.truth(ret) == (self.a == self.b))

    def post_raise(self, X, exc):
        X.prove('raises.nothing', z3.BoolVal(False))


def _tob(X, args, kwargs):
    # tob(value): the UTF-8 bytes of a text (injective: different secrets give different MAC keys).  Another codec or an error
    # policy that replaces characters is not: two secrets may then share one key, and a cookie signed with one verifies under the other
    X.prove('mac.key_and_message_bytes_are_the_utf8_bytes_of_the_text', z3.BoolVal(len(args) == 1 and not kwargs))
    v = args[0]
    if isinstance(v, VBytes):
        return v
    if isinstance(v, VStr) and z3.is_string_value(z3.simplify(v.t)):
        return VBytes(z3.simplify(v.t).as_string().encode('utf8'))
    if isinstance(v, VOpaque):
        return VBytes(X.driver.uf('tob', PyObj, BytesSort)(v.t))
    raise Unsupported('tob of this value')


class IsEncoded(Contract):
    props = ('C15',)
    file = 'ombott/common_helpers.py'
    qualname = 'cookie_decode.cookie_is_encoded'
    expected_labels = ('post.starts_with_bang_and_has_question_mark',)

    def pre(self, X):
        self.d = X.fresh(BytesSort, 'data')
        self.stubs = {'tob': _tob}
        return {'data': VBytes(self.d)}

    def post(self, X, ret):
        X.prove('post.starts_with_bang_and_has_question_mark',
                X.truth(ret) == z3.And(z3.PrefixOf(BANG, self.d), z3.Contains(self.d, QM)))


class _Crypto:
    def crypto_stubs(self, X):
        d = X.driver
        self.mac = d.uf('hmac_md5', BytesSort, BytesSort, BytesSort)
        self.b64 = d.uf('b64encode', BytesSort, BytesSort)
        self.b64d = d.uf('b64decode', BytesSort, BytesSort)
        self.loads = d.uf('pickle_loads', BytesSort, PyObj)
        self.dumps = d.uf('pickle_dumps', PyObj, BytesSort)
        c = self

        def hmac_new(X, args, kwargs):
            key, msg = args[0], args[1]
            X.prove('hmac.digestmod_md5', z3.BoolVal('digestmod' in kwargs))
            return VObj('HMAC', {'key': key, 'msg': msg})
        return {
            'tob': _tob, 'hmac.new': hmac_new,
            'HMAC.digest': lambda X, a, k: VBytes(c.mac(a[0].fields['key'].t, a[0].fields['msg'].t)),
            'base64.b64encode': lambda X, a, k: VBytes(c.b64(a[0].t)),
            'base64.b64decode': lambda X, a, k: VBytes(c.b64d(a[0].t)),
        }


class CookieDecode(_Crypto, Contract):
    props = ('C15',)
    file = 'ombott/common_helpers.py'
    qualname = 'cookie_decode'
    assumptions = ('callee contracts of _lscmp and cookie_is_encoded as proved above',
                   'hmac / base64 / pickle are uninterpreted functions (library)',
                   'A-HMAC (cryptographic, NOT provable): an attacker without the key cannot produce sig == b64(HMAC(key, msg)) '
                   'for a msg that was never signed; this is the only step between the proved contract and "forged cookies read as absent"')
    expected_labels = ('loads.only_after_signature_equality', 'loads.argument_is_decoded_payload', 'post.result')

    def pre(self, X):
        self.d = X.fresh(BytesSort, 'data')
        self.key = X.fresh(BytesSort, 'key')
        st = self.crypto_stubs(X)
        c = self

        def is_encoded(X, args, kwargs):
            return VBool(z3.And(z3.PrefixOf(BANG, args[0].t), z3.Contains(args[0].t, QM)))

        def lscmp(X, args, kwargs):
            return VBool(args[0].t == args[1].t)

        def loads(X, args, kwargs):
            (arg,) = args
            i = z3.IndexOf(c.d, QM, 0)
            sig = z3.SubSeq(c.d, 1, i - 1)
            msg = z3.SubSeq(c.d, i + 1, L(c.d) - i - 1)
            X.prove('loads.only_after_signature_equality',
                    z3.And(z3.PrefixOf(BANG, c.d), i >= 1, sig == c.b64(c.mac(c.key, msg))))
            X.prove('loads.argument_is_decoded_payload', arg.t == c.b64d(msg))
            X.record(loaded=arg.t)
            return VOpaque(c.loads(arg.t), 'unpickled')
        st.update({'cookie_is_encoded': is_encoded, '_lscmp': lscmp, 'pickle.loads': loads})
        self.stubs = st
        return {'data': VBytes(self.d), 'key': VBytes(self.key)}

    def spec(self):
        i = z3.IndexOf(self.d, QM, 0)
        sig = z3.SubSeq(self.d, 1, i - 1)
        msg = z3.SubSeq(self.d, i + 1, L(self.d) - i - 1)
        valid = z3.And(z3.PrefixOf(BANG, self.d), i >= 1, sig == self.b64(self.mac(self.key, msg)))
        return valid, self.loads(self.b64d(msg))

    def post(self, X, ret):
        valid, value = self.spec()
        if isinstance(ret, VNone):
            X.prove('post.result', z3.Not(valid))
            X.prove('post.none_without_deserialising', z3.BoolVal(not any('loaded' in r for r in X.trace)))
        elif isinstance(ret, VOpaque):
            X.prove('post.result', z3.And(valid, ret.t == value))
        else:
            X.prove('post.result', z3.BoolVal(False))

    def post_raise(self, X, exc):
        X.prove('raises.nothing', z3.BoolVal(False))


class CookieEncode(_Crypto, Contract):
    props = ('C15',)
    file = 'ombott/common_helpers.py'
    qualname = 'cookie_encode'
    assumptions = ('library axioms: pickle.loads(pickle.dumps(d)) == d; b64decode(b64encode(x)) == x; b64encode(x) contains no "?"',)
    expected_labels = ('post.layout', 'lemma.decode_of_encode_is_identity')

    def pre(self, X):
        self.data = X.fresh(PyObj, 'data')
        self.key = X.fresh(BytesSort, 'key')
        st = self.crypto_stubs(X)
        c = self
        st['pickle.dumps'] = lambda X, a, k: VBytes(c.dumps(a[0].t))
        self.stubs = st
        return {'data': VOpaque(self.data, 'payload'), 'key': VBytes(self.key)}

    def post(self, X, ret):
        msg = self.b64(self.dumps(self.data))
        want = z3.Concat(BANG, self.b64(self.mac(self.key, msg)), QM, msg)
        X.prove('post.layout', ret.t == want)
        # round trip through the PROVED functional spec of cookie_decode (CookieDecode.spec), with the library axioms
        x = z3.Const('x!ax', BytesSort)
        o = z3.Const('o!ax', PyObj)
        X.assume(z3.ForAll([x], self.b64d(self.b64(x)) == x))
        X.assume(z3.ForAll([x], z3.Not(z3.Contains(self.b64(x), QM))))
        X.assume(z3.ForAll([o], self.loads(self.dumps(o)) == o))
        d = ret.t
        i = z3.IndexOf(d, QM, 0)
        sig = z3.SubSeq(d, 1, i - 1)
        m2 = z3.SubSeq(d, i + 1, L(d) - i - 1)
        valid = z3.And(z3.PrefixOf(BANG, d), i >= 1, sig == self.b64(self.mac(self.key, m2)))
        X.prove('lemma.decode_of_encode_is_identity', z3.And(valid, self.loads(self.b64d(m2)) == self.data))


class GetCookie(Contract):
    """get_cookie: with a secret, the stored value is only ever returned through cookie_decode, and only when the decoded
    pair carries the requested name; otherwise the default (absent)"""
    props = ('C15',)
    file = 'ombott/request_pkg/props_mixin.py'
    qualname = 'PropsMixin.get_cookie'
    assumptions = ('callee contract of cookie_decode as proved: None, or the unpickled object when the signature matches',
                   'a signed payload is the pair (name, value) written by set_cookie')
    expected_labels = ('post.signed_value_only_via_verified_pair', 'post.unsigned_nonempty_value_read_back', 'post.absent_cookie_gives_default')

    def pre(self, X):
        self.key = X.fresh_str('key')
        self.default = VOpaque(X.fresh(PyObj, 'default'), 'default')
        self.secret = [NONE, X.fresh_str('secret')][X.choose(2, 'secret given?')]
        self.value = [NONE, X.fresh_str('cookie_value')][X.choose(2, 'cookie present?')]
        self.dec = None
        c = self

        def cookies_get(X, args, kwargs):
            X.prove('cookies.looked_up_by_key', args[1].t == c.key.t)
            return c.value

        def decode(X, args, kwargs):
            X.prove('decode.called_with_value_and_secret',
                    z3.And(args[0].t == c.value.t, args[1].t == c.secret.t) if isinstance(c.value, VStr) and
                    isinstance(c.secret, VStr) else z3.BoolVal(False))
            if X.choose(2, 'signature valid?') == 0:
                c.dec = NONE
            else:
                c.dec = VObj('Pair', {'name': X.fresh_str('signed_name'), 'payload': VOpaque(X.fresh(PyObj, 'payload'), 'payload')})
            return c.dec
        self.stubs = {'Cookies.get': cookies_get, 'cookie_decode': decode}
        me = VObj('Request', {'cookies': VObj('Cookies', {})})
        return {'self': me, 'key': self.key, 'default': self.default, 'secret': self.secret}

    def getitem_hook(self, X, obj, key):
        if isinstance(obj, VObj) and obj.cls == 'Pair' and isinstance(key, VInt):
            k = z3.simplify(key.t).as_long()
            return obj.fields['name'] if k == 0 else obj.fields['payload']
        return None

    def post(self, X, ret):
        signed = z3.And(X.truth(self.secret), X.truth(self.value))
        if self.dec is not None:
            if isinstance(self.dec, VObj):
                accept = self.dec.fields['name'].t == self.key.t
                want = z3.If(accept, self.dec.fields['payload'].t, self.default.t)
            else:
                want = self.default.t
            X.prove('post.signed_value_only_via_verified_pair',
                    z3.And(signed, ret.t == want) if isinstance(ret, VOpaque) else z3.BoolVal(False))
        else:
            # no secret (or no cookie): the statement demands the value as it was set; the default only when absent.
            # Split by the value being empty so that the known defect (an empty value reads as absent) has its own,
            # narrowly named obligation.
            if isinstance(self.value, VStr):
                got = ret.t == self.value.t if isinstance(ret, VStr) else z3.BoolVal(False)
                empty = z3.Length(self.value.t) == 0
                X.prove('post.unsigned_nonempty_value_read_back', z3.Implies(z3.Not(empty), z3.And(z3.Not(signed), got)))
                has_secret = X.truth(self.secret)
                X.prove('post.unsigned_empty_value_read_back', z3.Implies(z3.And(empty, z3.Not(has_secret)), got))
                X.prove('post.empty_value_with_secret_reads_absent',
                        z3.Implies(z3.And(empty, has_secret),
                                   ret.t == self.default.t if isinstance(ret, VOpaque) else z3.BoolVal(False)))
            else:
                X.prove('post.absent_cookie_gives_default',
                        ret.t == self.default.t if isinstance(ret, VOpaque) else z3.BoolVal(False))

    def post_raise(self, X, exc):
        X.prove('raises.nothing', z3.BoolVal(False))


CONTRACTS = [Lscmp(), IsEncoded(), CookieDecode(), CookieEncode(), GetCookie()]


# ------------------------------------------------------------------------------------------- BaseResponse.set_cookie
from pyvc.engine import Val, VList as _VList, StrSort, VTuple, VStr, VObj, Unsupported   # noqa: E402,F811

Txt = z3.DeclareSort('Txt')          # a python str value, opaque: only its identity and its length matter here
txt_len = z3.Function('txt_len', Txt, z3.IntSort())


class _Text(Val):
    def __init__(self, t):
        self.t = t


class _Jar(Val):
    """self._cookies: a SimpleCookie (or None before the first cookie); records item stores"""
    mutable = True
    nonempty = False

    def __init__(self, present):
        self.present = present
        self.stores = []

    def truth(self, X):
        return z3.BoolVal(bool(self.present and self.nonempty))

    def clone(self, memo):
        return self


class _Morsel(Val):
    def __init__(self, jar, name):
        self.jar, self.name = jar, name


class _Options(Val):
    def __init__(self, items):
        self.items_ = items


class SetCookie(Contract):
    """the response side of the cookie round trip: what is put into the cookie jar under `name` is, with a secret, exactly
    cookie_encode((name, value), secret) as text - the pair carries the SAME name it is stored under, which is what get_cookie checks
    after decoding - and without a secret the text value itself; a non-text value without a secret is a TypeError, a stored text longer
    than 4096 a ValueError, and in both cases nothing is stored."""
    props = ('C15',)
    file = 'ombott/response.py'
    qualname = 'BaseResponse.set_cookie'
    assumptions = ('callee contract of cookie_encode as proved (layout + inverse lemma); touni() of its ASCII result is the same text',
                   'http.cookies.SimpleCookie item assignment stores the value under the name (library; transport is the bounded clause)',
                   'keyword options (max_age, expires, path ...) are not modelled: the call is checked without options',
                   'text values are opaque objects with a length (no string theory needed: only identity and len() are used)')
    expected_labels = ('jar.signed_value_is_encoding_of_the_pair_under_this_name', 'jar.plain_text_stored_as_it_is',
                       'jar.exactly_one_value_store_under_the_name', 'raise.type_error_iff_non_text_without_secret',
                       'raise.value_error_iff_too_long_and_nothing_stored')

    def pre(self, X):
        self.name = _Text(X.fresh(Txt, 'name'))
        self.vkind = X.choose(2, 'value: text | other object')
        self.value = _Text(X.fresh(Txt, 'value')) if self.vkind == 0 else VOpaque(X.fresh(PyObj, 'value'), 'object')
        self.skind = X.choose(2, 'secret: None | given')
        self.secret = NONE if self.skind == 0 else VOpaque(X.fresh(PyObj, 'secret'), 'secret')
        if self.skind == 1:
            X.assume(X.driver.uf('truthy', PyObj, z3.BoolSort())(self.secret.t))      # a falsy secret ('' / b'') means: no secret
            X.assume(z3.Not(X.driver.uf('is_none', PyObj, z3.BoolSort())(self.secret.t)))
        if self.vkind == 1:
            X.assume(z3.Not(X.driver.uf('isinstance', PyObj, z3.StringSort(), z3.BoolSort())(self.value.t, z3.StringVal('str'))))
        self.enc = X.driver.uf('cookie_encode_text', Txt, PyObj, PyObj, Txt)   # (name, value as object, secret) -> text
        self.as_obj = X.driver.uf('text_as_object', Txt, PyObj)
        self.jar0 = X.choose(2, 'jar: None | existing')
        self.jar = _Jar(self.jar0 == 1)
        self.jar.nonempty = bool(self.jar0 == 1 and X.choose(2, 'existing jar empty | non-empty'))
        self.new_jar = None
        c = self

        def cookie_encode(X, args, kwargs):
            pair, key = args[0], args[1]
            ok = isinstance(pair, VTuple) and len(pair.items) == 2 and isinstance(pair.items[0], _Text) and key is c.secret
            r = VOpaque(X.fresh(PyObj, 'encoded_bytes'), 'bytes')
            if not ok:
                X.prove('jar.signed_value_is_encoding_of_the_pair_under_this_name', z3.BoolVal(False))
                r.enc_text = X.fresh(Txt, 'enc')
                return r
            v = pair.items[1]
            vobj = c.as_obj(v.t) if isinstance(v, _Text) else v.t
            r.enc_text = c.enc(pair.items[0].t, vobj, key.t)
            return r

        def touni(X, args, kwargs):
            a = args[0]
            if hasattr(a, 'enc_text') and len(args) == 1:
                return _Text(a.enc_text)
            raise Unsupported('touni of something else')
        self.stubs = {'cookie_encode': cookie_encode, 'touni': touni}
        self.me = VObj('Response', {'_cookies': self.jar if self.jar0 == 1 else NONE})
        return {'self': self.me, 'name': self.name, 'value': self.value, 'secret': self.secret, 'options': _Options([])}

    def construct_hook(self, X, pyclass, args, kwargs):
        if getattr(pyclass, '__name__', '') == 'SimpleCookie' and not args:
            self.new_jar = _Jar(True)
            return self.new_jar
        return None

    def method_hook(self, X, obj, name, args, kwargs):
        if isinstance(obj, _Options) and name == 'items' and not args:
            return _VList(list(obj.items_))
        return None

    def getattr_hook(self, X, obj, attr):
        if isinstance(obj, _Morsel) and attr in ('coded_value', 'value', 'key'):
            # what the cookie jar made of a stored value: some text (library), of any length
            return _Text(X.fresh(Txt, 'morsel_' + attr))
        return None

    def isinstance_hook(self, X, v, classes):
        if isinstance(v, _Text):
            return z3.BoolVal(str in classes)
        return None

    def builtin_hook(self, X, name, args, kwargs):
        if name == 'len' and len(args) == 1 and isinstance(args[0], _Text):
            X.assume(txt_len(args[0].t) >= 0)
            return VInt(txt_len(args[0].t))
        return None

    def getitem_hook(self, X, obj, key):
        if isinstance(obj, _Jar) and isinstance(key, _Text):
            return _Morsel(obj, key.t)
        return None

    def setitem_hook(self, X, obj, key, val):
        if isinstance(obj, _Jar) and isinstance(key, _Text):
            obj.stores.append((key.t, val))
            return True
        if isinstance(obj, _Morsel):
            X.prove('jar.options_set_on_the_cookie_just_stored', obj.name == self.name.t)
            return True
        return False

    def _the_jar(self):
        j = self.me.fields.get('_cookies')
        return j if isinstance(j, _Jar) else None

    def _value_obj(self):
        return self.as_obj(self.value.t) if isinstance(self.value, _Text) else self.value.t

    def post(self, X, ret):
        j = self._the_jar()
        own = j is not None and ((self.jar0 == 1 and self.jar.nonempty and j is self.jar) or
                                 ((self.jar0 == 0 or not self.jar.nonempty) and j is self.new_jar))
        if not (own and len(j.stores) == 1):
            X.prove('jar.exactly_one_value_store_under_the_name', z3.BoolVal(False))
            return
        k, v = j.stores[0]
        X.prove('jar.exactly_one_value_store_under_the_name', k == self.name.t)
        if self.skind == 1:
            X.prove('jar.signed_value_is_encoding_of_the_pair_under_this_name',
                    v.t == self.enc(self.name.t, self._value_obj(), self.secret.t) if isinstance(v, _Text) else z3.BoolVal(False))
        else:
            X.prove('jar.plain_text_stored_as_it_is',
                    v.t == self.value.t if isinstance(v, _Text) and self.vkind == 0 else z3.BoolVal(False))
        if isinstance(v, _Text):
            X.prove('jar.stored_text_within_4096', txt_len(v.t) <= 4096)

    def post_raise(self, X, exc):
        j = self._the_jar()
        nothing = j is None or not j.stores
        if exc.pyclass is TypeError:
            X.prove('raise.type_error_iff_non_text_without_secret', z3.BoolVal(self.skind == 0 and self.vkind == 1 and nothing))
        elif exc.pyclass is ValueError:
            text = self.value.t if self.skind == 0 else self.enc(self.name.t, self._value_obj(), self.secret.t)
            X.prove('raise.value_error_iff_too_long_and_nothing_stored', z3.And(txt_len(text) > 4096, z3.BoolVal(nothing)))
        else:
            X.prove('raises.only_type_or_value_error', z3.BoolVal(False))


CONTRACTS.append(SetCookie())
