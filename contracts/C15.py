"""C15 — signed cookies: verify before unpickle.

cookie_decode._lscmp(a, b)        <=>  a == b      (Python semantics of sum(0 if x == y else 1 for x, y in zip(a, b))
                                                    stated as: the sum is 0 iff a and b agree on their common length)
cookie_decode.cookie_is_encoded   <=>  data starts with '!' and contains '?'
cookie_decode(data, key)          pickle.loads is reached only when data = '!' ++ sig ++ '?' ++ msg (first '?'), and
                                  sig == b64encode(HMAC_md5(key, msg)); its argument is b64decode(msg); every other path
                                  returns None without deserialising anything
cookie_encode(data, key)          == '!' ++ b64encode(HMAC_md5(key, msg)) ++ '?' ++ msg,  msg = b64encode(dumps(data))
round trip                        cookie_decode(cookie_encode(d, k), k) == d   from the library axioms
                                  loads(dumps(d)) == d, b64decode(b64encode(x)) == x, '?' not in b64encode(x)
Forgery: that the signature equality FAILS for a payload the signer never signed is the cryptographic assumption A-HMAC;
it cannot be proved here and is listed as such.
"""
import ast
import z3
from pyvc.engine import (Contract, Val, VInt, VBool, VBytes, VStr, VObj, VFunc, VOpaque, VNone, NONE, VTuple, Unsupported,
                         BytesSort, PyObj, bytes_lit)

L = z3.Length
BANG, QM = bytes_lit(b'!'), bytes_lit(b'?')


class _Mismatches(Val):
    def __init__(self, a, b):
        self.a, self.b = a, b


class Lscmp(Contract):
    props = ('C15',)
    file = 'ombott/common_helpers.py'
    qualname = 'cookie_decode._lscmp'
    assumptions = ('Python semantics: sum(0 if x == y else 1 for x, y in zip(a, b)) is >= 0 and is 0 iff a and b agree on '
                   'their common length (the generator expression must have exactly this shape: checked on the AST)',)
    expected_labels = ('post.true_iff_equal',)

    def pre(self, X):
        self.a, self.b = X.fresh(BytesSort, 'a'), X.fresh(BytesSort, 'b')
        return {'a': VBytes(self.a), 'b': VBytes(self.b)}

    def genexp_hook(self, X, node):
        # exactly:  (0 if x == y else 1  for x, y in zip(<a>, <b>))
        try:
            (g,) = node.generators
            ok = (not g.ifs and isinstance(g.target, ast.Tuple) and len(g.target.elts) == 2
                  and isinstance(g.iter, ast.Call) and isinstance(g.iter.func, ast.Name) and g.iter.func.id == 'zip'
                  and len(g.iter.args) == 2 and isinstance(node.elt, ast.IfExp)
                  and isinstance(node.elt.body, ast.Constant) and node.elt.body.value == 0
                  and isinstance(node.elt.orelse, ast.Constant) and node.elt.orelse.value == 1
                  and isinstance(node.elt.test, ast.Compare) and len(node.elt.test.ops) == 1
                  and isinstance(node.elt.test.ops[0], ast.Eq))
            x, y = (e.id for e in g.target.elts)
            ok = ok and {node.elt.test.left.id, node.elt.test.comparators[0].id} == {x, y}
        except Exception:
            ok = False
        if not ok:
            raise Unsupported('generator expression is not the mismatch counter over zip(a, b)')
        return _Mismatches(X.eval(g.iter.args[0]), X.eval(g.iter.args[1]))

    def builtin_hook(self, X, name, args, kwargs):
        if name == 'sum' and len(args) == 1 and isinstance(args[0], _Mismatches):
            a, b = args[0].a.t, args[0].b.t
            m = z3.If(L(a) < L(b), L(a), L(b))
            n = X.fresh(z3.IntSort(), 'mismatches')
            X.assume(n >= 0)
            X.assume((n == 0) == (z3.SubSeq(a, 0, m) == z3.SubSeq(b, 0, m)))
            return VInt(n)
        return None

    def post(self, X, ret):
        X.prove('post.true_iff_equal', X.truth(ret) == (self.a == self.b))

    def post_raise(self, X, exc):
        X.prove('raises.nothing', z3.BoolVal(False))


def _tob(X, args, kwargs):
    (v,) = args
    if isinstance(v, VBytes):
        return v
    if isinstance(v, VStr) and z3.is_string_value(z3.simplify(v.t)):
        return VBytes(z3.simplify(v.t).as_string().encode('utf8'))
    if isinstance(v, VOpaque):
        return VBytes(X.driver.uf('tob', PyObj, BytesSort)(v.t))
    raise Unsupported('tob of this value')


class IsEncoded(Contract):
    props = ('C15',)
    file = 'ombott/common_helpers.py'
    qualname = 'cookie_decode.cookie_is_encoded'
    expected_labels = ('post.starts_with_bang_and_has_question_mark',)

    def pre(self, X):
        self.d = X.fresh(BytesSort, 'data')
        self.stubs = {'tob': _tob}
        return {'data': VBytes(self.d)}

    def post(self, X, ret):
        X.prove('post.starts_with_bang_and_has_question_mark',
                X.truth(ret) == z3.And(z3.PrefixOf(BANG, self.d), z3.Contains(self.d, QM)))


class _Crypto:
    def crypto_stubs(self, X):
        d = X.driver
        self.mac = d.uf('hmac_md5', BytesSort, BytesSort, BytesSort)
        self.b64 = d.uf('b64encode', BytesSort, BytesSort)
        self.b64d = d.uf('b64decode', BytesSort, BytesSort)
        self.loads = d.uf('pickle_loads', BytesSort, PyObj)
        self.dumps = d.uf('pickle_dumps', PyObj, BytesSort)
        c = self

        def hmac_new(X, args, kwargs):
            key, msg = args[0], args[1]
            X.prove('hmac.digestmod_md5', z3.BoolVal('digestmod' in kwargs))
            return VObj('HMAC', {'key': key, 'msg': msg})
        return {
            'tob': _tob, 'hmac.new': hmac_new,
            'HMAC.digest': lambda X, a, k: VBytes(c.mac(a[0].fields['key'].t, a[0].fields['msg'].t)),
            'base64.b64encode': lambda X, a, k: VBytes(c.b64(a[0].t)),
            'base64.b64decode': lambda X, a, k: VBytes(c.b64d(a[0].t)),
        }


class CookieDecode(_Crypto, Contract):
    props = ('C15',)
    file = 'ombott/common_helpers.py'
    qualname = 'cookie_decode'
    assumptions = ('callee contracts of _lscmp and cookie_is_encoded as proved above',
                   'hmac / base64 / pickle are uninterpreted functions (library)',
                   'A-HMAC (cryptographic, NOT provable): an attacker without the key cannot produce sig == b64(HMAC(key, msg)) '
                   'for a msg that was never signed; this is the only step between the proved contract and "forged cookies read as absent"')
    expected_labels = ('loads.only_after_signature_equality', 'loads.argument_is_decoded_payload', 'post.result')

    def pre(self, X):
        self.d = X.fresh(BytesSort, 'data')
        self.key = X.fresh(BytesSort, 'key')
        st = self.crypto_stubs(X)
        c = self

        def is_encoded(X, args, kwargs):
            return VBool(z3.And(z3.PrefixOf(BANG, args[0].t), z3.Contains(args[0].t, QM)))

        def lscmp(X, args, kwargs):
            return VBool(args[0].t == args[1].t)

        def loads(X, args, kwargs):
            (arg,) = args
            i = z3.IndexOf(c.d, QM, 0)
            sig = z3.SubSeq(c.d, 1, i - 1)
            msg = z3.SubSeq(c.d, i + 1, L(c.d) - i - 1)
            X.prove('loads.only_after_signature_equality',
                    z3.And(z3.PrefixOf(BANG, c.d), i >= 1, sig == c.b64(c.mac(c.key, msg))))
            X.prove('loads.argument_is_decoded_payload', arg.t == c.b64d(msg))
            X.record(loaded=arg.t)
            return VOpaque(c.loads(arg.t), 'unpickled')
        st.update({'cookie_is_encoded': is_encoded, '_lscmp': lscmp, 'pickle.loads': loads})
        self.stubs = st
        return {'data': VBytes(self.d), 'key': VBytes(self.key)}

    def spec(self):
        i = z3.IndexOf(self.d, QM, 0)
        sig = z3.SubSeq(self.d, 1, i - 1)
        msg = z3.SubSeq(self.d, i + 1, L(self.d) - i - 1)
        valid = z3.And(z3.PrefixOf(BANG, self.d), i >= 1, sig == self.b64(self.mac(self.key, msg)))
        return valid, self.loads(self.b64d(msg))

    def post(self, X, ret):
        valid, value = self.spec()
        if isinstance(ret, VNone):
            X.prove('post.result', z3.Not(valid))
            X.prove('post.none_without_deserialising', z3.BoolVal(not any('loaded' in r for r in X.trace)))
        elif isinstance(ret, VOpaque):
            X.prove('post.result', z3.And(valid, ret.t == value))
        else:
            X.prove('post.result', z3.BoolVal(False))

    def post_raise(self, X, exc):
        X.prove('raises.nothing', z3.BoolVal(False))


class CookieEncode(_Crypto, Contract):
    props = ('C15',)
    file = 'ombott/common_helpers.py'
    qualname = 'cookie_encode'
    assumptions = ('library axioms: pickle.loads(pickle.dumps(d)) == d; b64decode(b64encode(x)) == x; b64encode(x) contains no "?"',)
    expected_labels = ('post.layout', 'lemma.decode_of_encode_is_identity')

    def pre(self, X):
        self.data = X.fresh(PyObj, 'data')
        self.key = X.fresh(BytesSort, 'key')
        st = self.crypto_stubs(X)
        c = self
        st['pickle.dumps'] = lambda X, a, k: VBytes(c.dumps(a[0].t))
        self.stubs = st
        return {'data': VOpaque(self.data, 'payload'), 'key': VBytes(self.key)}

    def post(self, X, ret):
        msg = self.b64(self.dumps(self.data))
        want = z3.Concat(BANG, self.b64(self.mac(self.key, msg)), QM, msg)
        X.prove('post.layout', ret.t == want)
        # round trip through the PROVED functional spec of cookie_decode (CookieDecode.spec), with the library axioms
        x = z3.Const('x!ax', BytesSort)
        o = z3.Const('o!ax', PyObj)
        X.assume(z3.ForAll([x], self.b64d(self.b64(x)) == x))
        X.assume(z3.ForAll([x], z3.Not(z3.Contains(self.b64(x), QM))))
        X.assume(z3.ForAll([o], self.loads(self.dumps(o)) == o))
        d = ret.t
        i = z3.IndexOf(d, QM, 0)
        sig = z3.SubSeq(d, 1, i - 1)
        m2 = z3.SubSeq(d, i + 1, L(d) - i - 1)
        valid = z3.And(z3.PrefixOf(BANG, d), i >= 1, sig == self.b64(self.mac(self.key, m2)))
        X.prove('lemma.decode_of_encode_is_identity', z3.And(valid, self.loads(self.b64d(m2)) == self.data))


class GetCookie(Contract):
    """get_cookie: with a secret, the stored value is only ever returned through cookie_decode, and only when the decoded
    pair carries the requested name; otherwise the default (absent)"""
    props = ('C15',)
    file = 'ombott/request_pkg/props_mixin.py'
    qualname = 'PropsMixin.get_cookie'
    assumptions = ('callee contract of cookie_decode as proved: None, or the unpickled object when the signature matches',
                   'a signed payload is the pair (name, value) written by set_cookie')
    expected_labels = ('post.signed_value_only_via_verified_pair', 'post.unsigned_nonempty_value_read_back', 'post.absent_cookie_gives_default')

    def pre(self, X):
        self.key = X.fresh_str('key')
        self.default = VOpaque(X.fresh(PyObj, 'default'), 'default')
        self.secret = [NONE, X.fresh_str('secret')][X.choose(2, 'secret given?')]
        self.value = [NONE, X.fresh_str('cookie_value')][X.choose(2, 'cookie present?')]
        self.dec = None
        c = self

        def cookies_get(X, args, kwargs):
            X.prove('cookies.looked_up_by_key', args[1].t == c.key.t)
            return c.value

        def decode(X, args, kwargs):
            X.prove('decode.called_with_value_and_secret',
                    z3.And(args[0].t == c.value.t, args[1].t == c.secret.t) if isinstance(c.value, VStr) and
                    isinstance(c.secret, VStr) else z3.BoolVal(False))
            if X.choose(2, 'signature valid?') == 0:
                c.dec = NONE
            else:
                c.dec = VObj('Pair', {'name': X.fresh_str('signed_name'), 'payload': VOpaque(X.fresh(PyObj, 'payload'), 'payload')})
            return c.dec
        self.stubs = {'Cookies.get': cookies_get, 'cookie_decode': decode}
        me = VObj('Request', {'cookies': VObj('Cookies', {})})
        return {'self': me, 'key': self.key, 'default': self.default, 'secret': self.secret}

    def getitem_hook(self, X, obj, key):
        if isinstance(obj, VObj) and obj.cls == 'Pair' and isinstance(key, VInt):
            k = z3.simplify(key.t).as_long()
            return obj.fields['name'] if k == 0 else obj.fields['payload']
        return None

    def post(self, X, ret):
        signed = z3.And(X.truth(self.secret), X.truth(self.value))
        if self.dec is not None:
            if isinstance(self.dec, VObj):
                accept = self.dec.fields['name'].t == self.key.t
                want = z3.If(accept, self.dec.fields['payload'].t, self.default.t)
            else:
                want = self.default.t
            X.prove('post.signed_value_only_via_verified_pair',
                    z3.And(signed, ret.t == want) if isinstance(ret, VOpaque) else z3.BoolVal(False))
        else:
            # no secret (or no cookie): the statement demands the value as it was set; the default only when absent.
            # Split by the value being empty so that the known defect (an empty value reads as absent) has its own,
            # narrowly named obligation.
            if isinstance(self.value, VStr):
                got = ret.t == self.value.t if isinstance(ret, VStr) else z3.BoolVal(False)
                empty = z3.Length(self.value.t) == 0
                X.prove('post.unsigned_nonempty_value_read_back', z3.Implies(z3.Not(empty), z3.And(z3.Not(signed), got)))
                has_secret = X.truth(self.secret)
                X.prove('post.unsigned_empty_value_read_back', z3.Implies(z3.And(empty, z3.Not(has_secret)), got))
                X.prove('post.empty_value_with_secret_reads_absent',
                        z3.Implies(z3.And(empty, has_secret),
                                   ret.t == self.default.t if isinstance(ret, VOpaque) else z3.BoolVal(False)))
            else:
                X.prove('post.absent_cookie_gives_default',
                        ret.t == self.default.t if isinstance(ret, VOpaque) else z3.BoolVal(False))

    def post_raise(self, X, exc):
        X.prove('raises.nothing', z3.BoolVal(False))


CONTRACTS = [Lscmp(), IsEncoded(), CookieDecode(), CookieEncode(), GetCookie()]
