"""C14 — emission: BaseResponse.headerlist hands the server exactly the stored values, transcoded, once per value, in
order, minus the names forbidden for the status.

The header store is abstract: an items view of n entries; entry k has a name name(k), is a list (islist(k)) of
cnt(k) values or a single value, and its j-th stored text is val(k, j).  The comprehensions of the real source are
executed on a GENERIC element (fresh index k in range, fresh inner index j in range): the filter condition, the inner
iterable and the element expression are evaluated by the engine from the real AST and compared pointwise with the
specification:

  emit.filter_is_blacklist_by_title     entry k is dropped  iff  the status has a blacklist and title(name(k)) is in it
  emit.once_per_value_in_order          the inner iteration runs over exactly the stored values of entry k, in order
                                        (the list itself, or the single value once)
  emit.under_its_own_name / emit.value_transcoded
                                        the emitted pair is (a spelling of name(k) with the same title(), latin1(utf8(val(k, j))));
                                        the statement does not fix the spelling of emitted names, so only the pairing is demanded
  ctype.not_added_when_forbidden        the default Content-Type is appended only when no blacklist is active
  ctype.only_when_absent                ... and only when the store has no 'Content-Type' key
  cookie.*                              one ('Set-Cookie', latin1(utf8(OutputString()))) per cookie, in order, appended
                                        after everything else; nothing else is appended

That a comprehension  [e for a in A if c for b in B]  yields e for every a of A in order that satisfies c and every b of
B(a) in order is the Python semantics assumed (listed).  With Clean(store) (proved for every single-value setter) and
the complete codec enumeration (frames/codec_lemma: latin1(utf8(t)) has no CR/LF/NUL when t has none, is Latin-1
encodable and decodes back to t) this gives the emission clauses of the statement.
"""
import ast
import z3
from pyvc.engine import (Contract, Val, VInt, VBool, VStr, VObj, VList, VTuple, VOpaque, VNone, NONE, Unsupported,
                         PyObj, StrSort, IntSort)

# names withheld, in the canonical (title) spelling; rfc2616 10.2.5 / 10.3.5 as the statement's "entity headers forbidden
# for 204 and 304 responses"
FORBIDDEN = {
    204: ('Content-Type',),
    304: ('Allow', 'Content-Encoding', 'Content-Language', 'Content-Length', 'Content-Range', 'Content-Type',
          'Content-Md5', 'Last-Modified'),
}

Hdr = z3.DeclareSort('Hdr')


class Store(Val):
    """self._headers"""
    def __init__(self, X):
        d = X.driver
        self.n = X.fresh(IntSort, 'n_entries')
        X.assume(self.n >= 0)
        self.name = d.uf('h_name', IntSort, StrSort)
        self.islist = d.uf('h_islist', IntSort, z3.BoolSort())
        self.cnt = d.uf('h_cnt', IntSort, IntSort)
        self.val = d.uf('h_val', IntSort, IntSort, StrSort)
        self.has_ctype = X.fresh(z3.BoolSort(), 'has_content_type_key')


class Items(Val):
    """store.items(), possibly filtered by a generator expression: keep(k) is a z3 Bool over the index"""
    def __init__(self, store, keep=None):
        self.store = store
        self.keep = keep or (lambda k: z3.BoolVal(True))


class Vals(Val):
    """the value of entry k: a list of cnt(k) texts or one text"""
    def __init__(self, store, k):
        self.store, self.k = store, k


class BadHeaders(Val):
    pass


class Encoded(Val):
    def __init__(self, t, codec):
        self.t, self.codec = t, codec


class Out(Val):
    """the list under construction: flat part (generic facts proved when it was built) + appended tail"""
    mutable = True

    def __init__(self, X, tail_len, tail):
        self.tail_len, self.tail = tail_len, tail

    def havoc(self, X, hint):
        return Out(X, X.fresh(IntSort, hint + '_len'), X.fresh(z3.ArraySort(IntSort, Hdr), hint + '_tail'))

    def clone(self, memo):
        return self


class Cookies(Val):
    def __init__(self, X):
        self.n = X.fresh(IntSort, 'n_cookies')
        X.assume(self.n >= 0)
        self.at = X.driver.uf('cookie_at', IntSort, PyObj)

    def truth(self, X):
        return self.n > 0

    def indexed(self):
        return self.n, (lambda i: VOpaque(self.at(i), 'morsel'))


class HeaderList(Contract):
    props = ('C14',)
    file = 'ombott/response.py'
    qualname = 'BaseResponse.headerlist'
    assumptions = (
        'Python semantics of comprehensions: [e for a in A if c for b in B] yields e for every a of A in order that satisfies c '
        'and every b of B(a) in order; a generator expression (h for h in A if c) yields the elements of A in order that satisfy c',
        'dict.items() yields (key, value) in insertion order; dict.values() yields the values in order',
        'str.title() is idempotent',
        "str.title() is an uninterpreted function here; that it is a canonical spelling for the forbidden names (every case "
        "variant of a forbidden name, and nothing else among ASCII names, has that title) is the enumeration frames/codec_lemma:title_canonical",
        'bad_headers and default_content_type are read from the class body of the real source (literal dict of literal sets / literal str)',
    )
    expected_labels = ('emit.filter_is_blacklist_by_title', 'emit.once_per_value_in_order', 'emit.under_its_own_name',
                       'emit.value_transcoded', 'ctype.not_added_when_forbidden', 'ctype.only_when_absent',
                       'ctype.default_is_ascii_literal', 'cookie.one_set_cookie_per_cookie_in_order',
                       'post.nothing_else_appended', 'post.returns_the_list')
    max_paths = 200

    # ------------------------------------------------------------------ class constants from the real source
    def _class_consts(self, X):
        tree = X.src.tree
        out = {}
        for node in ast.walk(tree):
            if isinstance(node, ast.ClassDef) and node.name == 'BaseResponse':
                for st in node.body:
                    if isinstance(st, ast.Assign) and len(st.targets) == 1 and isinstance(st.targets[0], ast.Name):
                        if st.targets[0].id in ('bad_headers', 'default_content_type'):
                            try:
                                out[st.targets[0].id] = ast.literal_eval(st.value)
                            except Exception:
                                out[st.targets[0].id] = None
        return out

    def pre(self, X):
        c = self._class_consts(X)
        self.bad = c.get('bad_headers')
        self.dct = c.get('default_content_type')
        if not (isinstance(self.bad, dict) and all(isinstance(k, int) and isinstance(v, (set, frozenset)) and
                                                    all(isinstance(s, str) for s in v) for k, v in self.bad.items())):
            raise Unsupported('BaseResponse.bad_headers is not a literal {int: {str, ...}}')
        self.store = Store(X)
        self.cookies_present = X.choose(2, 'self._cookies set or None')
        self.cookies = Cookies(X) if self.cookies_present else NONE
        self.status = X.fresh(IntSort, 'status_code')
        self.title = X.driver.uf('str_title', StrSort, StrSort)
        self.recode = lambda enc, dec: X.driver.uf(f'recode_{enc}_{dec}', StrSort, StrSort)
        self.outstr = X.driver.uf('cookie_output_string', PyObj, StrSort)
        self.hname = X.driver.uf('hdr_name', Hdr, StrSort)
        self.hval = X.driver.uf('hdr_value', Hdr, StrSort)
        self.out = None
        self.flat_built = 0
        self.appended_ctype = None
        me = VObj('Response', {'_headers': self.store, '_status_code': VInt(self.status),
                               '_cookies': self.cookies,
                               'default_content_type': VStr(self.dct) if isinstance(self.dct, str) else VOpaque(X.fresh(PyObj, 'dct'), 'obj')})
        return {'self': me}

    # ------------------------------------------------------------------ specification
    def spec_forbidden(self, name_t):
        """z3 Bool: the entry named name_t must be withheld for self.status"""
        alts = []
        for code, names in FORBIDDEN.items():
            alts.append(z3.And(self.status == code, z3.Or(*[self.title(name_t) == z3.StringVal(n) for n in names])))
        return z3.Or(*alts)

    def spec_blacklist_active(self):
        return z3.Or(*[self.status == code for code in FORBIDDEN])

    # ------------------------------------------------------------------ model of the objects the function touches
    def getattr_hook(self, X, obj, attr):
        if isinstance(obj, VObj) and obj.cls == 'Response' and attr == 'bad_headers':
            return BadHeaders()
        return None

    def method_hook(self, X, obj, name, args, kwargs):
        if isinstance(obj, BadHeaders) and name == 'get' and len(args) == 1 and isinstance(args[0], VInt):
            for code in sorted(self.bad):
                if X.decide(args[0].t == code):
                    return VTuple([VStr(s) for s in sorted(self.bad[code])])   # a set: only truth and membership are used
            return NONE
        if isinstance(obj, Store) and name == 'items' and not args:
            return Items(obj)
        if isinstance(obj, VStr) and name == 'title' and not args:
            return VStr(self.title(obj.t))
        if isinstance(obj, VStr) and name == 'encode':
            codec = self._codec(args, kwargs, 'utf-8')
            return Encoded(obj.t, codec)
        if isinstance(obj, Encoded) and name == 'decode':
            codec = self._codec(args, kwargs, 'utf-8')
            return VStr(self.recode(obj.codec, codec)(obj.t))
        if isinstance(obj, Cookies) and name == 'values' and not args:
            return obj
        if isinstance(obj, VOpaque) and obj.tag == 'morsel' and name == 'OutputString' and not args:
            return VStr(self.outstr(obj.t))
        if isinstance(obj, Out) and name == 'append' and len(args) == 1:
            return self._append(X, obj, args[0])
        return None

    def _codec(self, args, kwargs, default):
        if kwargs:
            raise Unsupported('codec call with keywords')
        if len(args) == 2 and isinstance(args[1], VStr) and z3.is_string_value(z3.simplify(args[1].t)) \
                and isinstance(args[0], VStr) and z3.is_string_value(z3.simplify(args[0].t)):
            # an explicit error handler makes it a different function of the text (uninterpreted under its own name)
            return (z3.simplify(args[0].t).as_string().lower().replace('-', '').replace('_', '') + '_errors_' +
                    z3.simplify(args[1].t).as_string())
        if len(args) > 1:
            raise Unsupported('codec call with a symbolic error handler')
        if not args:
            return default.replace('-', '')
        s = z3.simplify(args[0].t) if isinstance(args[0], VStr) else None
        if s is None or not z3.is_string_value(s):
            raise Unsupported('symbolic codec name')
        return s.as_string().lower().replace('-', '').replace('_', '')

    def isinstance_hook(self, X, v, classes):
        if isinstance(v, Vals):
            if classes == (list,) or list(classes) == [list]:
                return v.store.islist(v.k)
            raise Unsupported('isinstance of a stored header value against ' + repr(classes))
        if isinstance(v, (Out,)):
            return z3.BoolVal(list in classes)
        return None

    def contains_hook(self, X, container, item):
        if isinstance(container, Store) and isinstance(item, VStr):
            s = z3.simplify(item.t)
            if z3.is_string_value(s) and s.as_string() == 'Content-Type':
                return container.has_ctype
            raise Unsupported('membership test on the header store for another key')
        return None

    # ------------------------------------------------------------------ comprehensions on a generic element
    def _no_fork(self, X, fn):
        n0 = len(X.taken)
        r = fn()
        if len(X.taken) != n0:
            raise Unsupported('path split inside a comprehension condition')
        return r

    def genexp_hook(self, X, node):
        gens = node.generators
        if any(g.is_async for g in gens):
            raise Unsupported('async comprehension')
        saved = dict(X.env)
        try:
            if isinstance(node, ast.GeneratorExp) and len(gens) == 1:
                return self._filter(X, node, gens[0])
            if isinstance(node, ast.ListComp) and len(gens) == 2:
                return self._flatten(X, node, gens)
            raise Unsupported('comprehension shape')
        finally:
            X.env.clear()
            X.env.update(saved)

    def _generic_entry(self, X, items):
        k = X.fresh(IntSort, 'k')
        X.assume(z3.And(k >= 0, k < items.store.n))
        return k, VTuple([VStr(items.store.name(k)), Vals(items.store, k)])

    def _filter(self, X, node, g):
        items = X.eval(g.iter)
        if not isinstance(items, Items):
            raise Unsupported('generator expression over something else than the items view')
        k, elem = self._generic_entry(X, items)
        X.assign(g.target, elem)
        conds = [self._no_fork(X, lambda c=c: X.truth(X.eval(c))) for c in g.ifs]
        res = self._no_fork(X, lambda: X.eval(node.elt))
        if res is not elem:
            raise Unsupported('generator expression does not yield the element itself')
        cond_k = z3.And(*conds) if conds else z3.BoolVal(True)
        prev = items.keep
        return Items(items.store, lambda j, prev=prev: z3.And(prev(j), z3.substitute(cond_k, (k, j))))

    def _flatten(self, X, node, gens):
        g0, g1 = gens
        items = X.eval(g0.iter)
        if not isinstance(items, Items):
            raise Unsupported('list comprehension over something else than the (filtered) items view')
        st = items.store
        k, elem = self._generic_entry(X, items)
        # 1. the filter in force (from an enclosing generator expression and/or `if` clauses of the first generator)
        X.assign(g0.target, elem)
        conds0 = [self._no_fork(X, lambda c=c: X.truth(X.eval(c))) for c in g0.ifs]
        kept = z3.And(items.keep(k), *conds0)
        X.prove('emit.filter_is_blacklist_by_title', kept == z3.Not(self.spec_forbidden(st.name(k))))
        X.assume(kept)
        # 2. the inner iterable (may split the path on islist(k))
        inner = X.eval(g1.iter)
        j = X.fresh(IntSort, 'j')
        if isinstance(inner, Vals) and inner.k is k:
            # iterating the stored list itself: j-th element is val(k, j)
            ok = st.islist(k)
            X.assume(z3.And(j >= 0, j < st.cnt(k)))
            item = VStr(st.val(k, j))
        elif isinstance(inner, (VList, VTuple)) and len(inner.items) == 1 and isinstance(inner.items[0], Vals) \
                and inner.items[0].k is k:
            ok = z3.Not(st.islist(k))
            X.assume(j == 0)
            item = VStr(st.val(k, 0))
        else:
            ok = z3.BoolVal(False)
            item = X.fresh_str('unknown_item')
        X.prove('emit.once_per_value_in_order', ok)
        X.assign(g1.target, item)
        if g1.ifs:
            X.prove('emit.once_per_value_in_order', z3.BoolVal(False))
        # 3. the element
        e = X.eval(node.elt)
        if isinstance(e, VTuple) and len(e.items) == 2 and all(isinstance(i, VStr) for i in e.items):
            X.assume(self.title(self.title(st.name(k))) == self.title(st.name(k)))   # title() is idempotent (assumed)
            X.prove('emit.under_its_own_name', self.title(e.items[0].t) == self.title(st.name(k)))
            X.prove('emit.value_transcoded', e.items[1].t == self.recode('utf8', 'latin1')(st.val(k, j)))
        else:
            X.prove('emit.under_its_own_name', z3.BoolVal(False))
            X.prove('emit.value_transcoded', z3.BoolVal(False))
        self.flat_built += 1
        self.out = Out(X, z3.IntVal(0), z3.K(IntSort, X.fresh(Hdr, 'none')))
        return self.out

    # ------------------------------------------------------------------ appends after the flat part
    def _mk(self, X, v):
        if not (isinstance(v, VTuple) and len(v.items) == 2 and all(isinstance(i, VStr) for i in v.items)):
            raise Unsupported('append of something else than a (str, str) pair')
        h = X.fresh(Hdr, 'hdr')
        X.assume(z3.And(self.hname(h) == v.items[0].t, self.hval(h) == v.items[1].t))
        return h

    def _append(self, X, out, v):
        h = self._mk(X, v)
        out.tail = z3.Store(out.tail, out.tail_len, h)
        out.tail_len = out.tail_len + 1
        return NONE

    def _is_ctype(self, h):
        return z3.And(self.hname(h) == z3.StringVal('Content-Type'),
                      self.hval(h) == z3.StringVal(self.dct if isinstance(self.dct, str) else ''))

    def _is_cookie(self, h, m):
        return z3.And(self.hname(h) == z3.StringVal('Set-Cookie'),
                      self.hval(h) == self.recode('utf8', 'latin1')(self.outstr(self.cookies.at(m))))

    def spec_ctype(self):
        return z3.And(z3.Not(self.spec_blacklist_active()), z3.Not(self.store.has_ctype))

    # cookie loop (loop 0): i cookies appended after the optional default Content-Type
    def before_loop(self, X, k):
        if k != self.ck:
            return
        out = X.env.get('out')
        if not isinstance(out, Out):
            raise Unsupported('cookie loop without the list `out`')
        X.ghost['c0'] = VInt(out.tail_len)

    @property
    def ck(self):
        """ordinal of the cookie loop: the for statement that iterates over self._cookies (robust against loops being added
        or removed elsewhere in the function)"""
        d = getattr(self, '_driver', None)
        for k, n in enumerate(d.loops if d else []):
            if isinstance(n, ast.For) and '_cookies' in ast.unparse(n.iter):
                return k
        return None

    @property
    def loop_frozen_ghost(self):
        return {self.ck: ('c0',)} if self.ck is not None else {}

    def _inv0(self, X):
        out = X.env['out']
        i = X.env[f'__i{self.ck}'].t
        c0 = X.ghost['c0'].t
        m = z3.Int('m!inv')
        return [
            ('tail_length', out.tail_len == c0 + i),
            ('ctype_part_untouched', z3.And(c0 >= 0, c0 <= 1, z3.Implies(c0 == 1, self._is_ctype(out.tail[0])))),
            ('cookies_so_far', z3.ForAll([m], z3.Implies(z3.And(m >= 0, m < i), self._is_cookie(out.tail[c0 + m], m)))),
        ]

    @property
    def loop_inv(self):
        return {self.ck: self._inv0} if self.ck is not None else {}

    def loop_variant_0(self, X):
        return self.cookies.n - X.env[f'__i{self.ck}'].t

    @property
    def loop_variant(self):
        return {self.ck: self.loop_variant_0} if self.ck is not None else {}

    def post(self, X, ret):
        X.prove('post.returns_the_list', z3.BoolVal(isinstance(ret, Out) and self.flat_built == 1))
        if not isinstance(ret, Out):
            return
        ctype = self.spec_ctype()
        n_cookies = self.cookies.n if self.cookies_present else z3.IntVal(0)
        c0 = z3.If(ret.tail_len - n_cookies == 1, 1, 0)
        has_ct = ret.tail_len - n_cookies == 1
        X.prove('post.nothing_else_appended', z3.Or(ret.tail_len == n_cookies, ret.tail_len == n_cookies + 1))
        X.prove('ctype.not_added_when_forbidden', z3.Implies(has_ct, z3.Not(self.spec_blacklist_active())))
        X.prove('ctype.only_when_absent', z3.Implies(has_ct, z3.And(z3.Not(self.store.has_ctype), self._is_ctype(ret.tail[0]))))
        X.prove('ctype.default_is_ascii_literal', z3.BoolVal(isinstance(self.dct, str) and self.dct.isascii()
                                                             and not any(ch in self.dct for ch in '\r\n\0')))
        m = X.fresh(IntSort, 'm')
        if self.cookies_present:
            X.prove('cookie.one_set_cookie_per_cookie_in_order',
                    z3.Implies(z3.And(m >= 0, m < n_cookies),
                               self._is_cookie(ret.tail[z3.If(has_ct, 1, 0) + m], m)))
        else:
            X.prove('cookie.one_set_cookie_per_cookie_in_order', ret.tail_len <= 1)

    def post_raise(self, X, exc):
        X.prove('raises.nothing', z3.BoolVal(False))


CONTRACTS = [HeaderList()]
