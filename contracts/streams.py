"""Shared ghost state and callee contracts for the body readers (C04, C05, C13).

Ghost state
    stream0    (constant) the bytes the server will ever deliver on wsgi.input
    stream     the bytes not yet handed out by read()
    consumed   the bytes handed out by read() so far          (stream0 == consumed ++ stream)
    delivered  the bytes yielded to the consumer so far

Assumed contract of the server's  read(n)  (PEP 3333 side, DESIGN.md §7): for n >= 0 it returns a
prefix p of `stream` with len p <= n, and len p == 0 only if n == 0 or nothing is left; it does not raise.
"""
import z3
from pyvc.engine import VBytes, VInt, BytesSort

L = z3.Length


def init_stream_ghost(X):
    s0 = X.fresh(BytesSort, 'stream0')
    X.setg('stream0', VBytes(s0))
    X.setg('stream', VBytes(s0))
    X.setg('consumed', VBytes(z3.Empty(BytesSort)))
    X.setg('delivered', VBytes(z3.Empty(BytesSort)))
    return s0


def read_stub(check_arg=None):
    """contract of read(n); check_arg(X, n_term) may add caller-side obligations on the argument"""
    def read(X, args, kwargs):
        (n,) = args
        if not isinstance(n, VInt):
            from pyvc.engine import Unsupported
            raise Unsupported('read() argument is not an int')
        X.prove('read.arg_nonneg', n.t >= 0)
        if check_arg:
            check_arg(X, n.t)
        stream = X.g('stream').t
        p = X.fresh(BytesSort, 'part')
        rest = X.fresh(BytesSort, 'rest')
        X.assume(stream == z3.Concat(p, rest))
        X.assume(L(p) <= n.t)
        X.assume(z3.Implies(L(p) == 0, z3.Or(n.t == 0, L(stream) == 0)))
        X.setg('stream', VBytes(rest))
        X.setg('consumed', VBytes(z3.Concat(X.g('consumed').t, p)))
        X.record(read_n=n.t, read_len=L(p), read_part=p)
        return VBytes(p)
    return read


# --------------------------------------------------------------------------- generators as callees
import z3 as _z3
from pyvc.engine import Val, VFunc, NONE, VExc


def zmin(a, b):
    return _z3.If(a < b, a, b)


def zmax(a, b):
    return _z3.If(a > b, a, b)


def iter_body_exit(stream0, delivered, CL):
    """exit condition of _iter_body: PROVED as `post.exact` in contracts/C04.py and ASSUMED (same formula) by callers"""
    want = zmin(zmax(CL, 0), L(stream0))
    return _z3.And(_z3.PrefixOf(delivered, stream0), L(delivered) == want)


class BodyGen(Val):
    """a running body generator seen from its consumer, through its contract only:
         next(): EITHER yields a part with 1 <= len(part) <= buff_size (appended to ghost `gen_out`),
                 OR is exhausted (then `exit_cond(gen_out)` holds),
                 OR (only if `may_raise` is given) raises that exception class.
    The yield-side facts are proved on the generator's own source by its contract (yield.size, post.*)."""

    def __init__(self, buff, exit_cond, may_raise=None, label='gen'):
        self.buff, self.exit_cond, self.may_raise, self.label = buff, exit_cond, may_raise, label

    def next(self, X):
        n = 3 if self.may_raise is not None else 2
        k = X.choose(n, self.label)
        if k == 0:
            p = X.fresh(BytesSort, 'gen_part')
            X.assume(_z3.And(L(p) >= 1, L(p) <= self.buff))
            X.setg('gen_out', VBytes(_z3.Concat(X.g('gen_out').t, p)))
            return VBytes(p)
        if k == 1:
            X.assume(self.exit_cond(X.g('gen_out').t))
            X.setg('gen_done', VBytes(bytes_true()))
            return None
        X.raise_(self.may_raise, 'generator')


def bytes_true():
    return b'\x01'
