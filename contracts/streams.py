"""Shared ghost state and callee contracts for the body readers (C04, C05, C13).

Ghost state
    stream0    (constant) the bytes the server will ever deliver on wsgi.input
    stream     the bytes not yet handed out by read()
    consumed   the bytes handed out by read() so far          (stream0 == consumed ++ stream)
    delivered  the bytes yielded to the consumer so far

Assumed contract of the server's  read(n)  (PEP 3333 side, DESIGN.md §7): for n >= 0 it returns a
prefix p of `stream` with len p <= n, and len p == 0 only if n == 0 or nothing is left; it does not raise.
"""
import z3
from pyvc.engine import VBytes, VInt, BytesSort

L = z3.Length


def init_stream_ghost(X):
    s0 = X.fresh(BytesSort, 'stream0')
    X.setg('stream0', VBytes(s0))
    X.setg('stream', VBytes(s0))
    X.setg('consumed', VBytes(z3.Empty(BytesSort)))
    X.setg('delivered', VBytes(z3.Empty(BytesSort)))
    return s0


def read_stub(check_arg=None):
    """contract of read(n); check_arg(X, n_term) may add caller-side obligations on the argument"""
    def read(X, args, kwargs):
        (n,) = args
        if not isinstance(n, VInt):
            from pyvc.engine import Unsupported
            raise Unsupported('read() argument is not an int')
        X.prove('read.arg_nonneg', n.t >= 0)
        if check_arg:
            check_arg(X, n.t)
        stream = X.g('stream').t
        p = X.fresh(BytesSort, 'part')
        rest = X.fresh(BytesSort, 'rest')
        X.assume(stream == z3.Concat(p, rest))
        X.assume(L(p) <= n.t)
        X.assume(z3.Implies(L(p) == 0, z3.Or(n.t == 0, L(stream) == 0)))
        X.setg('stream', VBytes(rest))
        X.setg('consumed', VBytes(z3.Concat(X.g('consumed').t, p)))
        X.record(read_n=n.t, read_len=L(p), read_part=p)
        return VBytes(p)
    return read
