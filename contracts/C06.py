"""C06 — the post-delimiter eaters of the multipart parser: functional contracts + split lemmas.

After a delimiter the parser must see CRLF (a part follows) or "--" (closing delimiter).  The three eaters look at one or
two bytes.  Each is pinned down completely (result, exception, state change) as a function of the bytes available from
`base`; the split lemmas then show, as pure formulas over these specifications, that feeding the bytes in two pieces gives
the same verdict at the same absolute position as feeding them in one piece - for every continuation that a well-formed
body can have there (a prefix of CRLF or of "--") and also for a wrong second byte.

  _eat_last_hyphen(chunk, base)   no byte -> None, state unchanged; '-' -> stopped, base+1; any other byte -> UnexpectedBodyEndError
                                  (exactly ONE byte is inspected: the defect repaired by e3e3bd3 compared two bytes with one)
  _eat_lf(chunk, base)            no byte -> None; LF -> base+1; other -> MalformedHeadersError
  _eat_first_crlf_or_last_hyphens no byte -> None; CRLF -> base+2; "--" -> stopped, base+2;
                                  exactly one byte: CR -> continue with _eat_lf, '-' -> continue with _eat_last_hyphen, other -> MalformedHeadersError
                                  (two other bytes -> None: the parser stalls on such malformed input; outside the statement)
MatchTail.match_tail, BodyMarkuper._eat_data / iter_markup (window search, offset bookkeeping) are NOT under contract:
they are covered by the bounded check only.
"""
import z3
from pyvc.engine import (Contract, VInt, VBool, VBytes, VObj, VFunc, VNone, NONE, Unsupported, BytesSort, bytes_lit)

L = z3.Length
CR, LF, HY = bytes_lit(b'\r'), bytes_lit(b'\n'), bytes_lit(b'-')
CRLF, HYHY = bytes_lit(b'\r\n'), bytes_lit(b'--')


class _Eater(Contract):
    props = ('C06',)
    file = 'ombott/request_pkg/multipart.py'
    assumptions = ('precondition 0 <= base (a position in the chunk, possibly at its end)',)

    def eater_pre(self, X):
        self.chunk = X.fresh(BytesSort, 'chunk')
        self.base = X.fresh(z3.IntSort(), 'base')
        X.assume(z3.And(self.base >= 0, self.base <= L(self.chunk)))
        self.m_self = VFunc(None, self.qualname.split('.')[-1])
        self.m_lf = VFunc(None, '_eat_lf')
        self.m_hy = VFunc(None, '_eat_last_hyphen')
        c = self

        def map_get(X, args, kwargs):
            k = args[1].t
            if X.decide(k == CR):
                return c.m_lf
            if X.decide(k == HY):
                return c.m_hy
            return NONE
        self.stubs = {'MethMap.get': map_get}
        self.me = VObj('Eater', {'eat_meth': self.m_self, '_meth_map': VObj('MethMap', {}), 'stopped': VBool(False),
                                 '_eat_lf': self.m_lf, '_eat_last_hyphen': self.m_hy, 'headers_end_expected': NONE})
        mod = X.globals
        self.E_end = mod['UnexpectedBodyEndError']
        self.E_mal = mod['MalformedHeadersError']
        return {'self': self.me, 'chunk': VBytes(self.chunk), 'base': VInt(self.base)}

    def avail(self):
        return L(self.chunk) - self.base

    def at(self, k):
        return z3.SubSeq(self.chunk, self.base + k, 1)

    def state_unchanged(self):
        f = self.me.fields
        return z3.And(z3.BoolVal(f['eat_meth'] is self.m_self), z3.Not(f['stopped'].t))

    def post_raise(self, X, exc):
        X.prove('raises.nothing', z3.BoolVal(False))


class EatLastHyphen(_Eater):
    qualname = 'HeadersEaeter._eat_last_hyphen'
    expected_labels = ('post.needs_more_only_without_a_byte', 'post.hyphen_stops_at_next_position', 'raise.only_for_another_byte')

    def pre(self, X):
        return self.eater_pre(X)

    def post(self, X, ret):
        if isinstance(ret, VNone):
            X.prove('post.needs_more_only_without_a_byte', z3.And(self.avail() == 0, self.state_unchanged()))
        else:
            X.prove('post.hyphen_stops_at_next_position',
                    z3.And(self.avail() >= 1, self.at(0) == HY, ret.t == self.base + 1, self.me.fields['stopped'].t))

    def post_raise(self, X, exc):
        X.prove('raise.only_for_another_byte',
                z3.And(z3.BoolVal(exc.pyclass is self.E_end), self.avail() >= 1, self.at(0) != HY))


class EatLf(_Eater):
    qualname = 'HeadersEaeter._eat_lf'
    expected_labels = ('post.needs_more_only_without_a_byte', 'post.lf_consumed', 'raise.only_for_another_byte')

    def pre(self, X):
        return self.eater_pre(X)

    def post(self, X, ret):
        if isinstance(ret, VNone):
            X.prove('post.needs_more_only_without_a_byte', z3.And(self.avail() == 0, self.state_unchanged()))
        else:
            X.prove('post.lf_consumed', z3.And(self.avail() >= 1, self.at(0) == LF, ret.t == self.base + 1, self.state_unchanged()))

    def post_raise(self, X, exc):
        X.prove('raise.only_for_another_byte',
                z3.And(z3.BoolVal(exc.pyclass is self.E_mal), self.avail() >= 1, self.at(0) != LF))


class EatFirst(_Eater):
    qualname = 'HeadersEaeter._eat_first_crlf_or_last_hyphens'
    expected_labels = ('post.crlf_or_hyphens_consumed', 'post.undecided_cases', 'raise.only_for_a_single_wrong_byte',
                       'lemma.split_after_first_byte_equals_one_piece')

    def pre(self, X):
        return self.eater_pre(X)

    def two(self):
        return z3.SubSeq(self.chunk, self.base, 2)

    def post(self, X, ret):
        f = self.me.fields
        n = self.avail()
        if isinstance(ret, VNone):
            em = f['eat_meth']
            cont = z3.If(z3.And(n == 1, self.at(0) == CR), z3.BoolVal(em is self.m_lf),
                         z3.If(z3.And(n == 1, self.at(0) == HY), z3.BoolVal(em is self.m_hy), z3.BoolVal(em is self.m_self)))
            X.prove('post.undecided_cases',
                    z3.And(z3.Not(f['stopped'].t), cont,
                           z3.Or(n == 0, z3.And(n == 1, z3.Or(self.at(0) == CR, self.at(0) == HY)),
                                 z3.And(n >= 2, self.two() != CRLF, self.two() != HYHY))))
        else:
            X.prove('post.crlf_or_hyphens_consumed',
                    z3.And(n >= 2, ret.t == self.base + 2,
                           z3.Or(z3.And(self.two() == CRLF, z3.Not(f['stopped'].t)), z3.And(self.two() == HYHY, f['stopped'].t)),
                           z3.BoolVal(f['eat_meth'] is self.m_self)))
        # ---- split lemma (pure, over the three specifications): first byte b1 alone, then b2 in the next chunk
        b1, b2 = z3.Const('b1!l', BytesSort), z3.Const('b2!l', BytesSort)
        one = z3.And(L(b1) == 1, L(b2) == 1)
        both = z3.Concat(b1, b2)
        # verdict codes: 1 = part follows (CRLF consumed), 2 = closing delimiter (stopped), 3 = error
        one_piece = z3.If(both == CRLF, 1, z3.If(both == HYHY, 2, 0))
        split = z3.If(b1 == CR, z3.If(b2 == LF, 1, 3), z3.If(b1 == HY, z3.If(b2 == HY, 2, 3), 3))
        X.prove('lemma.split_after_first_byte_equals_one_piece',
                z3.Implies(z3.And(one, z3.Or(b1 == CR, b1 == HY), z3.Or(both == CRLF, both == HYHY)), one_piece == split))

    def post_raise(self, X, exc):
        X.prove('raise.only_for_a_single_wrong_byte',
                z3.And(z3.BoolVal(exc.pyclass is self.E_mal), self.avail() == 1, self.at(0) != CR, self.at(0) != HY))


CONTRACTS = [EatLastHyphen(), EatLf(), EatFirst()]


# ----------------------------------------------------------------------------------------- MatchTail.match_tail
class MatchTailC(Contract):
    """match_tail(s, start, end): does the window s[start:end] END with a non-empty head of the token?

    index contract (established by MatchTail.__init__, assumed here): self.idx.get(b) is None iff the byte b does not occur in
    the token, otherwise the ASCENDING list of ALL pairs [i, token[:i]] with token[i-1] == b (1-based i).
    Proved:  a returned i satisfies  i <= end-start  and  s[end-i:end] == token[:i]   (soundness)
             None is returned only if NO i <= end-start has s[end-i:end] == token[:i]   (completeness)
             the returned i is the smallest such i (with a token whose first byte does not recur - CRLF--boundary, boundary
             CR-free - there is at most one, so it is THE match)
    """
    props = ('C06',)
    file = 'ombott/request_pkg/multipart.py'
    qualname = 'MatchTail.match_tail'
    assumptions = ('index contract of MatchTail.idx (built by MatchTail.__init__): ascending, exactly the positions of the byte',
                   'precondition 0 <= start < end <= len(s) and end - start <= len(token)')
    expected_labels = ('post.match_is_a_tail_equal_to_a_token_head', 'post.none_only_if_no_head_matches', 'post.smallest_match')

    def pre(self, X):
        self.s = X.fresh(BytesSort, 's')
        self.T = X.fresh(BytesSort, 'token')
        self.start, self.end = X.fresh(z3.IntSort(), 'start'), X.fresh(z3.IntSort(), 'end')
        X.assume(z3.And(0 <= self.start, self.start < self.end, self.end <= L(self.s), L(self.T) >= 1,
                        self.end - self.start <= L(self.T)))
        self.b = self.s[self.end - 1]
        self.pos = X.fresh(z3.SeqSort(z3.IntSort()), 'positions')     # the i's of idx[b]
        self.present = X.choose(2, 'byte occurs in the token?') == 1
        T, pos, b = self.T, self.pos, self.b
        j, k, q = z3.Int('j!ix'), z3.Int('k!ix'), z3.Int('q!ix')
        self.jof = X.driver.uf('index_of_position', z3.IntSort(), z3.IntSort())
        if self.present:
            X.assume(L(pos) >= 1)
            X.assume(z3.ForAll([j], z3.Implies(z3.And(0 <= j, j < L(pos)), z3.And(pos[j] >= 1, pos[j] <= L(T), T[pos[j] - 1] == b))))
            X.assume(z3.ForAll([j, k], z3.Implies(z3.And(0 <= j, j < k, k < L(pos)), pos[j] < pos[k])))
            X.assume(z3.ForAll([q], z3.Implies(z3.And(1 <= q, q <= L(T), T[q - 1] == b),
                                               z3.And(0 <= self.jof(q), self.jof(q) < L(pos), pos[self.jof(q)] == q))))
        else:
            X.assume(z3.ForAll([q], z3.Implies(z3.And(1 <= q, q <= L(T)), T[q - 1] != b)))
        c = self

        def idx_get(X, args, kwargs):
            X.prove('index.looked_up_by_last_byte_of_the_window', args[1].t == z3.BV2Int(c.b))
            if not c.present:
                return NONE
            return VSeqPairs(c)
        self.stubs = {'Idx.get': idx_get}
        me = VObj('MT', {'idx': VObj('Idx', {}), 'len': VInt(L(self.T)), 'token': VBytes(self.T)})
        return {'self': me, 's': VBytes(self.s), 'start': VInt(self.start), 'end': VInt(self.end)}

    def tail(self, i):
        return z3.SubSeq(self.s, self.end - i, i)

    def head(self, i):
        return z3.SubSeq(self.T, 0, i)

    def _inv(self, X):
        n = X.v('__i0').t
        j = z3.Int('j!inv')
        slen = self.end - self.start
        return [('checked_entries_fit_but_do_not_match',
                 z3.And(n >= 0, n <= L(self.pos),
                        z3.ForAll([j], z3.Implies(z3.And(0 <= j, j < n),
                                                  z3.And(self.pos[j] <= slen, self.tail(self.pos[j]) != self.head(self.pos[j]))))))]

    @property
    def loop_inv(self):
        return {0: self._inv}

    def after_loop(self, X, k, how):
        if k == 0 and how == 'guard':
            X.record(exhausted=True)

    def _no_match_claim(self, X, upto_exclusive=None):
        """for an arbitrary i (skolem): 1 <= i <= slen and tail(i) == head(i) is impossible"""
        i = X.fresh(z3.IntSort(), 'any_i')
        slen = self.end - self.start
        hyp = z3.And(1 <= i, i <= slen, self.tail(i) == self.head(i))
        return i, hyp

    def _final(self, X, label, i, goal):
        """prove `goal` about the arbitrary position i from the quantifier-free part of the path condition plus hand-picked
        INSTANCES of the quantified hypotheses (index contract, loop invariant) - instantiation only, hence sound"""
        from pyvc.engine import Obligation
        slen = self.end - self.start
        T, pos, b = self.T, self.pos, self.b
        qf = [c for c in X.pc if not _has_quantifier(c)]
        inst = []
        n = X.v('__i0').t if X.has_local('__i0') else None
        if n is not None and not any('exhausted' in r for r in X.trace):
            n = n - 1        # leaving from inside the body: the invariant was assumed for the entries BEFORE the current one
            cur = n          # index of the current entry
        else:
            cur = None
        if self.present:
            J = self.jof(i)
            inst.append(z3.Implies(z3.And(1 <= i, i <= L(T), T[i - 1] == b), z3.And(0 <= J, J < L(pos), pos[J] == i)))   # completeness at i
            if n is not None:
                inst.append(z3.And(n >= 0, n <= L(pos)))
                inst.append(z3.Implies(z3.And(0 <= J, J < n), z3.And(pos[J] <= slen, self.tail(pos[J]) != self.head(pos[J]))))   # invariant at J
                if cur is not None:
                    for (a, c2) in ((J, cur), (cur, J)):
                        inst.append(z3.Implies(z3.And(0 <= a, a < c2, c2 < L(pos)), pos[a] < pos[c2]))                      # ascending
                    inst.append(z3.Implies(z3.And(0 <= cur, cur < L(pos)), z3.And(pos[cur] >= 1, pos[cur] <= L(T))))      # membership
        else:
            inst.append(z3.Implies(z3.And(1 <= i, i <= L(T)), T[i - 1] != b))
        # a fact of sequence theory, proved separately below: equal windows end with the same byte
        last = z3.Implies(z3.And(1 <= i, i <= slen, i <= L(T), self.tail(i) == self.head(i)), self.s[self.end - 1] == T[i - 1])
        pre = [z3.And(0 <= self.start, self.start < self.end, self.end <= L(self.s))]
        X.driver.add_obligation(Obligation('lemma.equal_windows_end_with_the_same_byte', pre, last, 'prove', X.where, list(X.taken)))
        X.driver.add_obligation(Obligation(label, qf + inst + [last], goal, 'prove', X.where, list(X.taken), list(X.trace)))

    def post(self, X, ret):
        slen = self.end - self.start
        i, hyp = self._no_match_claim(X)
        if isinstance(ret, VNone):
            self._final(X, 'post.none_only_if_no_head_matches', i, z3.Not(hyp))
        else:
            r = ret.t
            X.prove('post.match_is_a_tail_equal_to_a_token_head', z3.And(1 <= r, r <= slen, self.tail(r) == self.head(r)))
            self._final(X, 'post.smallest_match', i, z3.Implies(hyp, i >= r))

    def post_raise(self, X, exc):
        X.prove('raises.nothing', z3.BoolVal(False))


from pyvc.engine import Val, VTuple, VSeq   # noqa: E402


def _has_quantifier(t):
    if z3.is_quantifier(t):
        return True
    return any(_has_quantifier(c) for c in t.children())


class VSeqPairs(Val):
    """idx[b]: the list of [i, token[:i]] pairs, iterated in order"""

    def __init__(self, c):
        self.c = c

    def as_seq(self):
        c = self.c
        return VSeq(c.pos, lambda t: VTuple([VInt(t), VBytes(z3.SubSeq(c.T, 0, t))]))

    def truth(self, X):
        return z3.BoolVal(True)


CONTRACTS.append(MatchTailC())


# ------------------------------------------------------------------------------------------- MatchTail.__init__
from pyvc.engine import VList, VClass, Obligation   # noqa: E402

PArr = z3.ArraySort(z3.IntSort(), z3.SeqSort(z3.IntSort()))


class IdxDict(Val):
    """self.idx: defaultdict(list), byte -> list of [i, token[:i]]; modelled by the positions P[b] (the heads are checked
    when the pair is appended)"""
    mutable = True

    def __init__(self, P):
        self.P = P

    def clone(self, memo):
        return self

    def havoc(self, X, hint):
        self.P = X.fresh(PArr, hint + '_P')   # the same object, unknown content
        return self


class PosList(Val):
    def __init__(self, d, byte):
        self.d, self.byte = d, byte


class MatchTailInit(Contract):
    """establishes the index contract match_tail relies on:  for every byte b, idx[b] holds exactly the 1-based positions of b
    in the token, in ascending order, each paired with the token head of that length; a byte that does not occur has no entry."""
    props = ('C06',)
    file = 'ombott/request_pkg/multipart.py'
    qualname = 'MatchTail.__init__'
    assumptions = ('defaultdict(list): idx[c] creates an empty list on first access; idx.get(c) is None iff idx[c] was never accessed',
                   'membership is stated with the sequence predicate Contains(P[b], [q]); that a member has an index is sequence theory '
                   '(the form the contract of match_tail uses)')
    expected_labels = ('entry.pair_is_position_and_head', 'init.ascending', 'inv.entries_are_positions_of_their_byte', 'inv.ascending',
                       'inv.every_position_is_listed', 'post.entries_are_positions_of_their_byte', 'post.ascending',
                       'post.every_position_is_listed', 'post.token_and_length_stored')

    def pre(self, X):
        self.T = X.fresh(BytesSort, 'token')
        self.me = VObj('MT', {})
        self.idxd = None
        self.ops = []
        return {'self': self.me, 'token': VBytes(self.T)}

    def construct_hook(self, X, pyclass, args, kwargs):
        if getattr(pyclass, '__name__', '') == 'defaultdict' and len(args) == 1 and isinstance(args[0], VClass) \
                and args[0].pyclass is list:
            self.idxd = IdxDict(z3.K(z3.IntSort(), z3.Empty(z3.SeqSort(z3.IntSort()))))
            return self.idxd
        return None

    def getitem_hook(self, X, obj, key):
        if isinstance(obj, IdxDict) and isinstance(key, VInt):
            return PosList(obj, key.t)
        return None

    def method_hook(self, X, obj, name, args, kwargs):
        if isinstance(obj, PosList) and name == 'append' and len(args) == 1:
            e = args[0]
            ok = isinstance(e, VList) and len(e.items) == 2 and isinstance(e.items[0], VInt) and isinstance(e.items[1], VBytes)
            X.prove('entry.pair_is_position_and_head',
                    e.items[1].t == z3.SubSeq(self.T, 0, e.items[0].t) if ok else z3.BoolVal(False))
            if ok:
                d = obj.d
                self.ops.append(('append', obj.byte, d.P[obj.byte], e.items[0].t))
                d.P = z3.Store(d.P, obj.byte, z3.Concat(d.P[obj.byte], z3.Unit(e.items[0].t)))
            return NONE
        if isinstance(obj, PosList) and name == 'insert' and len(args) == 2 and isinstance(args[0], VInt) \
                and z3.is_int_value(z3.simplify(args[0].t)) and z3.simplify(args[0].t).as_long() == 0:
            e = args[1]
            ok = isinstance(e, VList) and len(e.items) == 2 and isinstance(e.items[0], VInt) and isinstance(e.items[1], VBytes)
            X.prove('entry.pair_is_position_and_head',
                    e.items[1].t == z3.SubSeq(self.T, 0, e.items[0].t) if ok else z3.BoolVal(False))
            if ok:
                d = obj.d
                self.ops.append(('insert0', obj.byte, d.P[obj.byte], e.items[0].t))
                d.P = z3.Store(d.P, obj.byte, z3.Concat(z3.Unit(e.items[0].t), d.P[obj.byte]))
            return NONE
        return None

    # ---- the three quantified facts, for the first n positions
    def facts(self, P, n):
        T = self.T
        b, j, k, q = z3.Int('b!q'), z3.Int('j!q'), z3.Int('k!q'), z3.Int('q!q')
        f1 = z3.ForAll([b, j], z3.Implies(z3.And(0 <= j, j < L(P[b])),
                                          z3.And(P[b][j] >= 1, P[b][j] <= n, z3.BV2Int(T[P[b][j] - 1]) == b)))
        f2 = z3.ForAll([b, j, k], z3.Implies(z3.And(0 <= j, j < k, k < L(P[b])), P[b][j] < P[b][k]))
        f3 = z3.ForAll([b, q], z3.Implies(z3.And(1 <= q, q <= n, z3.BV2Int(T[q - 1]) == b), z3.Contains(P[b], z3.Unit(q))))
        return f1, f2, f3

    def inst(self, P, n, b, j, k, q):
        """instances of the three facts at the given terms (quantifier-free)"""
        T = self.T
        out = []
        for jj in (j, k):
            out.append(z3.Implies(z3.And(0 <= jj, jj < L(P[b])),
                                  z3.And(P[b][jj] >= 1, P[b][jj] <= n, z3.BV2Int(T[P[b][jj] - 1]) == b)))
        out.append(z3.Implies(z3.And(0 <= j, j < k, k < L(P[b])), P[b][j] < P[b][k]))
        out.append(z3.Implies(z3.And(1 <= q, q <= n, z3.BV2Int(T[q - 1]) == b), z3.Contains(P[b], z3.Unit(q))))
        return out

    def _inv(self, X):
        n = X.v('__i0').t
        idxd = X.env.get('idx')
        if not isinstance(idxd, IdxDict):
            return [('index_is_the_defaultdict', z3.BoolVal(False))]
        # the three quantified facts are part of the invariant too; they are assumed at the loop head (after_havoc) and proved
        # on entry / after the body / at the exit by instantiation at fresh skolems (init.*, inv.*, post.* obligations)
        return [('progress', z3.And(n >= 0, n <= L(self.T)))]

    def before_loop(self, X, k):
        d = X.env.get('idx')
        if isinstance(d, IdxDict):
            self._goals(X, 'init', d.P, z3.IntVal(0), d.P, z3.IntVal(0), use_hyp=False)

    @property
    def loop_inv(self):
        return {0: self._inv}

    def after_havoc(self, X, k):
        d = X.env.get('idx')
        self.P_head = d.P if isinstance(d, IdxDict) else None
        self.n_head = X.v('__i0').t
        if self.P_head is not None:
            for f in self.facts(self.P_head, self.n_head):
                X.assume(f)

    def _goals(self, X, tag, P_old, n_old, P_new, n_new, use_hyp=True):
        """prove the three facts for (P_new, n_new) at fresh skolems from instances of the facts for (P_old, n_old)"""
        T = self.T
        b, j, k, q = (X.fresh(z3.IntSort(), s) for s in ('b0', 'j0', 'k0', 'q0'))
        qf = [c for c in X.pc if not _has_quantifier(c)]
        hyp = qf + (self.inst(P_old, n_old, b, j, k, q) if use_hyp else [])
        # facts of sequence theory about the concatenations the body performed (valid lemmas, stated to help the solver)
        Pb = P_old[b] if use_hyp else P_new[b]
        for kind, byte, a, x in (self.ops if use_hyp else []):
            if kind == 'append':
                sq = z3.Concat(a, z3.Unit(x))
                hyp += [L(sq) == L(a) + 1, sq[L(a)] == x] + \
                       [z3.Implies(z3.And(0 <= t, t < L(a)), sq[t] == a[t]) for t in (j, k)]
            else:
                sq = z3.Concat(z3.Unit(x), a)
                hyp += [L(sq) == L(a) + 1, sq[0] == x] + \
                       [z3.Implies(z3.And(1 <= t, t <= L(a)), sq[t] == a[t - 1]) for t in (j, k)]
            hyp.append(z3.Contains(sq, z3.Unit(q)) == z3.Or(z3.Contains(a, z3.Unit(q)), q == x))
            Pb = z3.If(b == byte, sq, Pb)
        # Pb: the entry of the generic byte after the recorded operations; that this IS what the body left in the index is an
        # obligation of its own (array theory only)
        X.driver.add_obligation(Obligation(f'{tag}.effect_of_the_body_on_the_index', qf, P_new[b] == Pb, 'prove', X.where,
                                           list(X.taken), list(X.trace)))
        g1 = z3.Implies(z3.And(0 <= j, j < L(Pb)), z3.And(Pb[j] >= 1, Pb[j] <= n_new, z3.BV2Int(T[Pb[j] - 1]) == b))
        g2 = z3.Implies(z3.And(0 <= j, j < k, k < L(Pb)), Pb[j] < Pb[k])
        g3 = z3.Implies(z3.And(1 <= q, q <= n_new, z3.BV2Int(T[q - 1]) == b), z3.Contains(Pb, z3.Unit(q)))
        for nm, g in (('entries_are_positions_of_their_byte', g1), ('ascending', g2), ('every_position_is_listed', g3)):
            X.driver.add_obligation(Obligation(f'{tag}.{nm}', hyp, g, 'prove', X.where, list(X.taken), list(X.trace)))

    def end_of_body(self, X, k):
        d = X.env.get('idx')
        self._goals(X, 'inv', self.P_head, self.n_head, d.P, X.v('__i0').t)

    def after_loop(self, X, k, how):
        d = X.env.get('idx')
        n = X.v('__i0').t
        self._goals(X, 'post', self.P_head, self.n_head, d.P, L(self.T))
        self.P_final = d.P

    def post(self, X, ret):
        f = self.me.fields
        ok = f.get('idx') is X.env.get('idx') and isinstance(f.get('token'), VBytes) and isinstance(f.get('len'), VInt)
        X.prove('post.token_and_length_stored',
                z3.And(f['token'].t == self.T, f['len'].t == L(self.T)) if ok else z3.BoolVal(False))

    def post_raise(self, X, exc):
        X.prove('raises.nothing', z3.BoolVal(False))


CONTRACTS.append(MatchTailInit())
