"""C06 — the post-delimiter eaters of the multipart parser: functional contracts + split lemmas.

After a delimiter the parser must see CRLF (a part follows) or "--" (closing delimiter).  The three eaters look at one or
two bytes.  Each is pinned down completely (result, exception, state change) as a function of the bytes available from
`base`; the split lemmas then show, as pure formulas over these specifications, that feeding the bytes in two pieces gives
the same verdict at the same absolute position as feeding them in one piece - for every continuation that a well-formed
body can have there (a prefix of CRLF or of "--") and also for a wrong second byte.

  _eat_last_hyphen(chunk, base)   no byte -> None, state unchanged; '-' -> stopped, base+1; any other byte -> UnexpectedBodyEndError
                                  (exactly ONE byte is inspected: the defect repaired by e3e3bd3 compared two bytes with one)
  _eat_lf(chunk, base)            no byte -> None; LF -> base+1; other -> MalformedHeadersError
  _eat_first_crlf_or_last_hyphens no byte -> None; CRLF -> base+2; "--" -> stopped, base+2;
                                  exactly one byte: CR -> continue with _eat_lf, '-' -> continue with _eat_last_hyphen, other -> MalformedHeadersError
                                  (two other bytes -> None: the parser stalls on such malformed input; outside the statement)
MatchTail.match_tail, BodyMarkuper._eat_data / iter_markup (window search, offset bookkeeping) are NOT under contract:
they are covered by the bounded check only.
"""
import z3
from pyvc.engine import (Contract, VInt, VBool, VBytes, VObj, VFunc, VNone, NONE, Unsupported, BytesSort, bytes_lit)

L = z3.Length
CR, LF, HY = bytes_lit(b'\r'), bytes_lit(b'\n'), bytes_lit(b'-')
CRLF, HYHY = bytes_lit(b'\r\n'), bytes_lit(b'--')


class _Eater(Contract):
    props = ('C06',)
    file = 'ombott/request_pkg/multipart.py'
    assumptions = ('precondition 0 <= base (a position in the chunk, possibly at its end)',)

    def eater_pre(self, X):
        self.chunk = X.fresh(BytesSort, 'chunk')
        self.base = X.fresh(z3.IntSort(), 'base')
        X.assume(z3.And(self.base >= 0, self.base <= L(self.chunk)))
        self.m_self = VFunc(None, self.qualname.split('.')[-1])
        self.m_lf = VFunc(None, '_eat_lf')
        self.m_hy = VFunc(None, '_eat_last_hyphen')
        c = self

        def map_get(X, args, kwargs):
            k = args[1].t
            if X.decide(k == CR):
                return c.m_lf
            if X.decide(k == HY):
                return c.m_hy
            return NONE
        self.stubs = {'MethMap.get': map_get}
        self.me = VObj('Eater', {'eat_meth': self.m_self, '_meth_map': VObj('MethMap', {}), 'stopped': VBool(False),
                                 '_eat_lf': self.m_lf, '_eat_last_hyphen': self.m_hy, 'headers_end_expected': NONE})
        mod = X.globals
        self.E_end = mod['UnexpectedBodyEndError']
        self.E_mal = mod['MalformedHeadersError']
        return {'self': self.me, 'chunk': VBytes(self.chunk), 'base': VInt(self.base)}

    def avail(self):
        return L(self.chunk) - self.base

    def at(self, k):
        return z3.SubSeq(self.chunk, self.base + k, 1)

    def state_unchanged(self):
        f = self.me.fields
        return z3.And(z3.BoolVal(f['eat_meth'] is self.m_self), z3.Not(f['stopped'].t))

    def post_raise(self, X, exc):
        X.prove('raises.nothing', z3.BoolVal(False))


class EatLastHyphen(_Eater):
    qualname = 'HeadersEaeter._eat_last_hyphen'
    expected_labels = ('post.needs_more_only_without_a_byte', 'post.hyphen_stops_at_next_position', 'raise.only_for_another_byte')

    def pre(self, X):
        return self.eater_pre(X)

    def post(self, X, ret):
        if isinstance(ret, VNone):
            X.prove('post.needs_more_only_without_a_byte', z3.And(self.avail() == 0, self.state_unchanged()))
        else:
            X.prove('post.hyphen_stops_at_next_position',
                    z3.And(self.avail() >= 1, self.at(0) == HY, ret.t == self.base + 1, self.me.fields['stopped'].t))

    def post_raise(self, X, exc):
        X.prove('raise.only_for_another_byte',
                z3.And(z3.BoolVal(exc.pyclass is self.E_end), self.avail() >= 1, self.at(0) != HY))


class EatLf(_Eater):
    qualname = 'HeadersEaeter._eat_lf'
    expected_labels = ('post.needs_more_only_without_a_byte', 'post.lf_consumed', 'raise.only_for_another_byte')

    def pre(self, X):
        return self.eater_pre(X)

    def post(self, X, ret):
        if isinstance(ret, VNone):
            X.prove('post.needs_more_only_without_a_byte', z3.And(self.avail() == 0, self.state_unchanged()))
        else:
            X.prove('post.lf_consumed', z3.And(self.avail() >= 1, self.at(0) == LF, ret.t == self.base + 1, self.state_unchanged()))

    def post_raise(self, X, exc):
        X.prove('raise.only_for_another_byte',
                z3.And(z3.BoolVal(exc.pyclass is self.E_mal), self.avail() >= 1, self.at(0) != LF))


class EatFirst(_Eater):
    qualname = 'HeadersEaeter._eat_first_crlf_or_last_hyphens'
    expected_labels = ('post.crlf_or_hyphens_consumed', 'post.undecided_cases', 'raise.only_for_a_single_wrong_byte',
                       'lemma.split_after_first_byte_equals_one_piece')

    def pre(self, X):
        return self.eater_pre(X)

    def two(self):
        return z3.SubSeq(self.chunk, self.base, 2)

    def post(self, X, ret):
        f = self.me.fields
        n = self.avail()
        if isinstance(ret, VNone):
            em = f['eat_meth']
            cont = z3.If(z3.And(n == 1, self.at(0) == CR), z3.BoolVal(em is self.m_lf),
                         z3.If(z3.And(n == 1, self.at(0) == HY), z3.BoolVal(em is self.m_hy), z3.BoolVal(em is self.m_self)))
            X.prove('post.undecided_cases',
                    z3.And(z3.Not(f['stopped'].t), cont,
                           z3.Or(n == 0, z3.And(n == 1, z3.Or(self.at(0) == CR, self.at(0) == HY)),
                                 z3.And(n >= 2, self.two() != CRLF, self.two() != HYHY))))
        else:
            X.prove('post.crlf_or_hyphens_consumed',
                    z3.And(n >= 2, ret.t == self.base + 2,
                           z3.Or(z3.And(self.two() == CRLF, z3.Not(f['stopped'].t)), z3.And(self.two() == HYHY, f['stopped'].t)),
                           z3.BoolVal(f['eat_meth'] is self.m_self)))
        # ---- split lemma (pure, over the three specifications): first byte b1 alone, then b2 in the next chunk
        b1, b2 = z3.Const('b1!l', BytesSort), z3.Const('b2!l', BytesSort)
        one = z3.And(L(b1) == 1, L(b2) == 1)
        both = z3.Concat(b1, b2)
        # verdict codes: 1 = part follows (CRLF consumed), 2 = closing delimiter (stopped), 3 = error
        one_piece = z3.If(both == CRLF, 1, z3.If(both == HYHY, 2, 0))
        split = z3.If(b1 == CR, z3.If(b2 == LF, 1, 3), z3.If(b1 == HY, z3.If(b2 == HY, 2, 3), 3))
        X.prove('lemma.split_after_first_byte_equals_one_piece',
                z3.Implies(z3.And(one, z3.Or(b1 == CR, b1 == HY), z3.Or(both == CRLF, both == HYHY)), one_piece == split))

    def post_raise(self, X, exc):
        X.prove('raise.only_for_a_single_wrong_byte',
                z3.And(z3.BoolVal(exc.pyclass is self.E_mal), self.avail() == 1, self.at(0) != CR, self.at(0) != HY))


CONTRACTS = [EatLastHyphen(), EatLf(), EatFirst()]


# ----------------------------------------------------------------------------------------- MatchTail.match_tail
class MatchTailC(Contract):
    """match_tail(s, start, end): does the window s[start:end] END with a non-empty head of the token?

    index contract (established by MatchTail.__init__, assumed here): self.idx.get(b) is None iff the byte b does not occur in
    the token, otherwise the ASCENDING list of ALL pairs [i, token[:i]] with token[i-1] == b (1-based i).
    Proved:  a returned i satisfies  i <= end-start  and  s[end-i:end] == token[:i]   (soundness)
             None is returned only if NO i <= end-start has s[end-i:end] == token[:i]   (completeness)
             the returned i is the smallest such i (with a token whose first byte does not recur - CRLF--boundary, boundary
             CR-free - there is at most one, so it is THE match)
    """
    props = ('C06',)
    file = 'ombott/request_pkg/multipart.py'
    qualname = 'MatchTail.match_tail'
    assumptions = ('index contract of MatchTail.idx (built by MatchTail.__init__): ascending, exactly the positions of the byte',
                   'precondition 0 <= start < end <= len(s) and end - start <= len(token)')
    expected_labels = ('post.match_is_a_tail_equal_to_a_token_head', 'post.none_only_if_no_head_matches', 'post.smallest_match')

    def pre(self, X):
        self.s = X.fresh(BytesSort, 's')
        self.T = X.fresh(BytesSort, 'token')
        self.start, self.end = X.fresh(z3.IntSort(), 'start'), X.fresh(z3.IntSort(), 'end')
        X.assume(z3.And(0 <= self.start, self.start < self.end, self.end <= L(self.s), L(self.T) >= 1,
                        self.end - self.start <= L(self.T)))
        self.b = self.s[self.end - 1]
        self.pos = X.fresh(z3.SeqSort(z3.IntSort()), 'positions')     # the i's of idx[b]
        self.present = X.choose(2, 'byte occurs in the token?') == 1
        T, pos, b = self.T, self.pos, self.b
        j, k, q = z3.Int('j!ix'), z3.Int('k!ix'), z3.Int('q!ix')
        self.jof = X.driver.uf('index_of_position', z3.IntSort(), z3.IntSort())
        if self.present:
            X.assume(L(pos) >= 1)
            X.assume(z3.ForAll([j], z3.Implies(z3.And(0 <= j, j < L(pos)), z3.And(pos[j] >= 1, pos[j] <= L(T), T[pos[j] - 1] == b))))
            X.assume(z3.ForAll([j, k], z3.Implies(z3.And(0 <= j, j < k, k < L(pos)), pos[j] < pos[k])))
            X.assume(z3.ForAll([q], z3.Implies(z3.And(1 <= q, q <= L(T), T[q - 1] == b),
                                               z3.And(0 <= self.jof(q), self.jof(q) < L(pos), pos[self.jof(q)] == q))))
        else:
            X.assume(z3.ForAll([q], z3.Implies(z3.And(1 <= q, q <= L(T)), T[q - 1] != b)))
        c = self

        def idx_get(X, args, kwargs):
            X.prove('index.looked_up_by_last_byte_of_the_window', args[1].t == z3.BV2Int(c.b))
            if not c.present:
                return NONE
            return VSeqPairs(c)
        self.stubs = {'Idx.get': idx_get}
        me = VObj('MT', {'idx': VObj('Idx', {}), 'len': VInt(L(self.T)), 'token': VBytes(self.T)})
        return {'self': me, 's': VBytes(self.s), 'start': VInt(self.start), 'end': VInt(self.end)}

    def tail(self, i):
        return z3.SubSeq(self.s, self.end - i, i)

    def head(self, i):
        return z3.SubSeq(self.T, 0, i)

    def _inv(self, X):
        n = X.v('__i0').t
        j = z3.Int('j!inv')
        slen = self.end - self.start
        return [('checked_entries_fit_but_do_not_match',
                 z3.And(n >= 0, n <= L(self.pos),
                        z3.ForAll([j], z3.Implies(z3.And(0 <= j, j < n),
                                                  z3.And(self.pos[j] <= slen, self.tail(self.pos[j]) != self.head(self.pos[j]))))))]

    @property
    def loop_inv(self):
        return {0: self._inv}

    def after_loop(self, X, k, how):
        if k == 0 and how == 'guard':
            X.record(exhausted=True)

    def _no_match_claim(self, X, upto_exclusive=None):
        """for an arbitrary i (skolem): 1 <= i <= slen and tail(i) == head(i) is impossible"""
        i = X.fresh(z3.IntSort(), 'any_i')
        slen = self.end - self.start
        hyp = z3.And(1 <= i, i <= slen, self.tail(i) == self.head(i))
        return i, hyp

    def _final(self, X, label, i, goal):
        """prove `goal` about the arbitrary position i from the quantifier-free part of the path condition plus hand-picked
        INSTANCES of the quantified hypotheses (index contract, loop invariant) - instantiation only, hence sound"""
        from pyvc.engine import Obligation
        slen = self.end - self.start
        T, pos, b = self.T, self.pos, self.b
        qf = [c for c in X.pc if not _has_quantifier(c)]
        inst = []
        n = X.v('__i0').t if X.has_local('__i0') else None
        if n is not None and not any('exhausted' in r for r in X.trace):
            n = n - 1        # leaving from inside the body: the invariant was assumed for the entries BEFORE the current one
            cur = n          # index of the current entry
        else:
            cur = None
        if self.present:
            J = self.jof(i)
            inst.append(z3.Implies(z3.And(1 <= i, i <= L(T), T[i - 1] == b), z3.And(0 <= J, J < L(pos), pos[J] == i)))   # completeness at i
            if n is not None:
                inst.append(z3.And(n >= 0, n <= L(pos)))
                inst.append(z3.Implies(z3.And(0 <= J, J < n), z3.And(pos[J] <= slen, self.tail(pos[J]) != self.head(pos[J]))))   # invariant at J
                if cur is not None:
                    for (a, c2) in ((J, cur), (cur, J)):
                        inst.append(z3.Implies(z3.And(0 <= a, a < c2, c2 < L(pos)), pos[a] < pos[c2]))                      # ascending
                    inst.append(z3.Implies(z3.And(0 <= cur, cur < L(pos)), z3.And(pos[cur] >= 1, pos[cur] <= L(T))))      # membership
        else:
            inst.append(z3.Implies(z3.And(1 <= i, i <= L(T)), T[i - 1] != b))
        # a fact of sequence theory, proved separately below: equal windows end with the same byte
        last = z3.Implies(z3.And(1 <= i, i <= slen, i <= L(T), self.tail(i) == self.head(i)), self.s[self.end - 1] == T[i - 1])
        pre = [z3.And(0 <= self.start, self.start < self.end, self.end <= L(self.s))]
        X.driver.add_obligation(Obligation('lemma.equal_windows_end_with_the_same_byte', pre, last, 'prove', X.where, list(X.taken)))
        X.driver.add_obligation(Obligation(label, qf + inst + [last], goal, 'prove', X.where, list(X.taken), list(X.trace)))

    def post(self, X, ret):
        slen = self.end - self.start
        i, hyp = self._no_match_claim(X)
        if isinstance(ret, VNone):
            self._final(X, 'post.none_only_if_no_head_matches', i, z3.Not(hyp))
        else:
            r = ret.t
            X.prove('post.match_is_a_tail_equal_to_a_token_head', z3.And(1 <= r, r <= slen, self.tail(r) == self.head(r)))
            self._final(X, 'post.smallest_match', i, z3.Implies(hyp, i >= r))

    def post_raise(self, X, exc):
        X.prove('raises.nothing', z3.BoolVal(False))


from pyvc.engine import Val, VTuple, VSeq   # noqa: E402


def _has_quantifier(t):
    if z3.is_quantifier(t):
        return True
    return any(_has_quantifier(c) for c in t.children())


class VSeqPairs(Val):
    """idx[b]: the list of [i, token[:i]] pairs, iterated in order"""

    def __init__(self, c):
        self.c = c

    def as_seq(self):
        c = self.c
        return VSeq(c.pos, lambda t: VTuple([VInt(t), VBytes(z3.SubSeq(c.T, 0, t))]))

    def truth(self, X):
        return z3.BoolVal(True)


CONTRACTS.append(MatchTailC())


# ------------------------------------------------------------------------------------------- MatchTail.__init__
from pyvc.engine import VList, VClass, Obligation, VStr, VOpaque   # noqa: E402

PArr = z3.ArraySort(z3.IntSort(), z3.SeqSort(z3.IntSort()))


class IdxDict(Val):
    """self.idx: defaultdict(list), byte -> list of [i, token[:i]]; modelled by the positions P[b] (the heads are checked
    when the pair is appended)"""
    mutable = True

    def __init__(self, P):
        self.P = P

    def clone(self, memo):
        return self

    def havoc(self, X, hint):
        self.P = X.fresh(PArr, hint + '_P')   # the same object, unknown content
        return self


class PosList(Val):
    def __init__(self, d, byte):
        self.d, self.byte = d, byte


class MatchTailInit(Contract):
    """establishes the index contract match_tail relies on:  for every byte b, idx[b] holds exactly the 1-based positions of b
    in the token, in ascending order, each paired with the token head of that length; a byte that does not occur has no entry."""
    props = ('C06',)
    file = 'ombott/request_pkg/multipart.py'
    qualname = 'MatchTail.__init__'
    assumptions = ('defaultdict(list): idx[c] creates an empty list on first access; idx.get(c) is None iff idx[c] was never accessed',
                   'membership is stated with the sequence predicate Contains(P[b], [q]); that a member has an index is sequence theory '
                   '(the form the contract of match_tail uses)')
    expected_labels = ('entry.pair_is_position_and_head', 'init.ascending', 'inv.entries_are_positions_of_their_byte', 'inv.ascending',
                       'inv.every_position_is_listed', 'post.entries_are_positions_of_their_byte', 'post.ascending',
                       'post.every_position_is_listed', 'post.token_and_length_stored')

    def pre(self, X):
        self.T = X.fresh(BytesSort, 'token')
        self.me = VObj('MT', {})
        self.idxd = None
        self.ops = []
        return {'self': self.me, 'token': VBytes(self.T)}

    def construct_hook(self, X, pyclass, args, kwargs):
        if getattr(pyclass, '__name__', '') == 'defaultdict' and len(args) == 1 and isinstance(args[0], VClass) \
                and args[0].pyclass is list:
            self.idxd = IdxDict(z3.K(z3.IntSort(), z3.Empty(z3.SeqSort(z3.IntSort()))))
            return self.idxd
        return None

    def getitem_hook(self, X, obj, key):
        if isinstance(obj, IdxDict) and isinstance(key, VInt):
            return PosList(obj, key.t)
        return None

    def method_hook(self, X, obj, name, args, kwargs):
        if isinstance(obj, PosList) and name == 'append' and len(args) == 1:
            e = args[0]
            ok = isinstance(e, VList) and len(e.items) == 2 and isinstance(e.items[0], VInt) and isinstance(e.items[1], VBytes)
            X.prove('entry.pair_is_position_and_head',
                    e.items[1].t == z3.SubSeq(self.T, 0, e.items[0].t) if ok else z3.BoolVal(False))
            if ok:
                d = obj.d
                self.ops.append(('append', obj.byte, d.P[obj.byte], e.items[0].t))
                d.P = z3.Store(d.P, obj.byte, z3.Concat(d.P[obj.byte], z3.Unit(e.items[0].t)))
            return NONE
        if isinstance(obj, PosList) and name == 'insert' and len(args) == 2 and isinstance(args[0], VInt) \
                and z3.is_int_value(z3.simplify(args[0].t)) and z3.simplify(args[0].t).as_long() == 0:
            e = args[1]
            ok = isinstance(e, VList) and len(e.items) == 2 and isinstance(e.items[0], VInt) and isinstance(e.items[1], VBytes)
            X.prove('entry.pair_is_position_and_head',
                    e.items[1].t == z3.SubSeq(self.T, 0, e.items[0].t) if ok else z3.BoolVal(False))
            if ok:
                d = obj.d
                self.ops.append(('insert0', obj.byte, d.P[obj.byte], e.items[0].t))
                d.P = z3.Store(d.P, obj.byte, z3.Concat(z3.Unit(e.items[0].t), d.P[obj.byte]))
            return NONE
        return None

    # ---- the three quantified facts, for the first n positions
    def facts(self, P, n):
        T = self.T
        b, j, k, q = z3.Int('b!q'), z3.Int('j!q'), z3.Int('k!q'), z3.Int('q!q')
        f1 = z3.ForAll([b, j], z3.Implies(z3.And(0 <= j, j < L(P[b])),
                                          z3.And(P[b][j] >= 1, P[b][j] <= n, z3.BV2Int(T[P[b][j] - 1]) == b)))
        f2 = z3.ForAll([b, j, k], z3.Implies(z3.And(0 <= j, j < k, k < L(P[b])), P[b][j] < P[b][k]))
        f3 = z3.ForAll([b, q], z3.Implies(z3.And(1 <= q, q <= n, z3.BV2Int(T[q - 1]) == b), z3.Contains(P[b], z3.Unit(q))))
        return f1, f2, f3

    def inst(self, P, n, b, j, k, q):
        """instances of the three facts at the given terms (quantifier-free)"""
        T = self.T
        out = []
        for jj in (j, k):
            out.append(z3.Implies(z3.And(0 <= jj, jj < L(P[b])),
                                  z3.And(P[b][jj] >= 1, P[b][jj] <= n, z3.BV2Int(T[P[b][jj] - 1]) == b)))
        out.append(z3.Implies(z3.And(0 <= j, j < k, k < L(P[b])), P[b][j] < P[b][k]))
        out.append(z3.Implies(z3.And(1 <= q, q <= n, z3.BV2Int(T[q - 1]) == b), z3.Contains(P[b], z3.Unit(q))))
        return out

    def _inv(self, X):
        n = X.v('__i0').t
        idxd = X.env.get('idx')
        if not isinstance(idxd, IdxDict):
            return [('index_is_the_defaultdict', z3.BoolVal(False))]
        # the three quantified facts are part of the invariant too; they are assumed at the loop head (after_havoc) and proved
        # on entry / after the body / at the exit by instantiation at fresh skolems (init.*, inv.*, post.* obligations)
        return [('progress', z3.And(n >= 0, n <= L(self.T)))]

    def before_loop(self, X, k):
        d = X.env.get('idx')
        if isinstance(d, IdxDict):
            self._goals(X, 'init', d.P, z3.IntVal(0), d.P, z3.IntVal(0), use_hyp=False)

    @property
    def loop_inv(self):
        return {0: self._inv}

    def after_havoc(self, X, k):
        d = X.env.get('idx')
        self.P_head = d.P if isinstance(d, IdxDict) else None
        self.n_head = X.v('__i0').t
        if self.P_head is not None:
            for f in self.facts(self.P_head, self.n_head):
                X.assume(f)

    def _goals(self, X, tag, P_old, n_old, P_new, n_new, use_hyp=True):
        """prove the three facts for (P_new, n_new) at fresh skolems from instances of the facts for (P_old, n_old)"""
        T = self.T
        b, j, k, q = (X.fresh(z3.IntSort(), s) for s in ('b0', 'j0', 'k0', 'q0'))
        qf = [c for c in X.pc if not _has_quantifier(c)]
        hyp = qf + (self.inst(P_old, n_old, b, j, k, q) if use_hyp else [])
        # facts of sequence theory about the concatenations the body performed (valid lemmas, stated to help the solver)
        Pb = P_old[b] if use_hyp else P_new[b]
        for kind, byte, a, x in (self.ops if use_hyp else []):
            if kind == 'append':
                sq = z3.Concat(a, z3.Unit(x))
                hyp += [L(sq) == L(a) + 1, sq[L(a)] == x] + \
                       [z3.Implies(z3.And(0 <= t, t < L(a)), sq[t] == a[t]) for t in (j, k)]
            else:
                sq = z3.Concat(z3.Unit(x), a)
                hyp += [L(sq) == L(a) + 1, sq[0] == x] + \
                       [z3.Implies(z3.And(1 <= t, t <= L(a)), sq[t] == a[t - 1]) for t in (j, k)]
            hyp.append(z3.Contains(sq, z3.Unit(q)) == z3.Or(z3.Contains(a, z3.Unit(q)), q == x))
            Pb = z3.If(b == byte, sq, Pb)
        # Pb: the entry of the generic byte after the recorded operations; that this IS what the body left in the index is an
        # obligation of its own (array theory only)
        X.driver.add_obligation(Obligation(f'{tag}.effect_of_the_body_on_the_index', qf, P_new[b] == Pb, 'prove', X.where,
                                           list(X.taken), list(X.trace)))
        g1 = z3.Implies(z3.And(0 <= j, j < L(Pb)), z3.And(Pb[j] >= 1, Pb[j] <= n_new, z3.BV2Int(T[Pb[j] - 1]) == b))
        g2 = z3.Implies(z3.And(0 <= j, j < k, k < L(Pb)), Pb[j] < Pb[k])
        g3 = z3.Implies(z3.And(1 <= q, q <= n_new, z3.BV2Int(T[q - 1]) == b), z3.Contains(Pb, z3.Unit(q)))
        for nm, g in (('entries_are_positions_of_their_byte', g1), ('ascending', g2), ('every_position_is_listed', g3)):
            X.driver.add_obligation(Obligation(f'{tag}.{nm}', hyp, g, 'prove', X.where, list(X.taken), list(X.trace)))

    def end_of_body(self, X, k):
        d = X.env.get('idx')
        self._goals(X, 'inv', self.P_head, self.n_head, d.P, X.v('__i0').t)

    def after_loop(self, X, k, how):
        d = X.env.get('idx')
        n = X.v('__i0').t
        self._goals(X, 'post', self.P_head, self.n_head, d.P, L(self.T))
        self.P_final = d.P

    def post(self, X, ret):
        f = self.me.fields
        ok = f.get('idx') is X.env.get('idx') and isinstance(f.get('token'), VBytes) and isinstance(f.get('len'), VInt)
        X.prove('post.token_and_length_stored',
                z3.And(f['token'].t == self.T, f['len'].t == L(self.T)) if ok else z3.BoolVal(False))

    def post_raise(self, X, exc):
        X.prove('raises.nothing', z3.BoolVal(False))


CONTRACTS.append(MatchTailInit())


# ------------------------------------------------------------------------------------------- HeadersEaeter.eat
class HeadersEat(Contract):
    """the dispatcher of the post-delimiter state machine.  With the (proved) contracts of the three small eaters and the stated
    contract of _eat_headers as callees:
      * None is returned only when the eater that was consulted needs more input (returned None) - never because a position
        happened to be 0 or negative;
      * a position is returned only as the result of _eat_headers, entered exactly at the position the CRLF eater returned, and
        then the eater is reset to _eat_first_crlf_or_last_hyphens for the next delimiter;
      * StopMarkupException is raised exactly when an eater recognised the closing delimiter (stopped), and nothing else is
        raised by the dispatcher itself;
      * the recursion is the single step from a CRLF eater to _eat_headers (depth 1)."""
    props = ('C06',)
    file = 'ombott/request_pkg/multipart.py'
    qualname = 'HeadersEaeter.eat'
    assumptions = ('callee contracts of _eat_first_crlf_or_last_hyphens, _eat_lf, _eat_last_hyphen as proved above',
                   '_eat_headers(chunk, base) returns None (more input needed; it may update headers_end_expected) or an int position '
                   '(possibly 0 or negative: the terminator may have begun in an earlier chunk), or raises MalformedHeadersError; it does '
                   'not touch eat_meth / stopped  [its body uses a regular expression: bounded only]',
                   'the recursive call obeys this contract for eat_meth == _eat_headers (partial correctness; the recursion happens only '
                   'after eat_meth was set to _eat_headers, so its depth is 1)')
    expected_labels = ('none.only_when_the_consulted_eater_needs_more_input', 'pos.is_the_result_of_eat_headers',
                       'pos.eater_reset_for_the_next_delimiter', 'headers.entered_where_the_crlf_eater_stopped',
                       'raise.stop_iff_closing_delimiter_seen', 'raise.nothing_else_from_the_dispatcher')

    def pre(self, X):
        g = X.globals
        self.Stop, self.Mal, self.End = g['StopMarkupException'], g['MalformedHeadersError'], g['UnexpectedBodyEndError']
        self.chunk = X.fresh(BytesSort, 'chunk')
        self.base = X.fresh(z3.IntSort(), 'base')
        X.assume(z3.And(self.base >= 0, self.base <= L(self.chunk)))
        self.start = ('first', 'lf', 'hyphen', 'headers')[X.choose(4, 'eat_meth on entry')]
        self.log = []           # what happened, in order
        self.hdr_result = None
        self.hdr_base = None
        self.pre_pos = None
        self.raised_by_callee = False
        c = self
        me = VObj('HE', {'stopped': VBool(False), 'headers_end_expected': NONE})

        def set_meth(name):
            me.fields['eat_meth'] = c.m[name]

        def first(X, args, kwargs):
            c.log.append('first')
            k = X.choose(6, 'first: None | None->lf | None->hyphen | CRLF | -- | Malformed')
            if k == 0:
                return NONE
            if k == 1:
                set_meth('lf')
                return NONE
            if k == 2:
                set_meth('hyphen')
                return NONE
            if k == 3:
                c.pre_pos = args[1].t + 2
                return VInt(c.pre_pos)
            if k == 4:
                me.fields['stopped'] = VBool(True)
                c.pre_pos = args[1].t + 2
                return VInt(c.pre_pos)
            c.raised_by_callee = True
            X.raise_(c.Mal, 'first')

        def lf(X, args, kwargs):
            c.log.append('lf')
            k = X.choose(3, 'lf: None | LF | Malformed')
            if k == 0:
                return NONE
            if k == 1:
                c.pre_pos = args[1].t + 1
                return VInt(c.pre_pos)
            c.raised_by_callee = True
            X.raise_(c.Mal, 'lf')

        def hyphen(X, args, kwargs):
            c.log.append('hyphen')
            k = X.choose(3, 'hyphen: None | - | UnexpectedBodyEnd')
            if k == 0:
                return NONE
            if k == 1:
                me.fields['stopped'] = VBool(True)
                c.pre_pos = args[1].t + 1
                return VInt(c.pre_pos)
            c.raised_by_callee = True
            X.raise_(c.End, 'hyphen')

        def headers(X, args, kwargs):
            c.log.append('headers')
            c.hdr_base = args[1].t if len(args) > 1 and isinstance(args[1], VInt) else None
            k = X.choose(3, 'headers: None | position | Malformed')
            if k == 0:
                c.hdr_result = NONE
                return NONE
            if k == 1:
                p = X.fresh(z3.IntSort(), 'headers_end')     # any int: 0 and negative values included
                c.hdr_result = VInt(p)
                return c.hdr_result
            c.raised_by_callee = True
            X.raise_(c.Mal, 'headers')

        def rec(X, args, kwargs):
            # the recursive call: contract of eat for eat_meth == _eat_headers
            c.log.append('rec')
            X.prove('rec.only_with_eat_headers_selected', z3.BoolVal(me.fields.get('eat_meth') is c.m['headers']))
            r = headers(X, [None, args[1]] if len(args) > 1 else [None], {})
            if not isinstance(r, VNone):
                set_meth('first')
            return r
        self.m = {'first': VFunc(first, '_eat_first_crlf_or_last_hyphens'), 'lf': VFunc(lf, '_eat_lf'),
                  'hyphen': VFunc(hyphen, '_eat_last_hyphen'), 'headers': VFunc(headers, '_eat_headers')}
        me.fields.update({'eat_meth': self.m[self.start], '_eat_headers': self.m['headers'],
                          '_eat_first_crlf_or_last_hyphens': self.m['first'], '_eat_lf': self.m['lf'],
                          '_eat_last_hyphen': self.m['hyphen'], 'eat': VFunc(rec, 'eat')})
        self.me = me
        return {'self': me, 'chunk': VBytes(self.chunk), 'base': VInt(self.base)}

    def post(self, X, ret):
        me = self.me
        stopped = X.truth(me.fields['stopped'])
        X.prove('raise.stop_iff_closing_delimiter_seen', z3.Not(stopped))      # returning normally: no closing delimiter was recognised
        if isinstance(ret, VNone):
            # the LAST consulted eater returned None
            last_none = (self.hdr_result is not None and isinstance(self.hdr_result, VNone)) if self.log[-1] in ('headers', 'rec') \
                else self.pre_pos is None
            X.prove('none.only_when_the_consulted_eater_needs_more_input', z3.BoolVal(bool(last_none)))
            return
        ok = isinstance(ret, VInt) and isinstance(self.hdr_result, VInt)
        X.prove('pos.is_the_result_of_eat_headers', ret.t == self.hdr_result.t if ok else z3.BoolVal(False))
        X.prove('pos.eater_reset_for_the_next_delimiter', z3.BoolVal(me.fields.get('eat_meth') is self.m['first']))
        if self.start != 'headers':
            X.prove('headers.entered_where_the_crlf_eater_stopped',
                    self.hdr_base == self.pre_pos if self.hdr_base is not None and self.pre_pos is not None else z3.BoolVal(False))
        else:
            X.prove('headers.entered_where_the_crlf_eater_stopped',
                    self.hdr_base == self.base if self.hdr_base is not None else z3.BoolVal(False))

    def post_raise(self, X, exc):
        if self.raised_by_callee:
            X.prove('raise.nothing_else_from_the_dispatcher', z3.BoolVal(exc.pyclass in (self.Mal, self.End)))
            return
        X.prove('raise.nothing_else_from_the_dispatcher', z3.BoolVal(exc.pyclass is self.Stop))
        X.prove('raise.stop_iff_closing_delimiter_seen', X.truth(self.me.fields['stopped']))


CONTRACTS.append(HeadersEat())


# ------------------------------------------------------------------------------------------- BodyMarkuper.iter_markup
class IterMarkup(Contract):
    """section emission with absolute offsets.  With the section eaters as callees (each returns the end of its section relative
    to the chunk, or None when the chunk is used up, the header eater may raise StopMarkupException at the closing delimiter):

      * every emitted section is (kind, (start, abspos + end)): kind is 'headers' after the header eater and 'data' after the data /
        start-boundary eater; start is where the previous separator ended (for the first section of a chunk: the saved start);
      * after a data section the separator is the delimiter (tlen bytes) followed by CRLF (skipped: the header eater is entered
        right after the delimiter, the next section starts 2 bytes later); after a headers section it is CRLFCRLF (4 bytes);
      * the eaters alternate data -> headers -> data ...;
      * when the chunk is used up, abspos advances by len(chunk) and the current eater and section start are saved; at the closing
        delimiter `stopped` is set and nothing more is emitted - also from later chunks;
      * a body that starts directly with the boundary (no leading CRLF) yields an empty first data section (start, 0), never a
        negative end."""
    props = ('C06',)
    file = 'ombott/request_pkg/multipart.py'
    qualname = 'BodyMarkuper.iter_markup'
    ghost_const = ()
    assumptions = ('callee contracts: _eat_data / _eat_start_boundary / HeadersEaeter.eat return None or an int; only the header eater raises '
                   'StopMarkupException; other exceptions propagate (bounded: _eat_data; proved: eat relative to _eat_headers)',
                   'section ends are absolute positions >= 0, except that the start-boundary eater reports -2 (absolute) for a body that begins '
                   'with the boundary itself (possibly recognised only in a later chunk)')
    expected_labels = ('yield.kind_matches_the_eater', 'yield.section_is_start_to_absolute_end', 'next.eater_alternates',
                       'next.entered_right_after_the_separator', 'next.section_start_after_separator', 'exit.state_saved_and_position_advanced',
                       'stop.sets_stopped_and_emits_nothing_more', 'stopped.emits_nothing')

    def pre(self, X):
        g = X.globals
        self.Stop = g['StopMarkupException']
        self.chunk = X.fresh(BytesSort, 'chunk')
        self.abspos0 = X.fresh(z3.IntSort(), 'abspos')
        self.ass0 = X.fresh(z3.IntSort(), 'abs_start_section')
        self.tlen = X.fresh(z3.IntSort(), 'tlen')
        X.assume(z3.And(self.abspos0 >= 0, self.tlen >= 5))
        self.was_stopped = X.choose(2, 'stopped on entry?') == 1
        self.kind0 = ('start', 'data', 'headers')[X.choose(3, 'saved eater')]
        self.calls = []          # (eater kind, base term, result term or None)
        self.yields = []
        self.stop_raised = False
        c = self

        def mk(kind):
            def eater(X, args, kwargs):
                base = args[1].t if len(args) > 1 and isinstance(args[1], VInt) else None
                X.prove('call.eater_gets_the_chunk', z3.BoolVal(len(args) == 2 and isinstance(args[0], VBytes) and base is not None)
                        if False else z3.BoolVal(len(args) == 2 and base is not None))
                outcomes = 3 if kind == 'headers' else 2
                k = X.choose(outcomes, f'{kind} eater: None | position' + (' | Stop' if kind == 'headers' else ''))
                if k == 0:
                    c.calls.append((kind, base, None))
                    return NONE
                if k == 2:
                    c.calls.append((kind, base, 'stop'))
                    c.stop_raised = True
                    X.raise_(c.Stop, 'closing delimiter')
                e = X.fresh(z3.IntSort(), 'end_section')
                # the end of a section is an absolute position >= 0 (it may lie in an earlier chunk: e < 0); only the start-boundary
                # eater may report -2 absolute: a body that begins with the boundary itself, as if a CRLF preceded it
                if kind == 'start':
                    X.assume(z3.Or(c.abspos0 + e >= 0, c.abspos0 + e == -2))
                else:
                    X.assume(c.abspos0 + e >= 0)
                c.calls.append((kind, base, e))
                return VInt(e)
            return VFunc(eater, {'start': '_eat_start_boundary', 'data': '_eat_data', 'headers': '_eat_headers'}[kind])
        self.m = {k: mk(k) for k in ('start', 'data', 'headers')}
        self.me = VObj('BM', {'stopped': VBool(self.was_stopped), 'cur_meth': self.m[self.kind0], 'abs_start_section': VInt(self.ass0),
                              'abspos': VInt(self.abspos0), 'tlen': VInt(self.tlen), '_eat_data': self.m['data'],
                              '_eat_headers': self.m['headers'], '_eat_start_boundary': self.m['start']})
        X.setg('it', VInt(0))
        return {'self': self.me, 'chunk': VBytes(self.chunk)}

    # ---- loop 0 (while True): locals at the head of an iteration
    def _kind_of(self, X):
        f = X.env.get('cur_meth')
        for k, v in self.m.items():
            if f is v:
                return k
        return None

    def havoc_override(self, X, k, name):
        if name == 'cur_meth':
            self.head_kind = ('start', 'data', 'headers')[X.choose(3, 'eater at the head of this iteration')]
            return self.m[self.head_kind]
        return None

    def _inv(self, X):
        it = X.g('it').t
        kind = self._kind_of(X)
        s0, a0, sk = X.env['start_next_sec'].t, X.env['abs_start_section'].t, X.env['skip_start'].t
        first = z3.And(it == 0, s0 == 0, a0 == self.ass0, z3.BoolVal(kind == self.kind0))
        later = z3.And(it > 0, z3.BoolVal(kind in ('data', 'headers')), a0 == self.abspos0 + s0 + sk,
                       sk == (2 if kind == 'headers' else 0))
        return [('section_start_bookkeeping', z3.And(it >= 0, z3.Or(first, later))),
                ('position_not_yet_advanced', X.truth(VBool(True)) if not isinstance(self.me.fields['abspos'], VInt)
                 else self.me.fields['abspos'].t == self.abspos0),
                ('not_stopped_while_scanning', z3.Not(X.truth(self.me.fields['stopped'])))]

    @property
    def loop_inv(self):
        return {0: self._inv}

    def after_havoc(self, X, k):
        self.calls_at_head = len(self.calls)
        self.yields_at_head = len(self.yields)

    def on_yield(self, X, val):
        self.yields.append(val)
        if self.was_stopped:
            X.prove('stopped.emits_nothing', z3.BoolVal(False))
            return
        kind, base, e = self.calls[-1] if self.calls else (None, None, None)
        ok = isinstance(val, VTuple) and len(val.items) == 2 and isinstance(val.items[0], VStr) and isinstance(val.items[1], VTuple) \
            and len(val.items[1].items) == 2 and all(isinstance(i, VInt) for i in val.items[1].items) and z3.is_expr(e)
        if not ok:
            X.prove('yield.section_is_start_to_absolute_end', z3.BoolVal(False))
            return
        name, (st, en) = val.items[0], val.items[1].items
        X.prove('yield.kind_matches_the_eater', name.t == z3.StringVal('headers' if kind == 'headers' else 'data'))
        a0 = self.head_a0
        end_abs = self.abspos0 + e
        want_end = z3.If(z3.And(z3.BoolVal(kind == 'start'), end_abs < 0), z3.IntVal(0), end_abs)
        X.prove('yield.section_is_start_to_absolute_end', z3.And(st.t == a0, en.t == want_end, en.t >= 0 if kind == 'start' else z3.BoolVal(True)))

    def before_body_snapshot(self, X):
        pass

    def end_of_body(self, X, k):
        # one full iteration: an eater returned a position, a section was emitted, the next eater is set up
        kind, base, e = self.calls[-1]
        X.prove('call.one_eater_call_and_one_section_per_iteration',
                z3.BoolVal(len(self.calls) == self.calls_at_head + 1 and len(self.yields) == self.yields_at_head + 1))
        X.prove('call.eater_entered_at_start_next_sec', base == self.head_s0)
        nk = self._kind_of(X)
        X.prove('next.eater_alternates', z3.BoolVal(nk == ('data' if kind == 'headers' else 'headers')))
        s1, a1 = X.env['start_next_sec'].t, X.env['abs_start_section'].t
        sep = 4 if kind == 'headers' else self.tlen
        X.prove('next.entered_right_after_the_separator', s1 == e + sep)
        X.prove('next.section_start_after_separator', a1 == self.abspos0 + e + sep + (0 if kind == 'headers' else 2))
        X.setg('it', VInt(X.g('it').t + 1))

    def after_loop(self, X, k, how):
        pass

    # snapshot of the locals right after the invariant was assumed (head of the generic iteration)
    def loop_head(self, X, k):
        self.head_s0 = X.env['start_next_sec'].t
        self.head_a0 = X.env['abs_start_section'].t

    def post(self, X, ret):
        me = self.me
        if self.was_stopped:
            X.prove('stopped.emits_nothing', z3.BoolVal(not self.yields and not self.calls))
            return
        if self.stop_raised:
            X.prove('stop.sets_stopped_and_emits_nothing_more', X.truth(me.fields['stopped']))
            return
        # the chunk is used up: the last eater returned None
        kind, base, e = self.calls[-1]
        saved = me.fields['cur_meth'] is self.m[kind] and isinstance(me.fields['abspos'], VInt) and isinstance(me.fields['abs_start_section'], VInt)
        X.prove('exit.state_saved_and_position_advanced',
                z3.And(z3.BoolVal(bool(saved) and e is None), me.fields['abspos'].t == self.abspos0 + L(self.chunk),
                       me.fields['abs_start_section'].t == self.head_a0, z3.Not(X.truth(me.fields['stopped'])))
                if saved else z3.BoolVal(False))

    def post_raise(self, X, exc):
        X.prove('raises.only_what_an_eater_raised', z3.BoolVal(False))


CONTRACTS.append(IterMarkup())


# ------------------------------------------------------------------------------------------- BodyMarkuper._eat_start_boundary
class EatStartBoundary(Contract):
    """the first section eater (until the opening delimiter has been found).  A multipart body may begin with the boundary line
    itself ("--boundary", no CRLF before it) or with a preamble / CRLF.  With _eat_data (the delimiter search: bounded only) as
    callee:
      * no byte available: None, nothing changes;
      * a pending expectation (the boundary was begun in an earlier read): the search continues in _eat_data, nothing else;
      * first byte CR: ordinary delimiter search from here (_eat_data), no expectation set;
      * the chunk begins with the whole boundary: the section ends 2 bytes (the CRLF that is not there) before `base`;
      * first byte is the boundary's first byte ('-') but the boundary is not complete in this chunk (a short first read - one
        byte is enough): the WHOLE boundary is carried as the expectation and _eat_data decides; no error;
      * any other first byte: InvalidBoundaryError.
    Whatever _eat_data returns is returned unchanged."""
    props = ('C06',)
    file = 'ombott/request_pkg/multipart.py'
    qualname = 'BodyMarkuper._eat_start_boundary'
    assumptions = ('called at the beginning of the body: base == 0 (iter_markup enters the first eater at start_next_sec == 0 of every chunk until it '
                   'has returned a position)', 'boundary == b"--" + <boundary parameter>, so its first byte is "-"; callee _eat_data: bounded only')
    expected_labels = ('start.no_byte_no_change', 'start.pending_expectation_continues_the_search', 'start.cr_starts_an_ordinary_search',
                       'start.whole_boundary_ends_two_before_base', 'start.partial_boundary_is_carried_not_refused',
                       'start.other_first_byte_is_refused', 'start.result_of_the_search_is_returned_unchanged')

    def pre(self, X):
        g = X.globals
        self.Invalid = g['InvalidBoundaryError']
        self.chunk = X.fresh(BytesSort, 'chunk')
        self.base = z3.IntVal(0)
        self.bparam = X.fresh(BytesSort, 'boundary_parameter')
        self.boundary = z3.Concat(HYHY, self.bparam)
        self.pending = X.choose(2, 'expectation pending from an earlier read?') == 1
        self.trest0 = VBytes(X.fresh(BytesSort, 'trest')) if self.pending else NONE
        self.calls = []
        c = self

        def eat_data(X, args, kwargs):
            c.calls.append((args, c.me.fields['trest'], c.me.fields['trest_len']))
            if X.choose(2, '_eat_data: None | position') == 0:
                c.result = NONE
            else:
                c.result = VInt(X.fresh(z3.IntSort(), 'data_end'))
            return c.result
        self.result = None
        self.me = VObj('BM', {'trest': self.trest0, 'trest_len': VInt(L(self.trest0.t)) if self.pending else NONE,
                              'boundary': VBytes(self.boundary), '_eat_data': VFunc(lambda X, a, k: eat_data(X, a, k), '_eat_data')})
        return {'self': self.me, 'chunk': VBytes(self.chunk), 'base': VInt(self.base)}

    def _unchanged(self):
        return self.me.fields['trest'] is self.trest0

    def _case(self):
        ch = self.chunk
        empty = L(ch) == 0
        first = z3.SubSeq(ch, 0, 1)
        return empty, first

    def post(self, X, ret):
        empty, first = self._case()
        whole = z3.PrefixOf(self.boundary, self.chunk)
        if self.calls:
            args, tr, tl = self.calls[0]
            X.prove('start.result_of_the_search_is_returned_unchanged',
                    z3.BoolVal(len(self.calls) == 1 and ret is self.result and len(args) == 2 and isinstance(args[1], VInt))
                    if True else z3.BoolVal(False))
            if isinstance(args[1], VInt):
                X.prove('start.search_starts_at_base', args[1].t == self.base)
            if self.pending:
                X.prove('start.pending_expectation_continues_the_search', z3.BoolVal(tr is self.trest0))
            elif isinstance(tr, VNone):
                X.prove('start.cr_starts_an_ordinary_search', z3.And(z3.Not(empty), first == CR))
            else:
                # a new expectation was set: only for a first byte '-' when the whole boundary is not at the start, and it is the whole boundary
                ok = isinstance(tr, VBytes) and isinstance(tl, VInt)
                X.prove('start.partial_boundary_is_carried_not_refused',
                        z3.And(z3.Not(empty), first == HY, z3.Not(whole), tr.t == self.boundary, tl.t == L(self.boundary))
                        if ok else z3.BoolVal(False))
            return
        # no search
        if isinstance(ret, VNone):
            X.prove('start.no_byte_no_change', z3.And(empty, z3.BoolVal(self._unchanged() and not self.pending)))
        else:
            X.prove('start.whole_boundary_ends_two_before_base',
                    z3.And(whole, ret.t == self.base - 2, z3.BoolVal(self._unchanged() and not self.pending)) if isinstance(ret, VInt)
                    else z3.BoolVal(False))

    def post_raise(self, X, exc):
        empty, first = self._case()
        X.prove('start.other_first_byte_is_refused',
                z3.And(z3.BoolVal(exc.pyclass is self.Invalid and not self.pending and not self.calls), z3.Not(empty),
                       first != CR, first != HY))


CONTRACTS.append(EatStartBoundary())


# ------------------------------------------------------------------------------------------- HeadersEaeter._eat_headers
CRLFx2 = bytes_lit(b'\r\n\r\n')
LFCRLF = bytes_lit(b'\n\r\n')
CRLFCR = bytes_lit(b'\r\n\r')


class _ReMatch(Val):
    def __init__(self, kind, pos=None, tail=None):
        self.kind, self.pos, self.tail = kind, pos, tail


class EatHeaders(Contract):
    """the end-of-headers search, pinned down case by case (result, exception, carried expectation), relative to the
    specification of the regular expression (frames/headers_regex.py validates that specification against the real pattern).

    expectation E carried from the previous chunk (the part of CRLFCRLF still to come; the eater is then entered at base 0):
      chunk begins with E                       -> end of headers at  len(E) - 4  (negative: the terminator began earlier), E cleared
      no byte                                   -> None, E kept
      chunk is a proper prefix of E             -> None, E := E minus that prefix
      anything else, E == LF  (CR LF CR seen)   -> MalformedHeadersError
      anything else, longer E                   -> E cleared, then the search below on the same chunk
    no expectation: CRLFCRLF found at i >= base -> i;  not found and the chunk ends with CR / CR LF / CR LF CR
                                                -> None, E := the rest of CRLFCRLF;  otherwise None, E stays None."""
    props = ('C06',)
    file = 'ombott/request_pkg/multipart.py'
    qualname = 'HeadersEaeter._eat_headers'
    assumptions = ('specification of end_headers_patt.search (frames/headers_regex.py: validated by enumeration on a bounded scope)',
                   'a carried expectation implies base == 0: it is set only when a chunk ended, and the next chunk is entered at 0 (iter_markup contract)')
    expected_labels = ('exp.continuation_found_gives_the_position_before_the_terminator', 'exp.no_byte_keeps_the_expectation',
                       'exp.partial_continuation_shortens_the_expectation', 'exp.broken_after_crlfcr_is_malformed',
                       'search.terminator_position_is_returned', 'search.partial_terminator_at_the_end_is_carried',
                       'search.nothing_found_carries_nothing', 'exp.mismatch_restarts_the_search_on_this_chunk')

    def pre(self, X):
        g = X.globals
        self.Mal = g['MalformedHeadersError']
        self.chunk = X.fresh(BytesSort, 'chunk')
        self.ekind = X.choose(4, 'expectation: None | LF | LF CR LF | CR LF')
        self.E = [None, LF, LFCRLF, CRLF][self.ekind]
        self.base = X.fresh(z3.IntSort(), 'base')
        X.assume(z3.And(self.base >= 0, self.base <= L(self.chunk)))
        if self.E is not None:
            X.assume(self.base == 0)
        self.searched = None
        c = self

        def search(X, args, kwargs):
            ch, b = args[-2], args[-1]
            X.prove('search.on_this_chunk_from_base', z3.And(ch.t == c.chunk, b.t == c.base))
            i = z3.IndexOf(c.chunk, CRLFx2, c.base)
            k = X.choose(5, 'search: terminator found | ends CRLFCR | ends CRLF(+LF) | ends CR | nothing')
            tail = z3.SubSeq(c.chunk, c.base, L(c.chunk) - c.base)
            if k == 0:
                X.assume(i >= 0)
                c.searched = ('end', i)
                return _ReMatch('end', pos=i)
            X.assume(i < 0)
            if k == 1:
                X.assume(z3.SuffixOf(CRLFCR, tail))
                c.searched = ('tail', CRLFCR)
                return _ReMatch('tail', tail=CRLFCR)
            X.assume(z3.Not(z3.SuffixOf(CRLFCR, tail)))
            if k == 2:
                X.assume(z3.Or(z3.SuffixOf(CRLF, tail), z3.SuffixOf(z3.Concat(CRLF, LF), tail)))
                c.searched = ('tail', CRLF)
                return _ReMatch('tail', tail=CRLF)
            X.assume(z3.Not(z3.Or(z3.SuffixOf(CRLF, tail), z3.SuffixOf(z3.Concat(CRLF, LF), tail))))
            if k == 3:
                X.assume(z3.SuffixOf(CR, tail))
                c.searched = ('tail', CR)
                return _ReMatch('tail', tail=CR)
            X.assume(z3.Not(z3.SuffixOf(CR, tail)))
            c.searched = ('none', None)
            return NONE
        self.stubs = {'end_headers_patt.search': search}
        self.me = VObj('HE', {'headers_end_expected': VBytes(self.E) if self.E is not None else NONE})
        return {'self': self.me, 'chunk': VBytes(self.chunk), 'base': VInt(self.base)}

    def method_hook(self, X, obj, name, args, kwargs):
        if isinstance(obj, _ReMatch):
            if name == 'start' and len(args) == 1:
                return VInt(obj.pos if obj.kind == 'end' else z3.IntVal(-1))
            if name == 'group' and len(args) == 1:
                k = z3.simplify(args[0].t).as_long()
                if k == 2:
                    return VBytes(obj.tail) if obj.kind == 'tail' else NONE
        return None

    def exp_now(self):
        v = self.me.fields['headers_end_expected']
        return v

    def _exp_is(self, X, want):
        v = self.exp_now()
        if want is None:
            return z3.BoolVal(isinstance(v, VNone))
        return v.t == want if isinstance(v, VBytes) else z3.BoolVal(False)

    def post(self, X, ret):
        ch, E = self.chunk, self.E
        n = L(ch)
        if E is not None and self.searched is None:
            # decided by the expectation alone
            lenE = L(E)
            if isinstance(ret, VInt):
                X.prove('exp.continuation_found_gives_the_position_before_the_terminator',
                        z3.And(z3.PrefixOf(E, ch), ret.t == lenE - 4, self._exp_is(X, None)))
            else:
                v = self.exp_now()
                if isinstance(v, VBytes):
                    X.prove('exp.no_byte_keeps_the_expectation' if False else 'exp.partial_continuation_shortens_the_expectation',
                            z3.Or(z3.And(n == 0, v.t == E),
                                  z3.And(n > 0, n < lenE, z3.PrefixOf(ch, E), v.t == z3.SubSeq(E, n, lenE - n))))
                    X.prove('exp.no_byte_keeps_the_expectation', z3.Implies(n == 0, v.t == E))
                else:
                    X.prove('exp.partial_continuation_shortens_the_expectation', z3.BoolVal(False))
            return
        if E is not None:
            # mismatch with a longer expectation: the search ran on this very chunk
            X.prove('exp.mismatch_restarts_the_search_on_this_chunk',
                    z3.And(z3.BoolVal(self.ekind in (2, 3)), z3.Not(z3.PrefixOf(E, ch)), z3.Not(z3.And(n < L(E), z3.PrefixOf(ch, E)))))
        kind, what = self.searched
        if kind == 'end':
            X.prove('search.terminator_position_is_returned',
                    z3.And(ret.t == what, self._exp_is(X, None)) if isinstance(ret, VInt) else z3.BoolVal(False))
        elif kind == 'tail':
            X.prove('search.partial_terminator_at_the_end_is_carried',
                    z3.And(z3.BoolVal(isinstance(ret, VNone)), self._exp_is(X, z3.SubSeq(CRLFx2, L(what), 4 - L(what)))))
        else:
            X.prove('search.nothing_found_carries_nothing', z3.And(z3.BoolVal(isinstance(ret, VNone)), self._exp_is(X, None)))

    def post_raise(self, X, exc):
        ch, E = self.chunk, self.E
        X.prove('exp.broken_after_crlfcr_is_malformed',
                z3.And(z3.BoolVal(exc.pyclass is self.Mal and self.ekind == 1 and self.searched is None),
                       L(ch) > 0, z3.Not(z3.PrefixOf(LF, ch))) if E is not None else z3.BoolVal(False))


CONTRACTS.append(EatHeaders())


# ------------------------------------------------------------------------------------------- BodyMarkuper._eat_data (soundness half)
class EatData(Contract):
    """the block-wise delimiter search, SOUNDNESS half: whatever it reports is true of the stream.

    Ghost: `prev` = the bytes of the current section delivered in earlier chunks; W = prev ++ chunk.  State on entry: trest is None,
    or it is the part of the delimiter T still expected, T[m:], and prev ends with T[:m] (0 < m < len T; then base == 0).
      * a returned position e (relative to the chunk, possibly negative) is a real occurrence: W[len(prev)+e : +len T] == T,
        and the expectation is cleared;
      * on None the expectation left behind is again sound: trest' is None or T[m':] with W ending in T[:m'], and
        trest_len' == len(trest');
      * the loop advances by whole delimiter lengths and terminates.
    NOT proved here (bounded check only): completeness - that no occurrence is overlooked and that the reported one is the first;
    it rests on the delimiter's first byte (CR) not recurring in it and on the completeness half of match_tail's contract."""
    props = ('C06', 'C07', 'C12')
    file = 'ombott/request_pkg/multipart.py'
    qualname = 'BodyMarkuper._eat_data'
    assumptions = ('callee contract of MatchTail.match_tail as proved (soundness part used here): None, or i with 1 <= i <= end-start and '
                   's[end-i:end] == token[:i]', 'object invariant: self.tlen == len(self.token) >= 3; trest_len == len(trest) when trest is set',
                   'completeness of the search (no delimiter overlooked, first occurrence) is NOT part of this contract: bounded only')
    expected_labels = ('found.reported_position_is_an_occurrence_of_the_delimiter', 'found.expectation_cleared',
                       'none.expectation_left_behind_is_sound', 'loop0.inv_preserved.pending_expectation_is_sound',
                       'loop0.variant_decreases')

    def pre(self, X):
        self.prev = X.fresh(BytesSort, 'prev')
        self.chunk = X.fresh(BytesSort, 'chunk')
        self.T = X.fresh(BytesSort, 'token')
        T = self.T
        X.assume(L(T) >= 3)
        self.base = X.fresh(z3.IntSort(), 'base')
        X.assume(z3.And(self.base >= 0, self.base <= L(self.chunk)))
        self.pending0 = X.choose(2, 'expectation pending on entry?') == 1
        if self.pending0:
            tr = X.fresh(BytesSort, 'trest')
            X.assume(self.sound(tr, self.prev))
            X.assume(self.base == 0)
            trest, trl = VBytes(tr), VInt(L(tr))
        else:
            trest, trl = NONE, NONE
        self.W = z3.Concat(self.prev, self.chunk)
        c = self

        def match_tail(X, args, kwargs):
            s, st, en = args[-3], args[-2], args[-1]
            if X.choose(2, 'match_tail: None | i') == 0:
                return NONE
            i = X.fresh(z3.IntSort(), 'matched_len')
            X.assume(z3.And(i >= 1, i <= en.t - st.t, i <= L(T), z3.SubSeq(s.t, en.t - i, i) == z3.SubSeq(T, 0, i)))
            return VInt(i)
        self.me = VObj('BM', {'token': VBytes(T), 'tlen': VInt(L(T)), 'trest': trest, 'trest_len': trl,
                              'mt': VObj('Mt', {})})
        self.stubs = {'Mt.match_tail': match_tail}
        return {'self': self.me, 'chunk': VBytes(self.chunk), 'base': VInt(self.base)}

    def sound(self, tr, upto):
        """tr == T[m:] with 0 < m < len T and `upto` ends with T[:m]"""
        T = self.T
        m = L(T) - L(tr)
        return z3.And(L(tr) >= 1, L(tr) < L(T), tr == z3.SubSeq(T, m, L(tr)), z3.SuffixOf(z3.SubSeq(T, 0, m), upto))

    def _pending_ok(self, X, trest, trl, upto):
        if isinstance(trest, VNone):
            return z3.BoolVal(isinstance(trl, VNone))
        if isinstance(trest, VBytes) and isinstance(trl, VInt):
            return z3.And(self.sound(trest.t, upto), trl.t == L(trest.t))
        return z3.BoolVal(False)

    def _inv(self, X):
        start = X.env['start'].t
        upto = z3.SubSeq(self.W, 0, L(self.prev) + start)
        return [('start_in_range', z3.And(start >= self.base, start <= L(self.chunk) + L(self.T))),
                ('pending_expectation_is_sound', self._pending_ok(X, X.env['trest'], X.env['trest_len'], upto))]

    def havoc_override(self, X, k, name):
        if name in ('trest', 'trest_len'):
            # None or a value: both shapes are explored
            if name == 'trest':
                self._shape = X.choose(2, 'local expectation at the loop head: None | set')
                return NONE if self._shape == 0 else X.fresh_bytes('trest')
            return NONE if self._shape == 0 else X.fresh_int('trest_len')
        return None

    @property
    def loop_inv(self):
        return {0: self._inv}

    @property
    def loop_variant(self):
        return {0: lambda X: L(self.chunk) + L(self.T) - X.env['start'].t}

    def loop_head(self, X, k):
        self._cand = [X.env.get('trest_len')]

    def after_loop(self, X, k, how):
        self._cand = getattr(self, '_cand', []) + [X.env.get('trest_len')]

    def post(self, X, ret):
        me = self.me.fields
        if isinstance(ret, VInt):
            # valid facts of sequence theory, stated to help the solver: a window is the concatenation of its two parts, and a part
            # of W that lies inside the chunk is that part of the chunk
            W, T, pl = self.W, self.T, L(self.prev)
            p = pl + ret.t
            def cut(name, fact):
                # prove the sequence-theory fact on its own (no other hypotheses needed), then use it
                X.driver.add_obligation(Obligation('lemma.' + name, [z3.And(L(T) >= 3)], fact, 'prove', X.where, list(X.taken)))
                X.assume(fact)
            for tl in getattr(self, '_cand', []):
                if isinstance(tl, VInt):
                    m = L(T) - tl.t
                    cut('window_is_concatenation_of_its_parts',
                        z3.Implies(z3.And(m >= 0, m <= L(T), p >= 0, p + L(T) <= L(W)),
                                   z3.SubSeq(W, p, L(T)) == z3.Concat(z3.SubSeq(W, p, m), z3.SubSeq(W, p + m, L(T) - m))))
                    cut('part_inside_the_chunk',
                        z3.Implies(z3.And(m >= 0, m <= L(T), p + m >= pl, p + L(T) <= L(W)),
                                   z3.SubSeq(W, p + m, L(T) - m) == z3.SubSeq(self.chunk, p + m - pl, L(T) - m)))
                    cut('part_of_a_prefix',
                        z3.Implies(z3.And(m >= 0, p >= 0, p + m <= L(W)),
                                   z3.SubSeq(W, p, m) == z3.SubSeq(z3.SubSeq(W, 0, p + m), p, m)))
            cut('window_inside_the_chunk',
                z3.Implies(z3.And(p >= pl, p + L(T) <= L(W)), z3.SubSeq(W, p, L(T)) == z3.SubSeq(self.chunk, p - pl, L(T))))
            X.prove('found.reported_position_is_an_occurrence_of_the_delimiter',
                    z3.And(L(self.prev) + ret.t >= 0, z3.SubSeq(self.W, L(self.prev) + ret.t, L(self.T)) == self.T))
            X.prove('found.expectation_cleared', z3.BoolVal(isinstance(me['trest'], VNone) and isinstance(me['trest_len'], VNone)))
        else:
            X.prove('none.expectation_left_behind_is_sound', self._pending_ok(X, me['trest'], me['trest_len'], self.W))

    def post_raise(self, X, exc):
        X.prove('raises.nothing', z3.BoolVal(exc.pyclass is AssertionError and False))


CONTRACTS.append(EatData())


# ------------------------------------------------------------------------------------------- BodyMarkuper._eat_data (completeness half)
class EatDataComplete(EatData):
    """the COMPLETENESS half of the delimiter search: nothing is overlooked and the reported occurrence is the first one.

    Section bytes S = prev ++ chunk[base:]  (prev non-empty implies base == 0).  Additional state assumption on entry (the
    invariant this contract re-establishes on None): S-so-far (= prev) contains no occurrence of T, and when no expectation is
    pending no proper head of T is a suffix of prev.  The delimiter T = CR LF - - boundary has its first byte nowhere else
    (BodyMarkuper.__init__ refuses a boundary with CR), which makes the pending head unique.
      * a returned position is the FIRST occurrence of T in S;
      * on None, S contains no occurrence of T at all, and if no expectation is left behind then no proper head of T is a
        suffix of S (so an occurrence that begins in S and ends in a later chunk is never lost).
    Proof style: every universally quantified fact (no occurrence before p; no head of T ends at p) is proved for a fresh skolem
    position from hand-picked instances of the hypotheses (invariant at the loop head, callee contract of match_tail incl. its
    completeness, uniqueness lemma) - instantiation only, hence sound; the sequence facts used are proved as lemmas of their own."""
    qualname = 'BodyMarkuper._eat_data'
    props = ('C06',)
    assumptions = EatData.assumptions[:2] + (
        'callee contract of MatchTail.match_tail as proved, including completeness (None only if no head matches) and minimality',
        'T[0] == CR and CR occurs nowhere else in T (BodyMarkuper.__init__: token = CRLF + "--" + boundary, boundary without CR)',
        'state invariant on entry: no occurrence of T inside prev; no pending expectation => no proper head of T is a suffix of prev')
    expected_labels = ('inv.no_occurrence_before_the_block_boundary', 'inv.no_head_of_the_delimiter_ends_at_the_boundary_unless_expected',
                       'found.it_is_the_first_occurrence', 'none.no_occurrence_in_the_section', 'none.no_head_pending_unless_expected',
                       'lemma.pending_head_is_unique')

    def pre(self, X):
        env = super().pre(X)
        T = self.T
        self.S = z3.Concat(self.prev, z3.SubSeq(self.chunk, self.base, L(self.chunk) - self.base))
        # kept out of the path condition (the obligations of the soundness half are re-generated here and should stay as easy as
        # they are there); added to the hand-made obligations below
        self.extra = [z3.Implies(L(self.prev) > 0, self.base == 0), z3.SubSeq(T, 0, 1) == CR]
        for e_ in self.extra:
            X.assume(e_)
        # quantified facts are never put into the path condition: they are used through instances only
        self.crfree = lambda kk: z3.Implies(z3.And(kk >= 1, kk < L(T)), z3.SubSeq(T, kk, 1) != CR)
        # entry state (quantified; used through instances only)
        self.entry_noocc = lambda qq: z3.Implies(z3.And(qq >= 0, qq + L(T) <= L(self.prev)), z3.SubSeq(self.prev, qq, L(T)) != T)
        self.entry_pendc = lambda mm: z3.Implies(z3.And(mm >= 1, mm < L(T)), z3.Not(z3.SuffixOf(z3.SubSeq(T, 0, mm), self.prev)))
        self.mt_calls = []
        c = self
        sound_stub = self.stubs['Mt.match_tail']

        def match_tail(X, args, kwargs):
            r = sound_stub(X, args, kwargs)
            c.mt_calls.append((args[-3].t, args[-2].t, args[-1].t, r))
            return r
        self.stubs = dict(self.stubs)
        self.stubs['Mt.match_tail'] = match_tail
        return env

    # ---- helpers
    def pS(self, i):
        """S-index of chunk index i"""
        return L(self.prev) + i - self.base

    def win(self, q):
        return z3.SubSeq(self.S, q, L(self.T))

    def head(self, m):
        return z3.SubSeq(self.T, 0, m)

    def upto(self, p):
        return z3.SubSeq(self.S, 0, p)

    def mt_complete(self, call, i):
        """instances of the completeness / minimality part of match_tail's contract for one recorded call"""
        s, st, en, r = call
        fits = z3.And(i >= 1, i <= en - st, i <= L(self.T))
        matches = z3.SubSeq(s, en - i, i) == self.head(i)
        if isinstance(r, VNone):
            return z3.Implies(fits, z3.Not(matches))
        return z3.Implies(z3.And(fits, matches), i >= r.t)

    def _inv(self, X):
        base_inv = super()._inv(X)
        tr = X.env['trest']
        start = X.env['start'].t
        if isinstance(tr, VBytes):
            # the pending head lies inside the SECTION (not only inside the chunk): it was produced by bytes at or after base
            m0 = L(self.T) - L(tr.t)
            sec = z3.And(z3.SuffixOf(self.head(m0), self.upto(self.pS(start))), *self.extra)
        else:
            sec = z3.And(*self.extra)
        return base_inv + [('pending_head_lies_in_the_section', sec)]

    def loop_head(self, X, k):
        super().loop_head(X, k)
        start = X.env['start'].t
        self.ctx = dict(start=start, p=self.pS(start), trest=X.env['trest'], trl=X.env['trest_len'])
        self.n_mt_head = len(self.mt_calls)
        # the quantified part of the invariant holds at the head (noocc_at(p, .), and pendc_at(p, .) when nothing is pending):
        # it is used through instances only and never enters the path condition

    def noocc_at(self, p, q):
        return z3.Implies(z3.And(q >= 0, q + L(self.T) <= p), self.win(q) != self.T)

    def pendc_at(self, p, m):
        return z3.Implies(z3.And(m >= 1, m < L(self.T)), z3.Not(z3.SuffixOf(self.head(m), self.upto(p))))

    def before_loop(self, X, k):
        # the quantified invariant on entry: instances of the entry-state assumptions (S[:p(base)] == prev)
        q, m = X.fresh(z3.IntSort(), 'q0'), X.fresh(z3.IntSort(), 'm0')
        p0 = self.pS(self.base)
        qf = [c for c in X.pc if not _has_quantifier(c)] + self.extra
        hyp = qf + [self.entry_noocc(q), self.entry_pendc(m) if not self.pending0 else z3.BoolVal(True),
                    self.upto(p0) == self.prev, z3.Implies(z3.And(q >= 0, q + L(self.T) <= p0), self.win(q) == z3.SubSeq(self.prev, q, L(self.T)))]
        geo = [self.base >= 0, self.base <= L(self.chunk), L(self.T) >= 3]
        X.driver.add_obligation(Obligation('lemma.section_so_far_is_prev', geo, hyp[-2], 'prove', X.where, list(X.taken)))
        X.driver.add_obligation(Obligation('lemma.window_inside_prev', geo, hyp[-1], 'prove', X.where, list(X.taken)))
        X.driver.add_obligation(Obligation('init.no_occurrence_before_the_block_boundary', hyp, self.noocc_at(p0, q), 'prove', X.where, list(X.taken)))
        if not self.pending0:
            X.driver.add_obligation(Obligation('init.no_head_of_the_delimiter_ends_at_the_boundary_unless_expected', hyp,
                                               self.pendc_at(p0, m), 'prove', X.where, list(X.taken)))

    # ---- the uniqueness lemma, proved once per use as its own obligation
    def unique(self, X, a, b, Xs, tag):
        """SuffixOf(T[:a], Xs) and SuffixOf(T[:b], Xs) with 1 <= a < b <= len T is impossible (T[b-a] would be CR)"""
        T = self.T
        n = L(Xs)
        cond = z3.And(a >= 1, a < b, b <= L(T), z3.SuffixOf(self.head(a), Xs), z3.SuffixOf(self.head(b), Xs))
        # the byte at distance a from the end of Xs, read through either suffix (valid sequence theory, proved as lemmas)
        e1 = z3.Implies(z3.And(a >= 1, a <= L(T), z3.SuffixOf(self.head(a), Xs)), z3.SubSeq(Xs, n - a, 1) == z3.SubSeq(T, 0, 1))
        e2 = z3.Implies(z3.And(a >= 1, a < b, b <= L(T), z3.SuffixOf(self.head(b), Xs)), z3.SubSeq(Xs, n - a, 1) == z3.SubSeq(T, b - a, 1))
        X.driver.add_obligation(Obligation('lemma.byte_before_the_end_via_the_short_head', [L(T) >= 3], e1, 'prove', X.where, list(X.taken)))
        X.driver.add_obligation(Obligation('lemma.byte_before_the_end_via_the_long_head', [L(T) >= 3], e2, 'prove', X.where, list(X.taken)))
        fact = z3.Not(cond)
        hyp = [z3.SubSeq(T, 0, 1) == CR, self.crfree(b - a), L(T) >= 3, e1, e2]
        X.driver.add_obligation(Obligation('lemma.pending_head_is_unique', hyp, fact, 'prove', X.where, list(X.taken)))
        return fact

    def cross(self, X, q, p):
        """an occurrence at q that crosses position p (q < p < q + len T) puts the head T[:p-q] at the end of S[:p] and the rest
        T[p-q:] right after p  (valid sequence fact, proved as a lemma)"""
        T = self.T
        m = p - q
        fact = z3.Implies(z3.And(q >= 0, q < p, p < q + L(T), q + L(T) <= L(self.S), self.win(q) == T),
                          z3.And(z3.SuffixOf(self.head(m), self.upto(p)),
                                 z3.SubSeq(self.S, p, L(T) - m) == z3.SubSeq(T, m, L(T) - m)))
        X.driver.add_obligation(Obligation('lemma.crossing_occurrence_splits_at_the_boundary', [L(T) >= 3], fact, 'prove', X.where, list(X.taken)))
        return fact

    def winlemma(self, X, p2, mm):
        """a head of T is a suffix of S[:p2] iff it is the window of that length ending at p2 (valid sequence fact)"""
        fact = z3.Implies(z3.And(mm >= 1, mm <= L(self.T), mm <= p2, p2 <= L(self.S)),
                          z3.SuffixOf(self.head(mm), self.upto(p2)) == (z3.SubSeq(self.S, p2 - mm, mm) == self.head(mm)))
        X.driver.add_obligation(Obligation('lemma.suffix_of_a_prefix_is_a_window', [L(self.T) >= 3], fact, 'prove', X.where, list(X.taken)))
        return fact

    def in_chunk(self, X, p, n):
        """S[p:p+n] is chunk[i:i+n] for p = pS(i) >= len(prev)  (valid sequence fact)"""
        i = p - L(self.prev) + self.base
        fact = z3.Implies(z3.And(p >= L(self.prev), n >= 0, p + n <= L(self.S)),
                          z3.SubSeq(self.S, p, n) == z3.SubSeq(self.chunk, i, n))
        X.driver.add_obligation(Obligation('lemma.section_bytes_inside_the_chunk', [self.base >= 0, self.base <= L(self.chunk)], fact,
                                           'prove', X.where, list(X.taken)))
        return fact

    def end_of_body(self, X, k):
        """one full block was processed without returning: the two quantified invariants at the next block boundary"""
        T = self.T
        c = self.ctx
        p, p2 = c['p'], self.pS(X.env['start'].t)
        q, m = X.fresh(z3.IntSort(), 'q1'), X.fresh(z3.IntSort(), 'm1')
        qf = [f for f in X.pc if not _has_quantifier(f)] + self.extra
        calls = self.mt_calls[self.n_mt_head:]
        inst = [self.noocc_at(p, q), self.cross(X, q, p), self.in_chunk(X, p, L(T)), self.in_chunk(X, p, L(T) - (p - q))]
        mq = p - q
        if isinstance(c['trest'], VNone):
            inst.append(self.pendc_at(p, mq))
        else:
            m0 = L(T) - L(c['trest'].t)
            inst += [self.unique(X, m0, mq, self.upto(p), 'a'), self.unique(X, mq, m0, self.upto(p), 'b')]
        for call in calls:
            inst += [self.mt_complete(call, L(T)), self.mt_complete(call, m)]
            r = call[3]
            if isinstance(r, VInt):
                # the block ends with the head of length r (callee, soundness); were the block the whole delimiter it would also
                # end with the head of length len T: impossible for r < len T (uniqueness)
                w1, w2 = self.winlemma(X, p2, r.t), self.in_chunk(X, p2 - r.t, r.t)
                inst += [self.unique(X, r.t, L(T), self.upto(p2), 'c'), w1, self.winlemma(X, p2, L(T)), w2]
                # (proved lemmas) also for the solver-checked invariant `pending_head_lies_in_the_section`
                X.assume(w1)
                X.assume(w2)
        goal1 = self.noocc_at(p2, q)
        X.driver.add_obligation(Obligation('inv.no_occurrence_before_the_block_boundary', qf + inst, goal1, 'prove', X.where,
                                           list(X.taken), list(X.trace)))
        if isinstance(X.env['trest'], VNone):
            # a head of length m < len T that ends at p2 lies inside the block just processed
            inst2 = inst + [self.winlemma(X, p2, m), self.in_chunk(X, p2 - m, m)]
            X.driver.add_obligation(Obligation('inv.no_head_of_the_delimiter_ends_at_the_boundary_unless_expected', qf + inst2,
                                               self.pendc_at(p2, m), 'prove', X.where, list(X.taken), list(X.trace)))
        else:
            X.prove('inv.no_head_of_the_delimiter_ends_at_the_boundary_unless_expected', z3.BoolVal(True))

    def suffix_splits(self, X, m, p):
        """a head T[:m] that is a suffix of S and longer than what follows p: its first part ends at p, the rest is S[p:]"""
        T, S = self.T, self.S
        rest = L(S) - p
        fact = z3.Implies(z3.And(m >= 1, m <= L(T), p >= 0, p <= L(S), m > rest, z3.SuffixOf(self.head(m), S)),
                          z3.And(z3.SuffixOf(self.head(m - rest), self.upto(p)),
                                 z3.SubSeq(S, p, rest) == z3.SubSeq(T, m - rest, rest)))
        X.driver.add_obligation(Obligation('lemma.suffix_splits_at_the_boundary', [L(T) >= 3], fact, 'prove', X.where, list(X.taken)))
        return fact

    def suffix_inside_tail(self, X, m, p):
        """a head no longer than what follows p is a suffix of S iff it is the window of that length ending at the end of S"""
        T, S = self.T, self.S
        fact = z3.Implies(z3.And(m >= 1, m <= L(T), m <= L(S)),
                          z3.SuffixOf(self.head(m), S) == (z3.SubSeq(S, L(S) - m, m) == self.head(m)))
        X.driver.add_obligation(Obligation('lemma.suffix_is_the_last_window', [L(T) >= 3], fact, 'prove', X.where, list(X.taken)))
        return fact

    def _common_inst(self, X, q):
        T, c = self.T, self.ctx
        p = c['p']
        inst = [self.noocc_at(p, q), self.cross(X, q, p), self.in_chunk(X, p, L(T) - (p - q)), self.in_chunk(X, p, L(T))]
        mq = p - q
        if isinstance(c['trest'], VNone):
            inst.append(self.pendc_at(p, mq))
        else:
            m0 = L(T) - L(c['trest'].t)
            inst += [self.unique(X, m0, mq, self.upto(p), 'a'), self.unique(X, mq, m0, self.upto(p), 'b')]
        return inst

    def post(self, X, ret):
        T, S, c = self.T, self.S, self.ctx
        p = c['p']
        qf = [f for f in X.pc if not _has_quantifier(f)] + self.extra
        geo = [L(S) == L(self.prev) + L(self.chunk) - self.base]
        X.driver.add_obligation(Obligation('lemma.length_of_the_section', [self.base >= 0, self.base <= L(self.chunk)], geo[0], 'prove',
                                           X.where, list(X.taken)))
        q, m = X.fresh(z3.IntSort(), 'q2'), X.fresh(z3.IntSort(), 'm2')
        calls = self.mt_calls[self.n_mt_head:]
        if isinstance(ret, VInt):
            p_ret = self.pS(ret.t)
            goal = z3.Not(z3.And(q >= 0, q < p_ret, q + L(T) <= L(S), self.win(q) == T))
            inst = self._common_inst(X, q)
            for call in calls:
                inst += [self.mt_complete(call, L(T))]
            X.driver.add_obligation(Obligation('found.it_is_the_first_occurrence', qf + geo + inst, goal, 'prove', X.where,
                                               list(X.taken), list(X.trace)))
            return
        # None: the chunk is used up; what is left after p is the partial block `part`
        goal1 = z3.Not(z3.And(q >= 0, q + L(T) <= L(S), self.win(q) == T))
        inst = self._common_inst(X, q)
        if isinstance(c['trest'], VBytes):
            # `part.startswith(trest)` is about the window of the chunk at `start` (valid sequence fact, proved as a lemma)
            st, tr = c['start'], c['trest'].t
            part = z3.SubSeq(self.chunk, st, L(self.chunk) - st)
            pw = z3.Implies(z3.And(st >= 0, st + L(tr) <= L(self.chunk)),
                            z3.PrefixOf(tr, part) == (z3.SubSeq(self.chunk, st, L(tr)) == tr))
            X.driver.add_obligation(Obligation('lemma.prefix_of_the_rest_is_a_window', [L(T) >= 3], pw, 'prove', X.where, list(X.taken)))
            inst.append(pw)
            inst.append(self.in_chunk(X, p, L(tr)))
        X.driver.add_obligation(Obligation('none.no_occurrence_in_the_section', qf + geo + inst, goal1, 'prove', X.where,
                                           list(X.taken), list(X.trace)))
        final = self.me.fields['trest']
        if isinstance(final, VNone):
            rest = L(S) - p
            mm = m - rest
            inst2 = [self.suffix_splits(X, m, p), self.suffix_inside_tail(X, m, p), self.in_chunk(X, p, rest),
                     self.in_chunk(X, L(S) - m, m), self.pendc_at(p, m)]
            if isinstance(c['trest'], VNone):
                inst2.append(self.pendc_at(p, mm))
            else:
                m0 = L(T) - L(c['trest'].t)
                inst2 += [self.unique(X, m0, mm, self.upto(p), 'd'), self.unique(X, mm, m0, self.upto(p), 'e')]
            for call in calls:
                inst2.append(self.mt_complete(call, m))
            goal2 = z3.Implies(z3.And(m >= 1, m < L(T)), z3.Not(z3.SuffixOf(self.head(m), S)))
            X.driver.add_obligation(Obligation('none.no_head_pending_unless_expected', qf + geo + inst2, goal2, 'prove', X.where,
                                               list(X.taken), list(X.trace)))
        else:
            X.prove('none.no_head_pending_unless_expected', z3.BoolVal(True))

    def post_raise(self, X, exc):
        X.prove('raises.nothing', z3.BoolVal(False))


CONTRACTS.append(EatDataComplete())


# ------------------------------------------------------------------------------------------- BodyMarkuper.__init__
class MarkuperInit(Contract):
    """establishes what the delimiter search relies on: token == CR LF '-' '-' boundary, tlen == len(token), and the boundary
    contains no CR (otherwise InvalidBoundaryError and no object) - so the token's first byte, CR, occurs nowhere else in it,
    which is the uniqueness assumption of _eat_data / match_tail; no expectation is pending, the position is 0, the first eater
    is _eat_start_boundary."""
    props = ('C06',)
    file = 'ombott/request_pkg/multipart.py'
    qualname = 'BodyMarkuper.__init__'
    assumptions = ('MatchTail(token) and HeadersEaeter() are constructors with their own contracts (MatchTail.__init__ proved above)',)
    expected_labels = ('init.token_is_crlf_dashes_boundary', 'init.first_byte_of_the_token_does_not_recur', 'init.clean_initial_state',
                       'raise.only_for_a_boundary_with_cr')

    def pre(self, X):
        g = X.globals
        self.Invalid = g['InvalidBoundaryError']
        self.b = X.fresh(BytesSort, 'boundary')
        self.mt_arg = None
        c = self

        def match_tail_cls(X, args, kwargs):
            c.mt_arg = args[0] if args else None
            return VObj('MatchTailObj', {})
        self.stubs = {'MatchTail': match_tail_cls, 'HeadersEaeter': lambda X, a, k: VObj('HeadersEaeterObj', {'eat': VFunc(None, 'eat')})}
        self.me = VObj('BM', {'_eat_start_boundary': VFunc(None, '_eat_start_boundary')})
        return {'self': self.me, 'boundary': VBytes(self.b)}

    def post(self, X, ret):
        f = self.me.fields
        tok = f.get('token')
        want = z3.Concat(CRLF, HYHY, self.b)
        ok = isinstance(tok, VBytes) and isinstance(f.get('tlen'), VInt) and isinstance(f.get('boundary'), VBytes)
        X.prove('init.token_is_crlf_dashes_boundary',
                z3.And(tok.t == want, f['tlen'].t == L(want), f['boundary'].t == z3.Concat(HYHY, self.b),
                       z3.BoolVal(self.mt_arg is tok)) if ok else z3.BoolVal(False))
        # CR occurs only at index 0 of the token: the boundary is CR-free on this (non-raising) path
        X.prove('init.first_byte_of_the_token_does_not_recur', z3.Not(z3.Contains(self.b, CR)))
        clean = (isinstance(f.get('trest'), VNone) and isinstance(f.get('trest_len'), VNone) and isinstance(f.get('abspos'), VInt)
                 and isinstance(f.get('abs_start_section'), VInt) and isinstance(f.get('stopped'), VBool)
                 and f.get('cur_meth') is f.get('_eat_start_boundary'))
        X.prove('init.clean_initial_state',
                z3.And(f['abspos'].t == 0, f['abs_start_section'].t == 0, z3.Not(f['stopped'].t)) if clean else z3.BoolVal(False))

    def post_raise(self, X, exc):
        X.prove('raise.only_for_a_boundary_with_cr', z3.And(z3.BoolVal(exc.pyclass is self.Invalid), z3.Contains(self.b, CR)))


CONTRACTS.append(MarkuperInit())
