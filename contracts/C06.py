"""C06 — the post-delimiter eaters of the multipart parser: functional contracts + split lemmas.

After a delimiter the parser must see CRLF (a part follows) or "--" (closing delimiter).  The three eaters look at one or
two bytes.  Each is pinned down completely (result, exception, state change) as a function of the bytes available from
`base`; the split lemmas then show, as pure formulas over these specifications, that feeding the bytes in two pieces gives
the same verdict at the same absolute position as feeding them in one piece - for every continuation that a well-formed
body can have there (a prefix of CRLF or of "--") and also for a wrong second byte.

  _eat_last_hyphen(chunk, base)   no byte -> None, state unchanged; '-' -> stopped, base+1; any other byte -> UnexpectedBodyEndError
                                  (exactly ONE byte is inspected: the defect repaired by e3e3bd3 compared two bytes with one)
  _eat_lf(chunk, base)            no byte -> None; LF -> base+1; other -> MalformedHeadersError
  _eat_first_crlf_or_last_hyphens no byte -> None; CRLF -> base+2; "--" -> stopped, base+2;
                                  exactly one byte: CR -> continue with _eat_lf, '-' -> continue with _eat_last_hyphen, other -> MalformedHeadersError
                                  (two other bytes -> None: the parser stalls on such malformed input; outside the statement)
MatchTail.match_tail, BodyMarkuper._eat_data / iter_markup (window search, offset bookkeeping) are NOT under contract:
they are covered by the bounded check only.
"""
import z3
from pyvc.engine import (Contract, VInt, VBool, VBytes, VObj, VFunc, VNone, NONE, Unsupported, BytesSort, bytes_lit)

L = z3.Length
CR, LF, HY = bytes_lit(b'\r'), bytes_lit(b'\n'), bytes_lit(b'-')
CRLF, HYHY = bytes_lit(b'\r\n'), bytes_lit(b'--')


class _Eater(Contract):
    props = ('C06',)
    file = 'ombott/request_pkg/multipart.py'
    assumptions = ('precondition 0 <= base (a position in the chunk, possibly at its end)',)

    def eater_pre(self, X):
        self.chunk = X.fresh(BytesSort, 'chunk')
        self.base = X.fresh(z3.IntSort(), 'base')
        X.assume(z3.And(self.base >= 0, self.base <= L(self.chunk)))
        self.m_self = VFunc(None, self.qualname.split('.')[-1])
        self.m_lf = VFunc(None, '_eat_lf')
        self.m_hy = VFunc(None, '_eat_last_hyphen')
        c = self

        def map_get(X, args, kwargs):
            k = args[1].t
            if X.decide(k == CR):
                return c.m_lf
            if X.decide(k == HY):
                return c.m_hy
            return NONE
        self.stubs = {'MethMap.get': map_get}
        self.me = VObj('Eater', {'eat_meth': self.m_self, '_meth_map': VObj('MethMap', {}), 'stopped': VBool(False),
                                 '_eat_lf': self.m_lf, '_eat_last_hyphen': self.m_hy, 'headers_end_expected': NONE})
        mod = X.globals
        self.E_end = mod['UnexpectedBodyEndError']
        self.E_mal = mod['MalformedHeadersError']
        return {'self': self.me, 'chunk': VBytes(self.chunk), 'base': VInt(self.base)}

    def avail(self):
        return L(self.chunk) - self.base

    def at(self, k):
        return z3.SubSeq(self.chunk, self.base + k, 1)

    def state_unchanged(self):
        f = self.me.fields
        return z3.And(z3.BoolVal(f['eat_meth'] is self.m_self), z3.Not(f['stopped'].t))

    def post_raise(self, X, exc):
        X.prove('raises.nothing', z3.BoolVal(False))


class EatLastHyphen(_Eater):
    qualname = 'HeadersEaeter._eat_last_hyphen'
    expected_labels = ('post.needs_more_only_without_a_byte', 'post.hyphen_stops_at_next_position', 'raise.only_for_another_byte')

    def pre(self, X):
        return self.eater_pre(X)

    def post(self, X, ret):
        if isinstance(ret, VNone):
            X.prove('post.needs_more_only_without_a_byte', z3.And(self.avail() == 0, self.state_unchanged()))
        else:
            X.prove('post.hyphen_stops_at_next_position',
                    z3.And(self.avail() >= 1, self.at(0) == HY, ret.t == self.base + 1, self.me.fields['stopped'].t))

    def post_raise(self, X, exc):
        X.prove('raise.only_for_another_byte',
                z3.And(z3.BoolVal(exc.pyclass is self.E_end), self.avail() >= 1, self.at(0) != HY))


class EatLf(_Eater):
    qualname = 'HeadersEaeter._eat_lf'
    expected_labels = ('post.needs_more_only_without_a_byte', 'post.lf_consumed', 'raise.only_for_another_byte')

    def pre(self, X):
        return self.eater_pre(X)

    def post(self, X, ret):
        if isinstance(ret, VNone):
            X.prove('post.needs_more_only_without_a_byte', z3.And(self.avail() == 0, self.state_unchanged()))
        else:
            X.prove('post.lf_consumed', z3.And(self.avail() >= 1, self.at(0) == LF, ret.t == self.base + 1, self.state_unchanged()))

    def post_raise(self, X, exc):
        X.prove('raise.only_for_another_byte',
                z3.And(z3.BoolVal(exc.pyclass is self.E_mal), self.avail() >= 1, self.at(0) != LF))


class EatFirst(_Eater):
    qualname = 'HeadersEaeter._eat_first_crlf_or_last_hyphens'
    expected_labels = ('post.crlf_or_hyphens_consumed', 'post.undecided_cases', 'raise.only_for_a_single_wrong_byte',
                       'lemma.split_after_first_byte_equals_one_piece')

    def pre(self, X):
        return self.eater_pre(X)

    def two(self):
        return z3.SubSeq(self.chunk, self.base, 2)

    def post(self, X, ret):
        f = self.me.fields
        n = self.avail()
        if isinstance(ret, VNone):
            em = f['eat_meth']
            cont = z3.If(z3.And(n == 1, self.at(0) == CR), z3.BoolVal(em is self.m_lf),
                         z3.If(z3.And(n == 1, self.at(0) == HY), z3.BoolVal(em is self.m_hy), z3.BoolVal(em is self.m_self)))
            X.prove('post.undecided_cases',
                    z3.And(z3.Not(f['stopped'].t), cont,
                           z3.Or(n == 0, z3.And(n == 1, z3.Or(self.at(0) == CR, self.at(0) == HY)),
                                 z3.And(n >= 2, self.two() != CRLF, self.two() != HYHY))))
        else:
            X.prove('post.crlf_or_hyphens_consumed',
                    z3.And(n >= 2, ret.t == self.base + 2,
                           z3.Or(z3.And(self.two() == CRLF, z3.Not(f['stopped'].t)), z3.And(self.two() == HYHY, f['stopped'].t)),
                           z3.BoolVal(f['eat_meth'] is self.m_self)))
        # ---- split lemma (pure, over the three specifications): first byte b1 alone, then b2 in the next chunk
        b1, b2 = z3.Const('b1!l', BytesSort), z3.Const('b2!l', BytesSort)
        one = z3.And(L(b1) == 1, L(b2) == 1)
        both = z3.Concat(b1, b2)
        # verdict codes: 1 = part follows (CRLF consumed), 2 = closing delimiter (stopped), 3 = error
        one_piece = z3.If(both == CRLF, 1, z3.If(both == HYHY, 2, 0))
        split = z3.If(b1 == CR, z3.If(b2 == LF, 1, 3), z3.If(b1 == HY, z3.If(b2 == HY, 2, 3), 3))
        X.prove('lemma.split_after_first_byte_equals_one_piece',
                z3.Implies(z3.And(one, z3.Or(b1 == CR, b1 == HY), z3.Or(both == CRLF, both == HYHY)), one_piece == split))

    def post_raise(self, X, exc):
        X.prove('raise.only_for_a_single_wrong_byte',
                z3.And(z3.BoolVal(exc.pyclass is self.E_mal), self.avail() == 1, self.at(0) != CR, self.at(0) != HY))


CONTRACTS = [EatLastHyphen(), EatLf(), EatFirst()]
