"""C05 — _iter_chunked: chunked transfer decoding (also C12 exception frame, C13 part sizes).

Ghost state (contracts/streams.py): stream0 / stream / consumed / delivered, plus snapshots
    line_start      consumed when the size-line scanner (loop 1) is entered
    chunk_start_c   consumed when the payload loop (loop 2) is entered   (== line_start ++ size line)
    chunk_start_d   delivered at that moment
    chunk_n         the parsed chunk size
What is proved, for all streams, buffer sizes and read fragmentations (read() = server contract):
  frame     nothing but BodyParsingError is raised
  line.*    a size line is accepted only when it ended with CRLF, was read completely, is at most buff_size bytes long
            and contains no earlier CRLF (so it is exactly the stream up to the first CRLF)
  chunk.*   between two size lines exactly max(n,0) payload bytes are consumed, all of them (and nothing else) are
            yielded, in order, and they are followed by CRLF - otherwise BodyParsingError
  exit.*    the generator returns normally only directly after a size line whose value is 0
  raise.justified_by_the_stream   an error has its reason in the stream (EOF, over-long size line, unparsable size,
            missing CRLF after the data) - never in the way read() fragmented it
  yield.*   every part has 1..buff_size bytes and is exactly what the last read() returned
  variants  every loop terminates (each outer iteration consumes at least the two bytes of a CRLF)
The size text is whatever the scanner kept (bytes before the first ';', CRs dropped); int(text.strip(), 16) is the
partial function (int_ok_16_b, int_val_16_b) - only "raises ValueError iff not parsable" is used.
"""
import z3
from pyvc.engine import Contract, VInt, VBool, VBytes, VJoin, VFunc, Unsupported, BytesSort, bytes_lit
from .streams import init_stream_ghost, read_stub, L

CRLF = bytes_lit(b'\r\n')
CR = bytes_lit(b'\r')


def zmax(a, b):
    return z3.If(a > b, a, b)


class IterChunked(Contract):
    props = ('C05', 'C12', 'C13')
    file = 'ombott/request_pkg/body_mixin.py'
    qualname = '_iter_chunked'
    ghost_const = ('stream0',)
    loop_frozen_ghost = {1: ('line_start', 'delivered'), 2: ('line_start', 'chunk_start_c', 'chunk_start_d', 'chunk_n')}
    assumptions = (
        'server read(n) contract (PEP 3333): returns a prefix of the remaining stream, at most n bytes, '
        'empty only when n == 0 or at EOF; does not raise',
        'precondition buff_size >= 1',
        'int(b, 16) raises ValueError iff b is not parsable, else returns a value (partial function; no other property used)',
        'bytes.strip() is a function of its receiver (uninterpreted)',
    )
    expected_labels = ('raises.only_parsing_error', 'line.ends_with_crlf', 'line.within_buffer', 'line.no_earlier_crlf',
                       'chunk.payload_exact', 'chunk.followed_by_crlf', 'exit.only_after_zero_size_line',
                       'yield.size', 'yield.is_what_was_read', 'raise.justified_by_the_stream', 'loop0.variant_decreases', 'loop1.variant_decreases',
                       'loop2.variant_decreases')

    def pre(self, X):
        self.buff = X.fresh(z3.IntSort(), 'buff_size')
        X.assume(self.buff >= 1)
        self.s0 = init_stream_ghost(X)
        for g in ('line_start', 'chunk_start_c', 'chunk_start_d'):
            X.setg(g, VBytes(b''))
        X.setg('chunk_n', VInt(0))
        X.setg('last_size', VInt(-1))
        self.PErr = X.globals['BodyParsingError']
        self.stubs = {'read': read_stub()}
        return {'read': VFunc(self.stubs['read'], 'read'), 'buff_size': VInt(self.buff)}

    # header_size_buff is an append-only list of byte strings used only through append/clear/join
    def havoc_override(self, X, k, name):
        if name == 'header_size_buff':
            return VJoin('bytes', X.fresh(BytesSort, 'hsb'))
        return None

    def method_hook(self, X, obj, name, args, kwargs):
        if name == 'strip' and isinstance(obj, VBytes) and not args:
            return VBytes(X.driver.uf('bytes_strip', BytesSort, BytesSort)(obj.t))
        return None

    # ---- snapshots
    def before_loop(self, X, k):
        if k == 1:
            X.setg('line_start', X.g('consumed'))
        if k == 2:
            X.setg('chunk_start_c', X.g('consumed'))
            X.setg('chunk_start_d', X.g('delivered'))
            n = X.v('rest_len')
            if not isinstance(n, VInt):
                raise Unsupported('rest_len is not an int')
            X.setg('chunk_n', n)

    # ---- invariants
    def _split(self, X):
        return z3.Concat(X.g('consumed').t, X.g('stream').t) == self.s0

    def _inv0(self, X):
        return [('stream_split', self._split(X)),
                ('yielded_all_payload', z3.BoolVal(True))]

    def _line(self, X):
        """bytes of the current size line read so far"""
        c, ls = X.g('consumed').t, X.g('line_start').t
        return z3.SubSeq(c, L(ls), L(c) - L(ls))

    def _inv1(self, X):
        c, ls = X.g('consumed').t, X.g('line_start').t
        line = self._line(X)
        rl, seen_r = X.v('read_len'), X.v('seen_r')
        if not isinstance(rl, VInt) or not isinstance(seen_r, VBool):
            raise Unsupported('read_len / seen_r have unexpected types')
        return [
            ('stream_split', self._split(X)),
            ('line_is_what_was_read', z3.And(z3.PrefixOf(ls, c), L(line) == rl.t)),
            ('within_buffer', z3.And(rl.t >= 0, rl.t <= self.buff)),
            ('seen_r_iff_last_is_cr', seen_r.t == z3.SuffixOf(CR, line)),
            ('no_crlf_so_far', z3.Not(z3.Contains(line, CRLF))),
        ]

    def _inv2(self, X):
        c, d = X.g('consumed').t, X.g('delivered').t
        c0, d0, n = X.g('chunk_start_c').t, X.g('chunk_start_d').t, X.g('chunk_n').t
        rest = X.v('rest_len')
        if not isinstance(rest, VInt):
            raise Unsupported('rest_len is not an int')
        chunk = z3.SubSeq(d, L(d0), L(d) - L(d0))
        return [
            ('stream_split', self._split(X)),
            ('payload_yielded_as_read', z3.And(z3.PrefixOf(d0, d), c == z3.Concat(c0, chunk))),
            ('accounting', z3.And(L(chunk) == n - rest.t, z3.Or(rest.t >= 0, rest.t == n))),
        ]

    @property
    def loop_inv(self):
        return {0: self._inv0, 1: self._inv1, 2: self._inv2}

    @property
    def loop_variant(self):
        return {0: lambda X: L(X.g('stream').t),
                1: lambda X: self.buff + 1 - X.v('read_len').t,
                2: lambda X: X.v('rest_len').t}

    # ---- the scanner accepted a line (loop 1 left through its break)
    def after_loop(self, X, k, how):
        if k == 1:
            line = self._line(X)
            X.prove('line.ends_with_crlf', z3.SuffixOf(CRLF, line))
            X.prove('line.within_buffer', z3.And(L(line) >= 2, L(line) <= self.buff))
            X.prove('line.no_earlier_crlf', z3.Not(z3.Contains(z3.SubSeq(line, 0, L(line) - 1), CRLF)))
            X.prove('line.read_completely', z3.PrefixOf(z3.Concat(X.g('line_start').t, line), self.s0))
        if k == 2:
            pass

    # ---- one chunk is complete (end of the outer loop body)
    def end_of_body(self, X, k):
        if k != 0:
            return
        c, d = X.g('consumed').t, X.g('delivered').t
        c0, d0, n = X.g('chunk_start_c').t, X.g('chunk_start_d').t, X.g('chunk_n').t
        chunk = z3.SubSeq(d, L(d0), L(d) - L(d0))
        X.prove('chunk.payload_exact', z3.And(z3.PrefixOf(d0, d), L(chunk) == zmax(n, 0), n != 0,
                                              z3.PrefixOf(z3.Concat(c0, chunk), self.s0)))
        X.prove('chunk.followed_by_crlf', c == z3.Concat(c0, chunk, CRLF))

    def on_yield(self, X, val):
        if not isinstance(val, VBytes):
            X.prove('yield.is_bytes', z3.BoolVal(False))
            raise Unsupported('yield of a non-bytes value')
        d = X.g('delivered').t
        X.prove('yield.size', z3.And(L(val.t) >= 1, L(val.t) <= self.buff))
        last = [r for r in X.trace if 'read_part' in r][-1]['read_part']
        X.prove('yield.is_what_was_read', val.t == last)
        X.setg('delivered', VBytes(z3.Concat(d, val.t)))

    def post(self, X, ret):
        # normal return: only by the break taken when the size just parsed is 0
        rest = X.v('rest_len')
        X.prove('exit.only_after_zero_size_line', z3.And(rest.t == 0, z3.SuffixOf(CRLF, X.g('consumed').t)))
        X.prove('exit.nothing_consumed_after_zero_line',
                X.g('consumed').t == z3.Concat(X.g('line_start').t, self._line(X)))
        X.prove('exit.stream_split', self._split(X))

    def post_raise(self, X, exc):
        X.prove('raises.only_parsing_error', z3.BoolVal(exc.pyclass is self.PErr))
        # completeness: an error is raised only for a reason that lies in the stream, never because of how read()
        # happened to fragment it: the stream ended, or the size line does not fit the buffer, or the size text is
        # not a number, or the chunk data is not followed by CRLF in the stream
        c0, d0 = X.g('chunk_start_c').t, X.g('chunk_start_d').t
        d = X.g('delivered').t
        chunk = z3.SubSeq(d, L(d0), L(d) - L(d0))
        reasons = [L(X.g('stream').t) == 0,
                   z3.Not(z3.PrefixOf(z3.Concat(c0, chunk, CRLF), self.s0))]
        if X.has_local('read_len') and isinstance(X.v('read_len'), VInt):
            reasons.append(X.v('read_len').t > self.buff)
        if X.has_local('chunk_size') and isinstance(X.v('chunk_size'), VBytes):
            ok = X.driver.uf('int_ok_16_b', BytesSort, z3.BoolSort())
            strip = X.driver.uf('bytes_strip', BytesSort, BytesSort)
            reasons.append(z3.Not(ok(strip(X.v('chunk_size').t))))
        X.prove('raise.justified_by_the_stream', z3.Or(*reasons))

    replay_prop = 'C05'

    def model_to_case(self, ob, model):
        from vlib.modelutil import as_bytes, as_int
        wire = as_bytes(model, self.s0)
        buff = as_int(model, self.buff)
        if wire is None or buff is None:
            return []
        return [dict(kind='wire', level='iter', buff=buff, cycle=cyc, wire=wire) for cyc in ([1], [2], [], [3], [2, 1])]


CONTRACTS = [IterChunked()]
