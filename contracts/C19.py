"""C19 — Route.url: marker-by-marker substitution.

Ghost: `spec` = the string the statement describes, built character by character over pattern_out[:k]: a literal character
is copied verbatim; the m-th marker is replaced by the formatted value of the m-th parameter, where
     value_m     = args[number of anonymous parameters before m]  if params[m] starts with 'anon-'  else  kw[params[m]]
     formatted_m = filters_out[m](value_m) if filters_out[m] else value_m
Proved for every pattern, every number of parameters and filters:   url(...) == spec(pattern_out)   (loop invariant
spec == ''.join(ret) ++ pattern_out[cidx:k], cidx/clen bookkeeping), so literal parts appear verbatim and in order and every
marker receives the right parameter.  "Leads back to the same match" needs the real router and filters: bounded.
"""
import z3
from pyvc.engine import (Contract, VInt, VBool, VStr, VObj, VFunc, VOpaque, VJoin, VTuple, VNone, NONE, Unsupported, PyObj, StrSort)

S = z3.StringVal
MARK = S('\r')


class RouteUrl(Contract):
    props = ('C19',)
    file = 'ombott/router/radirouter.py'
    qualname = 'Route.url'
    ghost_const = ()
    assumptions = ('Route representation invariant (established by parse_rule): params, filters and filters_out have one entry per '
                   'marker of pattern_out',
                   'parameter values without an output formatter are str (as produced by a match)',
                   'filter callables are opaque: f_out(v) is a function of (marker number, v); f_in may reject (AssertionError)')
    expected_labels = ('post.url_is_pattern_with_markers_replaced', 'loop0.inv_preserved.built_so_far',
                       'loop0.inv_preserved.slice_bookkeeping', 'loop0.inv_preserved.right_parameter_next')
    max_paths = 2000

    def pre(self, X):
        d = X.driver
        self.p = X.fresh(StrSort, 'pattern_out')
        self.name = d.uf('param_name', z3.IntSort(), StrSort)
        self.argval = d.uf('arg_value', z3.IntSort(), PyObj)
        self.kwval = d.uf('kw_value', StrSort, PyObj)
        self.fout = d.uf('f_out_apply', z3.IntSort(), PyObj, PyObj)
        self.as_str = d.uf('as_str', PyObj, StrSort)
        self.has_params = X.choose(2, 'route has parameters?') == 1
        X.setg('spec', VStr(''))
        X.setg('g_m', VInt(0))
        X.setg('g_anon', VInt(0))
        X.setg('cur_fout', VBool(False))
        c = self
        params = VObj('Params', {'truthy': VBool(self.has_params)})
        me = VObj('Route', {'params': params, 'filters': VObj('Filters', {}), 'filters_out': VObj('FiltersOut', {}),
                            'anon_prefix': VStr('anon-'), 'pattern_out': VStr(self.p)})
        return {'self': me, 'args': VObj('Args', {}), 'kw': VObj('Kw', {})}

    def getitem_hook(self, X, obj, key):
        if not isinstance(obj, VObj):
            return None
        if obj.cls == 'Params':
            X.prove('index.params_by_marker_number', key.t == X.g('g_m').t)
            return VStr(self.name(key.t))
        if obj.cls == 'FiltersOut':
            X.prove('index.filters_out_by_marker_number', key.t == X.g('g_m').t)
            m = key.t
            has = X.choose(2, 'output formatter present?') == 1
            X.setg('cur_fout', VBool(has))
            if not has:
                return NONE
            return VFunc(lambda X2, a, k, _m=m: VOpaque(self.fout(_m, a[0].t), 'formatted'), 'f_out')
        if obj.cls == 'Filters':
            X.prove('index.filters_by_marker_number', key.t == X.g('g_m').t)
            if X.choose(2, 'input filter present?') == 0:
                return NONE
            return VFunc(lambda X2, a, k: VTuple([VOpaque(X2.fresh(PyObj, 'fv')), X2.fresh_int('pos'), NONE]), 'f_in')
        if obj.cls == 'Args':
            return VOpaque(self.argval(key.t), 'arg')
        if obj.cls == 'Kw':
            return VOpaque(self.kwval(key.t), 'kw')
        return None

    def havoc_override(self, X, k, name):
        if name == 'ret':
            return VJoin('str', X.fresh(StrSort, 'ret'))
        return None

    def method_hook(self, X, obj, name, args, kwargs):
        if name == 'append' and isinstance(obj, VJoin) and isinstance(args[0], VOpaque):
            obj.t = z3.Concat(obj.t, self.as_str(args[0].t))
            return NONE
        return None

    # ---- ghost: the specified URL over the processed prefix
    def _k(self, X):
        return X.v('__i0').t

    def _inv(self, X):
        k = self._k(X)
        ret = X.v('ret')
        if not isinstance(ret, VJoin):
            rt = z3.StringVal('')
        else:
            rt = ret.t
        cidx, clen, pidx, aidx = (X.v(n).t for n in ('cidx', 'clen', 'pidx', 'args_idx'))
        return [
            ('slice_bookkeeping', z3.And(0 <= cidx, cidx <= k, clen == k - cidx, k <= z3.Length(self.p))),
            ('built_so_far', X.g('spec').t == z3.Concat(rt, z3.SubString(self.p, cidx, k - cidx))),
            ('pending_literal_has_no_marker', z3.Not(z3.Contains(z3.SubString(self.p, cidx, k - cidx), MARK))),
            ('right_parameter_next', z3.And(pidx == X.g('g_m').t, aidx == X.g('g_anon').t, pidx >= 0, aidx >= 0)),
        ]

    @property
    def loop_inv(self):
        return {0: self._inv}

    def after_havoc(self, X, k):
        # the specification advances by one character per iteration; remember where it stood
        X.setg('spec_head', X.g('spec'))
        X.setg('m_head', X.g('g_m'))
        X.setg('anon_head', X.g('g_anon'))

    def end_of_body(self, X, k):
        # ghost update for the character just processed (index __i0 - 1)
        i = self._k(X) - 1
        ch = z3.SubString(self.p, i, 1)
        m = X.g('m_head').t
        a = X.g('anon_head').t
        nm = self.name(m)
        anon = z3.PrefixOf(S('anon-'), nm)
        value = z3.If(anon, self.argval(a), self.kwval(nm))
        formatted = z3.If(X.g('cur_fout').t, self.fout(m, value), value)
        is_mark = ch == MARK
        X.setg('spec', VStr(z3.If(is_mark, z3.Concat(X.g('spec_head').t, self.as_str(formatted)),
                                  z3.Concat(X.g('spec_head').t, ch))))
        X.setg('g_m', VInt(z3.If(is_mark, m + 1, m)))
        X.setg('g_anon', VInt(z3.If(z3.And(is_mark, anon), a + 1, a)))

    def post(self, X, ret):
        if not self.has_params:
            X.prove('post.no_parameters_returns_pattern', ret.t == self.p)
            return
        X.prove('post.url_is_pattern_with_markers_replaced', ret.t == X.g('spec').t)

    def post_raise(self, X, exc):
        # an input filter may reject the value (assert), a parameter may be missing
        X.prove('raises.only_rejections', z3.BoolVal(exc.pyclass in (AssertionError, KeyError, IndexError)))


CONTRACTS = [RouteUrl()]
