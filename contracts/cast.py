"""Ombott._cast (C03): the output casting loop.

The handler's result is a dynamically typed value.  It is modelled by its KIND (explored exhaustively):
    falsy | str (non-empty) | bytes (non-empty) | HTTPError | HTTPResponse | file-like | iterable | other
and every opaque operation on it (iter, next, apply, an error handler, the body of a response, wsgi.file_wrapper) may
produce any kind again or raise.  The loop is cut at an invariant; one iteration is analysed from an arbitrary kind.

Proved:
  ret.*      every return is one of: [] with Content-Length setdefault 0; [bytes] with Content-Length setdefault len(bytes);
             the server's / the framework's file wrapper around a file-like; an iterator whose head is the first non-empty
             item (bytes verbatim, str encoded item by item) followed by the rest of the handler's iterator
  close.*    close() of the handler's iterable is attached to the returned iterator exactly once iff it exists
  err.*      HTTPError -> applied to the response, then the registered (or default) error handler's output is cast again;
             HTTPResponse -> applied, its body cast again; an exception at the first next() becomes HTTPError(500) (cast again);
             a raised HTTPResponse is used as the response; an unsupported item type becomes HTTPError(500)
  term       the loop terminates: variant 1001 - loops_cnt (after 1000 rounds the default error page - a str - is returned)
  frame      only KeyboardInterrupt/SystemExit/MemoryError from next(), or whatever an opaque user callable raised, escapes
"""
import ast
import z3
from pyvc.engine import (Contract, Val, VInt, VBool, VStr, VBytes, VObj, VFunc, VOpaque, VTuple, VList, VClass, VExc, VNone, NONE,
                         Unsupported, PyObj, StrSort, BytesSort)

KINDS = ('falsy', 'str', 'bytes', 'httperror', 'httpresponse', 'filelike', 'iterable', 'other')
ITEM_KINDS = ('falsy', 'str', 'bytes', 'httpresponse', 'other')


class Dyn(Val):
    """a dynamically typed python value known by its kind"""
    mutable = False

    def __init__(self, kind, origin=None, **attrs):
        self.kind, self.origin, self.attrs = kind, origin, attrs

    def truth(self, X):
        return z3.BoolVal(self.kind != 'falsy')

    def havoc(self, X, hint):
        return any_value(X, hint, KINDS if hint == 'out' else ITEM_KINDS)

    def __repr__(self):
        return f'<Dyn {self.kind} {self.origin}>'


def any_value(X, why, kinds=KINDS):
    k = kinds[X.choose(len(kinds), f'kind of {why}')]
    d = Dyn(k, why)
    if k == 'filelike':
        d.attrs['has_close'] = X.choose(2, 'file-like has close()?') == 1
        d.attrs['has_iter'] = X.choose(2, 'file-like has __iter__?') == 1
    if k == 'iterable':
        d.attrs['has_close'] = X.choose(2, 'iterable has close()?') == 1
    return d


class Cast(Contract):
    props = ('C03',)
    file = 'ombott/ombott.py'
    qualname = 'Ombott._cast'
    max_paths = 60000
    assumptions = ('the default error handler returns a str (json.dumps / template rendering)',
                   'user callables (error handlers, wsgi.file_wrapper, apply on user subclasses) are opaque: they may raise; '
                   'whatever they raise escapes _cast and is caught by the catch-all of wsgi (proved there)',
                   'str.encode(charset) of a non-empty str is non-empty bytes')
    expected_labels = ('ret.empty_with_zero_length', 'ret.single_bytes_with_exact_length', 'ret.file_wrapper_around_the_file',
                       'ret.iterator_head_is_first_nonempty_item', 'close.attached_exactly_once_iff_present',
                       'err.http_error_applied_then_handler_output_recast', 'loop0.variant_decreases', 'raise.only_interrupts_or_user_code',
                       'iter.leading_empty_items_are_skipped')

    def pre(self, X):
        g = X.globals
        self.HTTPError, self.HTTPResponse = g['HTTPError'], g['HTTPResponse']
        self.setdefaults = []
        self.applied = []
        self.user_raised = False
        self.has_fw = X.choose(2, 'wsgi.file_wrapper in environ?') == 1
        c = self

        def setdefault(X, args, kwargs):
            c.setdefaults.append((z3.simplify(args[1].t).as_string(), args[2]))
            return NONE

        def default_handler(X, args, kwargs):
            c.applied.append(('default_error_handler', args[-1]))
            return Dyn('str', 'default error page')

        def handlers_get(X, args, kwargs):
            dflt = args[2]
            if X.choose(2, 'custom error handler registered?') == 0:
                return dflt

            def custom(X2, a, k):
                c.applied.append(('custom_error_handler', a[0]))
                if X2.choose(2, 'custom error handler raises?') == 1:
                    c.user_raised = True
                    X2.raise_(RuntimeError, 'error handler')
                return any_value(X2, 'custom error handler output')
            return VFunc(custom, 'custom_error_handler')

        def file_wrapper(X, args, kwargs):
            return Dyn('wrapped_by_server', 'wsgi.file_wrapper', of=args[0])
        self.file_wrapper = VFunc(file_wrapper, 'wsgi.file_wrapper')

        def chain(X, args, kwargs):
            head, rest = args
            return Dyn('chain', 'itertools.chain', head=head, rest=rest)
        def new_apply(X, args, kwargs):
            c.applied.append(('apply', args[0], args[1]))
            return NONE
        self.stubs = {'NewHTTPError.apply': new_apply, 'Headers.setdefault': setdefault, 'App.default_error_handler': default_handler, 'Handlers.get': handlers_get,
                      'itertools.chain': chain, 'format_exc': lambda X, a, k: X.fresh_str('tb')}
        self.resp = VObj('Response', {'headers': VObj('Headers', {}), 'charset': VStr('UTF-8')})
        self.env = VObj('Environ', {})
        me = VObj('App', {'response': self.resp, 'request': VObj('Request', {'environ': self.env}),
                          'error_handlers': VObj('Handlers', {})})
        self.out0 = any_value(X, 'out')
        return {'self': me, 'out': self.out0}

    # ---------------------------------------------------------------- the dynamic value protocol
    def isinstance_hook(self, X, v, classes):
        if isinstance(v, Dyn):
            names = {getattr(c, '__name__', str(c)) for c in classes}
            is_ = {'str': v.kind == 'str', 'bytes': v.kind == 'bytes', 'HTTPError': v.kind == 'httperror',
                   'HTTPResponse': v.kind in ('httperror', 'httpresponse')}
            return z3.BoolVal(any(is_.get(n, False) for n in names))
        if isinstance(v, VObj) and v.cls == 'NewHTTPError':
            names = {getattr(c, '__name__', str(c)) for c in classes}
            return z3.BoolVal(bool(names & {'HTTPError', 'HTTPResponse'}))
        return None

    def builtin_hook(self, X, name, args, kwargs):
        a0 = args[0] if args else None
        if name == 'len' and isinstance(a0, Dyn) and a0.kind == 'bytes':
            return VInt(X.driver.uf('len_of', z3.IntSort(), z3.IntSort())(z3.IntVal(id(a0) % 100000)))
        if name == 'hasattr' and isinstance(a0, (Dyn, VObj)):
            attr = z3.simplify(args[1].t).as_string()
            if not isinstance(a0, Dyn):
                return VBool(False)
            if attr == 'read':
                return VBool(a0.kind == 'filelike')
            if attr == 'close':
                return VBool(bool(a0.attrs.get('has_close')))
            if attr == '__iter__':
                return VBool(bool(a0.attrs.get('has_iter')) or a0.kind == 'iterable')
        if name == 'getattr' and len(args) == 3 and z3.simplify(args[1].t).as_string() == 'close':
            if isinstance(a0, Dyn) and a0.attrs.get('has_close'):
                return Dyn('close_method', 'close', of=a0)
            return args[2]
        if name == 'iter':
            if isinstance(a0, Dyn) and a0.kind in ('iterable', 'filelike'):
                return Dyn('iterator', 'iter', of=a0)
            # iter() of something that is not iterable: TypeError (an Exception: becomes a 500 below)
            X.raise_(TypeError, 'iter')
        if name == 'next' and isinstance(a0, Dyn) and a0.kind == 'iterator':
            k = X.choose(5, 'next(): item | StopIteration | raises HTTPResponse | raises Exception | KeyboardInterrupt')
            if k == 1:
                X.raise_(StopIteration, 'next')
            if k == 2:
                X.raise_(self.HTTPResponse, 'next')
            if k == 3:
                X.raise_(RuntimeError, 'next')
            if k == 4:
                X.raise_(KeyboardInterrupt, 'next')
            return any_value(X, 'item', ITEM_KINDS)
        if name == 'type':
            return VOpaque(X.fresh(PyObj, 'type'), 'type')
        return None

    def truth_of_dyn(self):
        pass

    def method_hook(self, X, obj, name, args, kwargs):
        if isinstance(obj, Dyn):
            if name == 'encode' and obj.kind == 'str':
                return Dyn('bytes', 'encoded', of=obj)
            if name == 'apply' and obj.kind in ('httperror', 'httpresponse'):
                self.applied.append(('apply', obj, args[0]))
                return NONE
        if isinstance(obj, VObj) and obj.cls == 'NewHTTPError' and name == 'apply':
            self.applied.append(('apply', obj, args[0]))
            return NONE
        return None

    def getattr_hook(self, X, obj, attr):
        if isinstance(obj, Dyn) and obj.kind in ('httperror', 'httpresponse'):
            if attr == 'body':
                return any_value(X, 'response body')
            if attr == 'status_code':
                return X.fresh_int('status_code')
        if isinstance(obj, VObj) and obj.cls == 'NewHTTPError' and attr == 'status_code':
            return obj.fields['code']
        return None

    def contains_hook(self, X, container, item):
        if container is self.env:
            return z3.BoolVal(self.has_fw)
        return None

    def getitem_hook(self, X, obj, key):
        if obj is self.env and z3.simplify(key.t).as_string() == 'wsgi.file_wrapper':
            return self.file_wrapper
        return None

    def construct_hook(self, X, pyclass, args, kwargs):
        if pyclass is self.HTTPError:
            return VObj('NewHTTPError', {'code': args[0], 'truthy': VBool(True)})
        name = getattr(pyclass, '__name__', '')
        if name == 'WSGIFileWrapper':
            return Dyn('wrapped_by_framework', 'WSGIFileWrapper', of=args[0])
        if name == '_closeiter':
            return Dyn('closeiter', '_closeiter', iterator=args[0], close=args[1])
        return None

    def genexp_hook(self, X, node):
        # (it.encode(response.charset) for it in itertools.chain([first], iout))
        (g,) = node.generators
        ok = (isinstance(node.elt, ast.Call) and isinstance(node.elt.func, ast.Attribute) and node.elt.func.attr == 'encode'
              and isinstance(node.elt.func.value, ast.Name) and isinstance(g.target, ast.Name) and node.elt.func.value.id == g.target.id
              and not g.ifs)
        src = X.eval(g.iter)
        if not ok or not isinstance(src, Dyn):
            raise Unsupported('generator expression is not the item-wise encoder')
        return Dyn('encoded_chain', 'genexp', of=src)

    def exc_value(self, X):
        return None

    def unknown_exc_matches(self, X, exc, pyclasses):
        return False

    # `except HTTPResponse as rs: first = rs` binds the exception object: treat it as a response value
    def raise_hook(self, X, v):
        return None

    # ---------------------------------------------------------------- loop contract
    def _inv(self, X):
        cnt = X.v('loops_cnt')
        return [('rounds_bounded', z3.And(cnt.t >= 0, cnt.t <= 1000))]

    loop_inv = {}

    def __init__(self):
        self.loop_inv = {0: self._inv, 1: lambda X: []}
        self.loop_variant = {0: lambda X: 1001 - X.v('loops_cnt').t}

    def after_havoc(self, X, k):
        if k == 0:
            self.setdefaults = []
            self.applied = []
            self.iter_out = X.v('out')     # the value this iteration starts from

    def end_of_body(self, X, k):
        if k != 0:
            return
        # a `continue`: why?  (checked against what this iteration started from)
        start = self.iter_out
        new = X.v('out')
        if isinstance(new, VObj) and new.cls == 'NewHTTPError' and X.has_local('first'):
            first = X.v('first')
            # a 500 made inside the iterable branch: never because of an EMPTY leading item (those are skipped)
            X.prove('iter.leading_empty_items_are_skipped', z3.BoolVal(not (isinstance(first, Dyn) and first.kind == 'falsy')))
        if isinstance(start, Dyn) and start.kind == 'httperror':
            ap = [a for a in self.applied if a[0] == 'apply']
            hd = [a for a in self.applied if a[0] in ('default_error_handler', 'custom_error_handler')]
            X.prove('err.http_error_applied_then_handler_output_recast',
                    z3.BoolVal(len(ap) == 1 and ap[0][1] is start and ap[0][2] is self.resp and len(hd) == 1 and hd[0][1] is start))
        if isinstance(start, Dyn) and start.kind == 'httpresponse':
            ap = [a for a in self.applied if a[0] == 'apply']
            X.prove('err.http_response_applied_then_body_recast',
                    z3.BoolVal(len(ap) == 1 and ap[0][1] is start and ap[0][2] is self.resp and isinstance(new, Dyn) and new.origin == 'response body'))

    # ---------------------------------------------------------------- exits
    def post(self, X, ret):
        start = getattr(self, 'iter_out', self.out0)
        sd = self.setdefaults
        if isinstance(ret, VList) and not ret.items:
            X.prove('ret.empty_with_zero_length',
                    z3.BoolVal(len(sd) == 1 and sd[0][0] == 'Content-Length' and isinstance(sd[0][1], VInt)
                               and z3.simplify(sd[0][1].t).as_long() == 0))
            return
        if isinstance(ret, VList) and len(ret.items) == 1 and isinstance(ret.items[0], Dyn) and ret.items[0].kind == 'bytes':
            b = ret.items[0]
            ln = X.driver.uf('len_of', z3.IntSort(), z3.IntSort())(z3.IntVal(id(b) % 100000))
            X.prove('ret.single_bytes_with_exact_length',
                    z3.And(z3.BoolVal(len(sd) == 1 and sd[0][0] == 'Content-Length' and isinstance(sd[0][1], VInt)), sd[0][1].t == ln)
                    if len(sd) == 1 and isinstance(sd[0][1], VInt) else z3.BoolVal(False))
            return
        if isinstance(ret, Dyn) and ret.kind in ('wrapped_by_server', 'wrapped_by_framework'):
            f = ret.attrs['of']
            ok = isinstance(f, Dyn) and f.kind == 'filelike' and (ret.kind == 'wrapped_by_server') == self.has_fw and not sd
            if ret.kind == 'wrapped_by_framework':
                ok = ok and (f.attrs['has_close'] or not f.attrs['has_iter'])
            X.prove('ret.file_wrapper_around_the_file', z3.BoolVal(bool(ok)))
            return
        # an iterator
        it = ret
        closes = 0
        src = None
        if isinstance(it, Dyn) and it.kind == 'closeiter':
            cm = it.attrs['close']
            closes = 1
            src = cm.attrs.get('of') if isinstance(cm, Dyn) and cm.kind == 'close_method' else None
            it = it.attrs['iterator']
        enc = False
        if isinstance(it, Dyn) and it.kind == 'encoded_chain':
            enc = True
            it = it.attrs['of']
        ok = isinstance(it, Dyn) and it.kind == 'chain'
        if ok:
            head, rest = it.attrs['head'], it.attrs['rest']
            first = head.items[0] if isinstance(head, VList) and len(head.items) == 1 else None
            ok = (isinstance(first, Dyn) and first.kind == ('str' if enc else 'bytes') and isinstance(rest, Dyn)
                  and rest.kind == 'iterator' and not sd)
            origin = rest.attrs.get('of') if ok else None
            X.prove('ret.iterator_head_is_first_nonempty_item', z3.BoolVal(bool(ok)))
            has_close = isinstance(origin, Dyn) and bool(origin.attrs.get('has_close'))
            X.prove('close.attached_exactly_once_iff_present',
                    z3.BoolVal(closes == (1 if has_close else 0) and (not has_close or src is origin)))
        else:
            X.prove('ret.known_shape', z3.BoolVal(False))

    def post_raise(self, X, exc):
        X.prove('raise.only_interrupts_or_user_code', z3.BoolVal(exc.pyclass is KeyboardInterrupt or self.user_raised))


CONTRACTS = [Cast()]
