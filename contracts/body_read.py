"""_body_read (C04, C13, feeds C05/C06): accumulate what the body generator yields, enforce max_body_size,
switch to a temporary file past the in-memory threshold, feed the multipart markup with every part in order.

Abstract state of the library objects (assumed library contract, DESIGN §7):
    io.BytesIO()              -> (is_temp=False, content=b'')
    TemporaryFile(mode='w+b') -> (is_temp=True,  content=b'')
    f.write(b)                   appends b to content          f.getvalue() -> content
"""
import z3
from pyvc.engine import Contract, VInt, VBool, VBytes, VObj, VFunc, NONE, VNone, VExc, Unsupported, BytesSort
from .streams import init_stream_ghost, L, BodyGen, iter_body_exit, zmax


def _file(X, is_temp):
    return VObj('File', {'is_temp': VBool(is_temp), 'content': VBytes(b'')})


class BodyRead(Contract):
    props = ('C04', 'C05', 'C13')
    file = 'ombott/request_pkg/body_mixin.py'
    qualname = '_body_read'
    ghost_const = ('stream0',)
    assumptions = (
        'io.BytesIO / tempfile.TemporaryFile: write() appends, getvalue() returns the content (library contract)',
        'callee contract of _iter_body (proved in contracts/C04.py): parts of 1..buff_size bytes; on exhaustion the parts '
        'concatenate to stream0[:min(max(CL,0),len)]',
        'callee contract of _iter_chunked (contracts/C05.py): parts of 1..buff_size bytes; raises only BodyParsingError',
        'MultipartMarkup.parse(part) does not raise (it stores its error, see multipart.py MultipartMarkup.parse) ',
        'precondition buff_size >= 1; max_body_size is None or an int >= 0',
    )
    expected_labels = ('loop0.inv_preserved.content_is_all_parts', 'loop0.inv_preserved.spooled_iff_large',
                       'loop0.inv_preserved.within_limit', 'loop0.inv_preserved.markup_fed_in_order',
                       'post.content_exact', 'post.spooled_iff_large', 'raise.size_error_only_above_limit',
                       'raise.size_error_within_one_buffer')

    def pre(self, X):
        self.buff = X.fresh(z3.IntSort(), 'buff_size')
        X.assume(self.buff >= 1)
        self.CL = X.fresh(z3.IntSort(), 'content_length')
        self.s0 = init_stream_ghost(X)
        X.setg('gen_out', VBytes(b''))
        X.setg('fed', VBytes(b''))
        self.chunked = X.fresh(z3.BoolSort(), 'chunked')
        # max_body_size: None | int ; markup: None | object  (all four combinations are explored)
        self.has_max = X.choose(2, 'max_body_size is None?') == 1
        self.max = X.fresh(z3.IntSort(), 'max_body_size')
        X.assume(self.max >= 0)
        self.has_markup = X.choose(2, 'markup is None?') == 1
        mod = X.globals
        self.BodySizeError = mod['BodySizeError']
        self.BodyParsingError = mod['BodyParsingError']
        contract = self

        def gen_body(X, args, kwargs):
            # partial(_iter_body, content_length=content_length)(read, buff_size)
            rd, buff = args
            X.prove('call._iter_body.buff_is_buff_size', buff.t == contract.buff)
            cl = kwargs['content_length']
            X.prove('call._iter_body.content_length_passed', cl.t == contract.CL)
            return BodyGen(contract.buff, lambda out: iter_body_exit(contract.s0, out, contract.CL), None, 'iter_body')

        def gen_chunked(X, args, kwargs):
            rd, buff = args
            X.prove('call._iter_chunked.buff_is_buff_size', buff.t == contract.buff)
            ex = X.driver.uf('chunked_exit', BytesSort, BytesSort, z3.BoolSort())
            return BodyGen(contract.buff, lambda out: ex(contract.s0, out), contract.BodyParsingError, 'iter_chunked')

        def partial(X, args, kwargs):
            f = args[0]
            if len(args) != 1:
                raise Unsupported('partial with positional arguments')
            return VFunc(lambda X2, a2, k2: f.fn(X2, a2, dict(kwargs, **k2)), 'partial:' + f.name)

        def bytesio(X, args, kwargs):
            if args or kwargs:
                raise Unsupported('BytesIO with arguments')
            return _file(X, False)

        def tempfile(X, args, kwargs):
            return _file(X, True)

        def write(X, args, kwargs):
            f, b = args
            if not isinstance(b, VBytes):
                raise Unsupported('write of non-bytes')
            f.fields['content'] = VBytes(z3.Concat(f.fields['content'].t, b.t))
            return VInt(L(b.t))

        def getvalue(X, args, kwargs):
            (f,) = args
            X.prove('getvalue.only_on_memory_buffer', z3.Not(f.fields['is_temp'].t))
            return f.fields['content']

        def parse(X, args, kwargs):
            m, part = args
            X.setg('fed', VBytes(z3.Concat(X.g('fed').t, part.t)))
            return NONE
        self.stubs = {'_iter_body': gen_body, '_iter_chunked': gen_chunked, 'partial': partial, 'BytesIO': bytesio,
                      'TemporaryFile': tempfile, 'File.write': write, 'File.getvalue': getvalue, 'Markup.parse': parse}
        return {
            'read': VFunc(None, 'read'), 'buff_size': VInt(self.buff), 'content_length': VInt(self.CL),
            'chunked': VBool(self.chunked), 'max_body_size': VInt(self.max) if self.has_max else NONE,
            'markup': VObj('Markup', {}) if self.has_markup else NONE,
        }

    # ---- the loop
    def _locals(self, X):
        body = X.v('body')
        if not (isinstance(body, VObj) and body.cls == 'File'):
            raise Unsupported('`body` is not a file object')
        size, temp = X.v('body_size'), X.v('is_temp_file')
        if not isinstance(size, VInt) or not isinstance(temp, VBool):
            raise Unsupported('body_size / is_temp_file have unexpected types')
        return body, size.t, temp.t

    def _inv(self, X):
        body, size, temp = self._locals(X)
        out = X.g('gen_out').t
        inv = [
            ('content_is_all_parts', body.fields['content'].t == out),
            ('size_is_length', size == L(out)),
            ('spooled_iff_large', z3.And(body.fields['is_temp'].t == temp, temp == (L(out) > self.buff))),
            ('markup_fed_in_order', X.g('fed').t == (out if self.has_markup else z3.Empty(BytesSort))),
        ]
        if self.has_max:
            inv.append(('within_limit', size <= self.max))
        else:
            inv.append(('within_limit', z3.BoolVal(True)))
        return inv

    @property
    def loop_inv(self):
        return {0: self._inv}

    def post(self, X, ret):
        if not (isinstance(ret, VObj) and ret.cls == 'File'):
            X.prove('post.returns_file', z3.BoolVal(False))
            return
        out = X.g('gen_out').t
        X.prove('post.content_exact', ret.fields['content'].t == out)
        X.prove('post.spooled_iff_large', ret.fields['is_temp'].t == (L(out) > self.buff))
        # composition with the proved exit condition of _iter_body: this is the C04 statement for _body_read
        X.prove('post.content_length_body_exact',
                z3.Implies(z3.Not(self.chunked), iter_body_exit(self.s0, ret.fields['content'].t, self.CL)))
        if self.has_max:
            X.prove('post.accepted_only_within_limit', L(out) <= self.max)
        X.prove('post.markup_fed_everything', X.g('fed').t == (out if self.has_markup else z3.Empty(BytesSort)))

    def post_raise(self, X, exc):
        out = X.g('gen_out').t
        if exc.pyclass is self.BodySizeError:
            X.prove('raise.size_error_only_with_limit', z3.BoolVal(self.has_max))
            if self.has_max:
                X.prove('raise.size_error_only_above_limit', L(out) > self.max)
                # before this part the size was within the limit and a part is at most one buffer:
                X.prove('raise.size_error_within_one_buffer', L(out) <= zmax(self.max, 0) + self.buff)
            return
        if exc.pyclass is self.BodyParsingError:
            X.prove('raise.parsing_error_only_if_chunked', self.chunked)
            return
        X.prove('raises.only_allowed', z3.BoolVal(False))


CONTRACTS = [BodyRead()]
