"""C02 / C11 — the application-level entry points of the router are pass-throughs: what the user says reaches the router unchanged.

Every bounded history of C11 and every C02 case drives the router; a user drives it through these few lines.  Each function is
verified to make exactly ONE call of the router method it fronts, with every argument in its place (positionally or by keyword
as the callee takes it), to return what the statement promises, and to take the documented default when the caller is silent
(`defaults`: the body proof is for all argument values, the default values are obligations of their own).

Ombott.add_route          -> router.add(rule, method, handler, name, overwrite=overwrite), result returned
Ombott.remove_route       -> router.remove(rule, route_pattern=route_pattern, name=name)
Ombott.remove_route_hook  -> router.remove_hook(rule)
Ombott.route              -> with a callback: registers it at once and returns it; without: returns the decorator, registers nothing
Ombott.route.decorator    -> add_route(rule, method, callback, name, overwrite=overwrite), callback returned unchanged
Ombott.on_route           -> with a function: router.add_hook(rule, func) once; without: returns the decorator, installs nothing
Ombott.on_route.decorator -> router.add_hook(rule, func), func returned unchanged
RadiRouter.hook_installer -> the slot of the given hook type (SIMPLE by default) gets the hook, the other slot is kept; a missing
                             hook set becomes a new [None, None]
RadiRouter.get_hook       -> self.hooks[parse_rule(rule)[0]]
"""
import z3
from pyvc.engine import (Contract, Val, VInt, VBool, VStr, VObj, VList, VTuple, VFunc, VOpaque, VNone, NONE, VExc, VPy,
                         Unsupported, PyObj, StrSort, IntSort)


def _opq(X, name, kind='obj'):
    return VOpaque(X.fresh(PyObj, name), kind)


class _PassThrough(Contract):
    """one call of `callee` with `want_args` (positional, after the receiver) and `want_kwargs`; `returns`: 'callee' | 'none' | param"""
    props = ('C11',)
    file = 'ombott/ombott.py'
    params = ()
    callee = None              # stub key
    want_args = ()
    want_kwargs = {}
    returns = 'none'
    expected_labels = ('call.exactly_one_with_every_argument_in_its_place', 'post.returns_what_is_promised')
    receiver_fields = {'router': 'Router'}

    def pre(self, X):
        self.vals = {p: _opq(X, p) for p in self.params}
        self.result = _opq(X, 'result')
        self.calls = []
        c = self

        def stub(X, args, kwargs):
            c.calls.append((list(args[1:]), dict(kwargs)))
            return c.result
        self.stubs = {self.callee: stub}
        self.me = VObj('App', {k: VObj(v, {}) for k, v in self.receiver_fields.items()})
        env = {'self': self.me}
        env.update(self.vals)
        return env

    def _call_ok(self):
        if len(self.calls) != 1:
            return False
        args, kwargs = self.calls[0]
        return (len(args) == len(self.want_args) and all(a is self.vals[w] for a, w in zip(args, self.want_args))
                and set(kwargs) == set(self.want_kwargs) and all(kwargs[k] is self.vals[w] for k, w in self.want_kwargs.items()))

    def post(self, X, ret):
        X.prove('call.exactly_one_with_every_argument_in_its_place', z3.BoolVal(bool(self._call_ok())))
        want = self.result if self.returns == 'callee' else NONE if self.returns == 'none' else self.vals[self.returns]
        X.prove('post.returns_what_is_promised', z3.BoolVal(ret is want or (want is NONE and isinstance(ret, VNone))))

    def post_raise(self, X, exc):
        X.prove('raises.nothing', z3.BoolVal(False))


class AddRoute(_PassThrough):
    props = ('C02', 'C11')
    qualname = 'Ombott.add_route'
    params = ('rule', 'method', 'handler', 'name', 'overwrite')
    callee = 'Router.add'
    want_args = ('rule', 'method', 'handler', 'name')
    want_kwargs = {'overwrite': 'overwrite'}
    returns = 'callee'
    defaults = {'name': 'None', 'overwrite': 'False'}


class RemoveRoute(_PassThrough):
    qualname = 'Ombott.remove_route'
    params = ('rule', 'route_pattern', 'name')
    callee = 'Router.remove'
    want_args = ('rule',)
    want_kwargs = {'route_pattern': 'route_pattern', 'name': 'name'}
    defaults = {'rule': 'None', 'route_pattern': 'None', 'name': 'None'}


class RemoveRouteHook(_PassThrough):
    qualname = 'Ombott.remove_route_hook'
    params = ('rule',)
    callee = 'Router.remove_hook'
    want_args = ('rule',)


class RouteDecoratorInner(_PassThrough):
    props = ('C02', 'C11')
    qualname = 'Ombott.route.decorator'
    params = ('rule', 'method', 'callback', 'name', 'overwrite')   # callback is the parameter, the others are closure variables
    callee = 'App.add_route'
    want_args = ('rule', 'method', 'callback', 'name')
    want_kwargs = {'overwrite': 'overwrite'}
    returns = 'callback'


class OnRouteDecoratorInner(_PassThrough):
    qualname = 'Ombott.on_route.decorator'
    params = ('rule', 'func')
    callee = 'Router.add_hook'
    want_args = ('rule', 'func')
    returns = 'func'


class RouteOuter(Contract):
    """Ombott.route: given a callback it is registered at once (one call of the decorator with it) and what the decorator returns
    is returned; given none, the decorator itself is returned and nothing is registered yet.  Defaults: GET, unnamed, no overwrite."""
    props = ('C02', 'C11')
    file = 'ombott/ombott.py'
    qualname = 'Ombott.route'
    expected_labels = ('with_callback.registered_once_and_returned', 'without_callback.decorator_returned_nothing_registered')
    defaults = {'rule': 'None', 'method': "'GET'", 'callback': 'None', 'name': 'None', 'overwrite': 'False'}
    inner = 'decorator'
    arg = 'callback'

    def pre(self, X):
        self.given = X.choose(2, 'callback: None | given') == 1
        self.cb = VObj('Callback', {}) if self.given else NONE
        self.calls = []
        self.result = _opq(X, 'decorated')
        c = self

        def decorator(X, args, kwargs):
            c.calls.append((list(args), dict(kwargs)))
            return c.result
        self.stubs = {self.inner: decorator}
        env = {'self': VObj('App', {'router': VObj('Router', {})})}
        for p in self.other_params():
            env[p] = _opq(X, p)
        env[self.arg] = self.cb
        return env

    def other_params(self):
        return ('rule', 'method', 'name', 'overwrite')

    def truth_of(self, X, v):
        return None

    def post(self, X, ret):
        if self.given:
            ok = len(self.calls) == 1 and len(self.calls[0][0]) == 1 and self.calls[0][0][0] is self.cb and not self.calls[0][1] \
                and ret is self.result
            X.prove('with_callback.registered_once_and_returned', z3.BoolVal(bool(ok)))
        else:
            ok = not self.calls and isinstance(ret, VFunc) and ret.name == self.inner
            X.prove('without_callback.decorator_returned_nothing_registered', z3.BoolVal(bool(ok)))

    def post_raise(self, X, exc):
        X.prove('raises.nothing', z3.BoolVal(False))


class OnRouteOuter(Contract):
    """Ombott.on_route: with a function, the hook is installed at once for the rule (one router.add_hook(rule, func)); without,
    the decorator is returned and nothing is installed."""
    props = ('C11',)
    file = 'ombott/ombott.py'
    qualname = 'Ombott.on_route'
    expected_labels = ('with_func.installed_once_for_the_rule', 'without_func.decorator_returned_nothing_installed')
    defaults = {'func': 'None'}

    def pre(self, X):
        self.given = X.choose(2, 'func: None | given') == 1
        self.fn = VObj('Callback', {}) if self.given else NONE
        self.rule = _opq(X, 'rule')
        self.calls, self.deco_calls = [], []
        c = self
        self.stubs = {'Router.add_hook': lambda X, a, k: (c.calls.append((list(a[1:]), dict(k))), _opq(X, 'pattern'))[1],
                      'decorator': lambda X, a, k: (c.deco_calls.append(1), _opq(X, 'r'))[1]}
        return {'self': VObj('App', {'router': VObj('Router', {})}), 'rule': self.rule, 'func': self.fn}

    def post(self, X, ret):
        if self.given:
            ok = len(self.calls) == 1 and len(self.calls[0][0]) == 2 and self.calls[0][0][0] is self.rule \
                and self.calls[0][0][1] is self.fn and not self.calls[0][1] and not self.deco_calls
            X.prove('with_func.installed_once_for_the_rule', z3.BoolVal(bool(ok)))
        else:
            ok = not self.calls and not self.deco_calls and isinstance(ret, VFunc) and ret.name == 'decorator'
            X.prove('without_func.decorator_returned_nothing_installed', z3.BoolVal(bool(ok)))

    def post_raise(self, X, exc):
        X.prove('raises.nothing', z3.BoolVal(False))


class GetHook(Contract):
    props = ('C11',)
    file = 'ombott/router/radirouter.py'
    qualname = 'RadiRouter.get_hook'
    expected_labels = ('post.the_entry_of_the_hook_index_under_the_pattern_of_the_rule',)

    def pre(self, X):
        self.rule, self.pattern = X.fresh_str('rule'), X.fresh_str('pattern')
        self.entry = _opq(X, 'entry')
        self.hooks = VObj('HooksIndex', {})
        self.asked = []
        c = self

        def parse_rule(X, args, kwargs):
            c.asked.append(args[-1])
            return VTuple([c.pattern, _opq(X, 'params'), _opq(X, 'filters'), _opq(X, 'po'), _opq(X, 'fo')])
        self.stubs = {'Router.parse_rule': parse_rule}
        return {'self': VObj('Router', {'hooks': self.hooks}), 'rule': self.rule}

    def getitem_hook(self, X, obj, key):
        if obj is self.hooks:
            self.key = key
            return self.entry
        return None

    def post(self, X, ret):
        X.prove('post.the_entry_of_the_hook_index_under_the_pattern_of_the_rule',
                z3.BoolVal(ret is self.entry and getattr(self, 'key', None) is self.pattern and len(self.asked) == 1
                           and self.asked[0] is self.rule))

    def post_raise(self, X, exc):
        X.prove('raises.nothing', z3.BoolVal(False))


class HookInstaller(Contract):
    """RadiRouter.hook_installer: the slot of the given type gets the hook and the other slot keeps what it had; an existing hook set
    is updated in place and returned (so tree and index, which hold that very list, stay in step), a missing one becomes a new
    two-slot list.  The type defaults to SIMPLE."""
    props = ('C11',)
    file = 'ombott/router/radirouter.py'
    qualname = 'RadiRouter.hook_installer'
    expected_labels = ('slot.of_the_given_type_set_other_kept', 'set.existing_one_updated_in_place_missing_one_created')
    defaults = {'hook_type': 'HookTypes.SIMPLE'}

    def pre(self, X):
        self.t = X.choose(2, 'hook type: SIMPLE | PARTIAL')
        self.had = X.choose(2, 'hook set: None | existing') == 1
        self.old = [_opq(X, 'old_simple'), _opq(X, 'old_partial')]
        self.given = VList(list(self.old)) if self.had else NONE
        self.hook = _opq(X, 'hook')
        return {'route_hooks': self.given, 'hook': self.hook, 'hook_type': VInt(z3.IntVal(self.t))}

    def construct_hook(self, X, pyclass, args, kwargs):
        if getattr(pyclass, '__name__', '') == 'HookTypes' and len(args) == 1 and isinstance(args[0], VInt):
            return args[0]
        return None

    def post(self, X, ret):
        ok = isinstance(ret, VList) and len(ret.items) == 2 and ret.items[self.t] is self.hook
        if ok:
            other = ret.items[1 - self.t]
            ok = (other is self.old[1 - self.t]) if self.had else isinstance(other, VNone)
        X.prove('slot.of_the_given_type_set_other_kept', z3.BoolVal(bool(ok)))
        X.prove('set.existing_one_updated_in_place_missing_one_created',
                z3.BoolVal((ret is self.given) if self.had else (isinstance(ret, VList) and ret is not self.given)))

    def post_raise(self, X, exc):
        X.prove('raises.nothing', z3.BoolVal(False))


def _loop_index(X):
    """the hidden index of the for loop over the snapshot (the invariant is written for that loop)"""
    ks = [k for k in X.env if k.startswith('__i')]
    if not ks:
        raise Unsupported('contract refers to the index of a for loop over the name index, which is not there')
    return X.env[ks[0]].t


class _LiveItems(Val):
    """named_routes.items(): a live view - iterating it while the dict is popped from is an error in Python"""
    def __init__(self, c):
        self.c = c

    def snapshot(self, X):
        return _Snapshot(self.c)

    def indexed(self):
        self.c.iterating_live = True
        return self.c.n, self.c.item_at


class _Snapshot(Val):
    def __init__(self, c):
        self.c = c

    def indexed(self):
        return self.c.n, self.c.item_at


class RemoveNamedRouters(Contract):
    """RadiRouter._remove_named_routers(S): exactly the names whose route has its pattern in S are dropped from the name index, the
    others stay; the index is walked on a snapshot (popping while iterating the live view raises RuntimeError)."""
    props = ('C11',)
    file = 'ombott/router/radirouter.py'
    qualname = 'RadiRouter._remove_named_routers'
    assumptions = ('the name index is a dict of n entries (name_j -> route_j, names distinct); membership in the given set is an '
                   'uninterpreted predicate of the pattern text',)
    expected_labels = ('loop0.inv_preserved.popped_so_far_are_exactly_the_names_bound_to_a_pattern_of_the_set',
                       'post.exactly_the_names_bound_to_a_pattern_of_the_set_are_dropped', 'pop.on_a_snapshot_of_the_index')

    def pre(self, X):
        self.n = X.fresh(IntSort, 'n')
        X.assume(self.n >= 0)
        self.name_of = X.driver.uf('nr_name', IntSort, StrSort)
        self.pat_of = X.driver.uf('nr_pattern', IntSort, StrSort)
        self.in_set = X.driver.uf('nr_in_set', StrSort, z3.BoolSort())
        self.idx_of = X.driver.uf('nr_index_of_name', StrSort, IntSort)
        self.iterating_live = False
        self.S = VObj('PatternSet', {})
        X.setg('popped', z3.K(IntSort, z3.BoolVal(False)))
        c = self

        def pop(X, args, kwargs):
            X.prove('pop.on_a_snapshot_of_the_index', z3.BoolVal(not c.iterating_live))
            key = args[1]
            j = X.fresh(IntSort, 'j')
            # names are distinct: the name identifies its entry
            X.assume(z3.Implies(z3.And(j >= 0, j < c.n), c.idx_of(c.name_of(j)) == j))
            i = _loop_index(X) - 1
            X.prove('pop.a_name_of_the_index', z3.And(i >= 0, i < c.n, key.t == c.name_of(i)))
            X.setg('popped', z3.Store(X.g('popped'), i, z3.BoolVal(True)))
            return c.route_at(i)
        self.stubs = {'NamesIdx.items': lambda X, a, k: _LiveItems(c), 'NamesIdx.pop': pop}
        return {'self': VObj('Router', {'named_routes': VObj('NamesIdx', {})}), 'pattern_set': self.S}

    def route_at(self, i):
        return VObj('Route', {'pattern': VStr(self.pat_of(i))})

    def item_at(self, i):
        return VTuple([VStr(self.name_of(i)), self.route_at(i)])

    def construct_hook(self, X, pyclass, args, kwargs):
        if pyclass in (list, tuple) and len(args) == 1 and isinstance(args[0], _LiveItems) and not kwargs:
            return _Snapshot(self)      # list(view): a new sequence of the current items
        return None

    def contains_hook(self, X, container, item):
        if container is self.S and isinstance(item, VStr):
            return self.in_set(item.t)
        return None

    def _inv(self, X):
        i = _loop_index(X)
        j = z3.Int('j!inv')
        return [('popped_so_far_are_exactly_the_names_bound_to_a_pattern_of_the_set',
                 z3.ForAll([j], X.g('popped')[j] == z3.And(j >= 0, j < i, self.in_set(self.pat_of(j)))))]

    @property
    def loop_inv(self):
        return {0: self._inv}

    @property
    def loop_variant(self):
        return {0: lambda X: self.n - _loop_index(X)}

    def havoc_override(self, X, k, name):
        return None

    def post(self, X, ret):
        j = z3.Int('j!post')
        X.prove('post.exactly_the_names_bound_to_a_pattern_of_the_set_are_dropped',
                z3.ForAll([j], X.g('popped')[j] == z3.And(j >= 0, j < self.n, self.in_set(self.pat_of(j)))))

    def post_raise(self, X, exc):
        X.prove('raises.nothing', z3.BoolVal(False))


class _Matching(Val):
    """the patterns of the route index that start with `prefix` (result of the selecting comprehension)"""
    def __init__(self, prefix, as_set=False):
        self.prefix, self.as_set = prefix, as_set


class RouterRemove(Contract):
    """RadiRouter.remove: tree, route index and name index lose the same routes, or nothing is touched.
      * a rule (string) without a trailing '*' that is not registered with these filters (_match is None): nothing is changed at all;
      * otherwise the tree is asked once to remove the pattern (routes, not hooks_only), where the pattern is to_pattern(rule) for a
        rule, route.pattern for a Route object or for the route popped from the name index, or the given route_pattern;
      * exact removal: the route index drops that one pattern and the name index is purged of exactly {pattern};
      * prefix removal (pattern ends with '*'): the route index drops exactly the patterns that start with the pattern minus its
        star, and the name index is purged of exactly that set."""
    props = ('C11',)
    file = 'ombott/router/radirouter.py'
    qualname = 'RadiRouter.remove'
    assumptions = ('to_pattern, _match, RadiDict.remove, _remove_named_routers are callees (the first and the last under contract)',
                   'iterating a dict yields its keys; the selecting comprehension is checked on a generic key')
    expected_labels = ('unregistered_rule.nothing_is_changed', 'tree.asked_once_to_remove_the_pattern',
                       'exact.route_index_and_name_index_lose_that_pattern', 'prefix.selects_exactly_the_patterns_with_the_prefix',
                       'prefix.route_index_and_name_index_lose_the_selected_patterns')
    defaults = {'route': 'None', 'route_pattern': 'None', 'name': 'None'}

    def pre(self, X):
        self.mode = ['rule', 'route', 'name', 'pattern'][X.choose(4, 'given: rule text | Route object | name | route_pattern')]
        self.ev = []
        self.pattern = X.fresh_str('pattern')
        X.assume(z3.Length(self.pattern.t) >= 0)
        self.routes, self.names, self.tree = VObj('RoutesIdx', {}), VObj('NamesIdx', {}), VObj('Tree', {})
        self.route_obj = VObj('Route', {'pattern': self.pattern})
        route = rp = name = NONE
        if self.mode == 'rule':
            route = self.rule = X.fresh_str('rule')
            self.registered = X.choose(2, '_match(rule): None | a route') == 1
        elif self.mode == 'route':
            route = self.route_obj
        elif self.mode == 'name':
            name = self.name = X.fresh_str('name')
        else:
            rp = self.pattern
        c = self

        def to_pattern(X, args, kwargs):
            c.ev.append(('to_pattern', args[-1]))
            return c.pattern

        def _match(X, args, kwargs):
            c.ev.append(('_match', list(args[1:]), dict(kwargs)))
            return VObj('Route', {'pattern': c.pattern}) if c.registered else NONE

        def names_pop(X, args, kwargs):
            c.ev.append(('names.pop', list(args[1:])))
            return c.route_obj

        self.stubs = {'Router.to_pattern': to_pattern, 'Router._match': _match, 'NamesIdx.pop': names_pop,
                      'Tree.remove': lambda X, a, k: (c.ev.append(('tree.remove', list(a[1:]), dict(k))), NONE)[1],
                      'RoutesIdx.pop': lambda X, a, k: (c.ev.append(('routes.pop', list(a[1:]))), NONE)[1],
                      'Router._remove_named_routers': lambda X, a, k: (c.ev.append(('names.purge', list(a[1:]))), NONE)[1]}
        self.me = VObj('Router', {'radidict': self.tree, 'routes': self.routes, 'named_routes': self.names})
        return {'self': self.me, 'route': route, 'route_pattern': rp, 'name': name}

    def isinstance_hook(self, X, v, classes):
        if isinstance(v, VObj) and v.cls == 'Route':
            return z3.BoolVal(False if classes == [str] else True)
        return None

    def delitem_hook(self, X, obj, key):
        if obj is self.routes:
            self.ev.append(('routes.del', key))
            return True
        return None

    def construct_hook(self, X, pyclass, args, kwargs):
        if pyclass is set and len(args) == 1 and isinstance(args[0], _Matching) and not kwargs:
            return _Matching(args[0].prefix, as_set=True)
        return None

    def genexp_hook(self, X, node):
        import ast
        if not isinstance(node, ast.ListComp) or len(node.generators) != 1 or node.generators[0].is_async:
            raise Unsupported('comprehension shape')
        g = node.generators[0]
        saved = dict(X.env)
        try:
            src = X.eval(g.iter)
            if src is self.routes:
                # the selection, on a generic key of the route index
                p = X.fresh_str('some_pattern')
                X.assign(g.target, p)
                n0 = len(X.taken)
                conds = [X.truth(X.eval(c)) for c in g.ifs]
                elt = X.eval(node.elt)
                if len(X.taken) != n0:
                    raise Unsupported('path split inside a comprehension condition')
                pat = self.pattern.t
                prefix = z3.SubString(pat, 0, z3.Length(pat) - 1)
                X.prove('prefix.selects_exactly_the_patterns_with_the_prefix',
                        z3.And(z3.BoolVal(elt is p), z3.And(*conds) == z3.PrefixOf(prefix, p.t)))
                return _Matching(prefix)
            if isinstance(src, _Matching) and not src.as_set and not g.ifs:
                # the deletion: one routes.pop(<that pattern>) per selected pattern
                p = X.fresh_str('selected_pattern')
                X.assign(g.target, p)
                before = len(self.ev)
                X.eval(node.elt)
                new = self.ev[before:]
                ok = len(new) == 1 and new[0][0] == 'routes.pop' and new[0][1] and new[0][1][0] is p
                del self.ev[before:]
                self.ev.append(('routes.pop_each_selected', ok))
                return VList([])
            raise Unsupported('comprehension over something the contract does not model')
        finally:
            X.env.clear()
            X.env.update(saved)

    def post(self, X, ret):
        ev = self.ev
        writes = [e for e in ev if e[0] in ('tree.remove', 'routes.pop', 'routes.del', 'names.purge', 'routes.pop_each_selected')]
        if self.mode == 'rule':
            star = z3.SuffixOf(z3.StringVal('*'), self.pattern.t)
            asked = [e for e in ev if e[0] == 'to_pattern']
            if not (len(asked) == 1 and asked[0][1] is self.rule):
                X.prove('tree.asked_once_to_remove_the_pattern', z3.BoolVal(False))
                return
            if not writes:
                # returned without touching anything: only right for an unregistered rule without a star
                X.prove('unregistered_rule.nothing_is_changed', z3.And(z3.Not(star), z3.BoolVal(not self.registered)))
                return
            # something is removed: then the rule was registered, or it is a prefix removal
            m = [e for e in ev if e[0] == '_match']
            X.prove('unregistered_rule.nothing_is_changed',
                    z3.Or(star, z3.BoolVal(self.registered and len(m) == 1 and len(m[0][1]) == 1 and m[0][1][0] is self.rule and not m[0][2])))
        if self.mode == 'name':
            np_ = [e for e in ev if e[0] == 'names.pop']
            if not (len(np_) == 1 and len(np_[0][1]) == 1 and np_[0][1][0] is self.name):
                X.prove('tree.asked_once_to_remove_the_pattern', z3.BoolVal(False))
                return
        tr = [e for e in ev if e[0] == 'tree.remove']
        X.prove('tree.asked_once_to_remove_the_pattern',
                z3.BoolVal(len(tr) == 1 and len(tr[0][1]) == 1 and tr[0][1][0] is self.pattern and not tr[0][2]
                           and writes and writes[0] is tr[0]))
        purge = [e for e in ev if e[0] == 'names.purge']
        one = len(purge) == 1 and len(purge[0][1]) == 1
        arg = purge[0][1][0] if one else None
        sel = [e for e in ev if e[0] == 'routes.pop_each_selected']
        if sel or isinstance(arg, _Matching):
            ok = (len(sel) == 1 and sel[0][1] and isinstance(arg, _Matching) and arg.as_set and len(writes) == 3
                  and self.mode in ('rule', 'pattern'))
            X.prove('prefix.route_index_and_name_index_lose_the_selected_patterns',
                    z3.And(z3.BoolVal(bool(ok)), z3.SuffixOf(z3.StringVal('*'), self.pattern.t)))
        else:
            drop = [e for e in ev if e[0] in ('routes.pop', 'routes.del')]
            ok = (len(drop) == 1 and (drop[0][1] is self.pattern if drop[0][0] == 'routes.del' else drop[0][1][0] is self.pattern)
                  and isinstance(arg, VTuple) and len(arg.items) == 1 and arg.items[0] is self.pattern and len(writes) == 3)
            exact = z3.BoolVal(True) if self.mode in ('route', 'name') else z3.Not(z3.SuffixOf(z3.StringVal('*'), self.pattern.t))
            X.prove('exact.route_index_and_name_index_lose_that_pattern', z3.And(z3.BoolVal(bool(ok)), exact))

    def post_raise(self, X, exc):
        X.prove('raises.nothing', z3.BoolVal(False))


class AppRemoveHook(Contract):
    """Ombott.remove_hook(name, func): the function is taken out of the list of THAT hook name - one removal of that function -
    exactly when it is in it (True is returned); otherwise nothing is changed."""
    props = ('C03',)
    file = 'ombott/ombott.py'
    qualname = 'Ombott.remove_hook'
    expected_labels = ('present.removed_once_from_the_list_of_that_name', 'absent.nothing_changed')

    def pre(self, X):
        self.name = X.fresh_str('name')
        self.func = _opq(X, 'func', 'func')
        self.present = X.fresh_bool('func_in_list')
        self.lst = VObj('HookList', {})
        self.table = VObj('HookTable', {})
        self.keys, self.ops = [], []
        c = self
        self.stubs = {'HookList.remove': lambda X, a, k: (c.ops.append(('remove', list(a[1:]), dict(k))), NONE)[1]}
        return {'self': VObj('App', {'_hooks': self.table}), 'name': self.name, 'func': self.func}

    def getitem_hook(self, X, obj, key):
        if obj is self.table:
            self.keys.append(key)
            return self.lst
        return None

    def contains_hook(self, X, container, item):
        if container is self.lst:
            self.asked = item
            return self.present.t
        return None

    def post(self, X, ret):
        right_list = bool(self.keys) and all(k is self.name for k in self.keys) and getattr(self, 'asked', None) is self.func
        if self.ops:
            ok = right_list and len(self.ops) == 1 and self.ops[0][1] == [self.func] and not self.ops[0][2] \
                and isinstance(ret, VBool) and z3.is_true(z3.simplify(ret.t))
            X.prove('present.removed_once_from_the_list_of_that_name', z3.And(z3.BoolVal(bool(ok)), self.present.t))
        else:
            X.prove('absent.nothing_changed', z3.And(z3.BoolVal(bool(right_list)), z3.Not(self.present.t)))

    def post_raise(self, X, exc):
        X.prove('raises.nothing', z3.BoolVal(False))


class AppOn(Contract):
    """Ombott.on(name, func): with a function, add_hook(name, func) once; without, the decorator is returned and nothing is added."""
    props = ('C03',)
    file = 'ombott/ombott.py'
    qualname = 'Ombott.on'
    expected_labels = ('with_func.added_once_under_that_name', 'without_func.decorator_returned_nothing_added')
    defaults = {'func': 'None'}

    def pre(self, X):
        self.given = X.choose(2, 'func: None | given') == 1
        self.fn = VObj('Callback', {}) if self.given else NONE
        self.name = _opq(X, 'name')
        self.calls, self.deco_calls = [], []
        c = self
        self.stubs = {'App.add_hook': lambda X, a, k: (c.calls.append((list(a[1:]), dict(k))), NONE)[1],
                      'decorator': lambda X, a, k: (c.deco_calls.append(1), _opq(X, 'r'))[1]}
        return {'self': VObj('App', {}), 'name': self.name, 'func': self.fn}

    def post(self, X, ret):
        if self.given:
            ok = len(self.calls) == 1 and self.calls[0][0] == [self.name, self.fn] and not self.calls[0][1] and not self.deco_calls
            X.prove('with_func.added_once_under_that_name', z3.BoolVal(bool(ok)))
        else:
            ok = not self.calls and not self.deco_calls and isinstance(ret, VFunc) and ret.name == 'decorator'
            X.prove('without_func.decorator_returned_nothing_added', z3.BoolVal(bool(ok)))

    def post_raise(self, X, exc):
        X.prove('raises.nothing', z3.BoolVal(False))


class AppOnDecoratorInner(_PassThrough):
    props = ('C03',)
    qualname = 'Ombott.on.decorator'
    params = ('name', 'func')
    callee = 'App.add_hook'
    want_args = ('name', 'func')
    returns = 'func'


class _KeySet(Val):
    """a one-element set {rule}"""
    def __init__(self, item):
        self.item = item

    def snapshot(self, X):
        return VList([self.item])


class RouterGetItem(Contract):
    """RadiRouter.__getitem__: lookup by name goes to the name index with that name; lookup by rule ({rule} or {'rule': r}) and by
    pattern ({'pattern': p}) go to _match - the same lookup registration and removal use - as rule=r resp. route_pattern=p; the
    result of that lookup is returned as it is."""
    props = ('C11',)
    file = 'ombott/router/radirouter.py'
    qualname = 'RadiRouter.__getitem__'
    assumptions = ('RouteKey.check_args refuses keys with more than one item (callee)',)
    expected_labels = ('name.looked_up_in_the_name_index', 'rule_or_pattern.looked_up_with__match_under_the_right_keyword')

    def pre(self, X):
        self.mode = ['name', 'set', 'dict_rule', 'dict_pattern'][X.choose(4, 'key: name | {rule} | {"rule": r} | {"pattern": p}')]
        self.text = X.fresh_str('text')
        self.result = _opq(X, 'result', 'route')
        self.calls, self.named = [], []
        c = self
        if self.mode == 'name':
            key = self.text
        elif self.mode == 'set':
            key = _KeySet(self.text)
        else:
            key = VObj('KeyDict', {('rule' if self.mode == 'dict_rule' else 'pattern'): self.text})

        def pop(X, args, kwargs):
            d, k = args[0], z3.simplify(args[1].t).as_string()
            if k not in d.fields:
                if len(args) > 2:
                    return args[2]
                X.raise_(KeyError, 'missing')
            return d.fields.pop(k)
        self.stubs = {'Router._match': lambda X, a, k: (c.calls.append((list(a[1:]), dict(k))), c.result)[1],
                      'NamesIdx.get': lambda X, a, k: (c.named.append((list(a[1:]), dict(k))), c.result)[1],
                      'RoutesIdx.get': lambda X, a, k: _opq(X, 'entry_of_the_route_index', 'route'),
                      'RouteKey.check_args': lambda X, a, k: NONE,
                      'KeyDict.copy': lambda X, a, k: VObj('StrDict', dict(a[0].fields)),
                      'StrDict.pop': pop}
        return {'self': VObj('Router', {'named_routes': VObj('NamesIdx', {}), 'routes': VObj('RoutesIdx', {})}), 'key': key}

    def isinstance_hook(self, X, v, classes):
        if isinstance(v, _KeySet):
            return z3.BoolVal(set in classes)
        if isinstance(v, VObj) and v.cls == 'KeyDict':
            return z3.BoolVal(dict in classes)
        return None

    def construct_hook(self, X, pyclass, args, kwargs):
        if pyclass is dict and not args:
            return VObj('StrDict', dict(kwargs))
        if pyclass is list and len(args) == 1 and isinstance(args[0], _KeySet):
            return VList([args[0].item])
        return None

    def contains_hook(self, X, container, item):
        if isinstance(container, VObj) and container.cls == 'StrDict' and isinstance(item, VStr):
            return z3.BoolVal(z3.simplify(item.t).as_string() in container.fields)
        return None

    def setitem_hook(self, X, obj, key, val):
        if isinstance(obj, VObj) and obj.cls == 'StrDict':
            obj.fields[z3.simplify(key.t).as_string()] = val
            return True
        return None

    def post(self, X, ret):
        if self.mode == 'name':
            X.prove('name.looked_up_in_the_name_index',
                    z3.BoolVal(ret is self.result and not self.calls and len(self.named) == 1 and self.named[0][0][:1] == [self.text]
                               and len(self.named[0][0]) <= 2 and not self.named[0][1]))
        else:
            kw = 'route_pattern' if self.mode == 'dict_pattern' else 'rule'
            ok = (ret is self.result and not self.named and len(self.calls) == 1 and not self.calls[0][0]
                  and set(self.calls[0][1]) == {kw} and self.calls[0][1][kw] is self.text)
            X.prove('rule_or_pattern.looked_up_with__match_under_the_right_keyword', z3.BoolVal(bool(ok)))

    def post_raise(self, X, exc):
        X.prove('raises.nothing', z3.BoolVal(False))


CONTRACTS = [RouterGetItem(), AppRemoveHook(), AppOn(), AppOnDecoratorInner(), RemoveNamedRouters(), RouterRemove(), HookInstaller(), AddRoute(), RemoveRoute(), RemoveRouteHook(), RouteDecoratorInner(), OnRouteDecoratorInner(), RouteOuter(),
             OnRouteOuter(), GetHook()]
