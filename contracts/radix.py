"""C11 / C01 — the local surgery of the radix tree keeps the abstract content of the tree.

The tree is a nest of python lists [KEY, IDX, WEIGHT, PARAMS, FILTER, IS_EXCLUSIVE, HOOKS, DATA, child...].  Its abstract
content is the set of (spelled path -> DATA, HOOKS, PARAMS, FILTER/IS_EXCLUSIVE of the wildcard nodes on the path);
the spelled path of a node is the concatenation of the KEYs from the root.  The lookup/insert/remove algorithms
(RadiDict.get/_match/_set/remove) are NOT under contract (bounded checks C01/C11); what is under contract are the four
helpers that rewrite nodes in place, with obligations that say the rewrite cannot change the abstract content:

_make_node     the slots are where the index constants say (a constructor contract the other three rely on)
_split         pnode (same object) becomes a bare prefix node (no data, hooks, params, filter) whose only child carries
               every slot and every child of the old node; new KEY + child KEY == old KEY; IDX == first char of child KEY
_try_merge     merges pnode with its only child only when pnode carries neither DATA nor HOOKS, is not the root, and
               neither of the two is a wildcard node; then pnode (same object) takes every slot and child of the child and
               KEY == old KEY + child KEY; otherwise nothing changes
_mount         adds the child and keeps the index invariant (IDX[i] == first char of the i-th child's KEY, a wildcard child
               is the last one and there is at most one); refuses a second wildcard, anything beside an exclusive wildcard,
               and an exclusive wildcard beside anything

Children are python lists too; a node's further children that a helper never looks at are represented by ONE opaque
marker element (REST) that stands for any number of children and is carried along by copies and slices.
"""
import z3
from pyvc.engine import (Contract, Val, VInt, VBool, VStr, VObj, VList, VTuple, VFunc, VOpaque, VNone, NONE, VExc,
                         Unsupported, PyObj, StrSort, IntSort)

KEY, IDX, WEIGHT, PARAMS, FILTER, IS_EXCLUSIVE, HOOKS, DATA, OFFSET = range(9)
TOKEN = '\r'


class Rest(Val):
    """any number of further children"""
    def __init__(self, tag):
        self.tag = tag


class Slot(VOpaque):
    pass


def opaque(X, hint):
    return VOpaque(X.fresh(PyObj, hint), hint)


def make_node_stub(X, args, kwargs):
    """callee contract of RadiDict._make_node (proved below)"""
    if len(args) != 1 or not isinstance(args[0], VStr):
        if 'key' in kwargs and not args:
            key = kwargs['key']
        else:
            raise Unsupported('_make_node call shape')
    else:
        key = args[0]
    g = lambda n, d: kwargs.get(n, d)   # noqa: E731
    params = g('params', NONE)
    children = g('children', NONE)
    kids = []
    if isinstance(children, VList):
        kids = list(children.items)
    elif not isinstance(children, VNone):
        raise Unsupported('_make_node children')
    return VList([key, g('idx', NONE), g('weight', VInt(0)), params if not isinstance(params, VNone) else VList([]),
                  g('filter', NONE), g('is_exclusive', VBool(False)), g('hooks', NONE), g('data', NONE)] + kids)


class MakeNode(Contract):
    props = ('C11', 'C01')
    file = 'ombott/router/radidict.py'
    qualname = 'RadiDict._make_node'
    expected_labels = ('post.slots_where_the_index_constants_say', 'post.children_follow_in_order')

    def pre(self, X):
        self.a = dict(key=X.fresh_str('key'), idx=opaque(X, 'idx'), data=opaque(X, 'data'), weight=X.fresh_int('weight'),
                      params=opaque(X, 'params'), filter=opaque(X, 'filter'), is_exclusive=X.fresh_bool('excl'),
                      hooks=opaque(X, 'hooks'))
        self.kids_mode = X.choose(3, 'children: None | [] | [c1, c2, REST]')
        self.kids = [opaque(X, 'c1'), opaque(X, 'c2'), Rest('r')]
        children = [NONE, VList([]), VList(self.kids)][self.kids_mode]
        self.params_mode = X.choose(2, 'params given | None')
        if self.params_mode == 1:
            self.a['params'] = NONE
        env = {'self': VObj('RadiDict', {}), 'children': children}
        env.update(self.a)
        return env

    def truth_of_opaque(self, X, v):
        return None

    def post(self, X, ret):
        g = X.globals
        ok = isinstance(ret, VList) and len(ret.items) >= 8
        if ok:
            want = {g['KEY']: self.a['key'], g['IDX']: self.a['idx'], g['WEIGHT']: self.a['weight'], g['FILTER']: self.a['filter'],
                    g['IS_EXCLUSIVE']: self.a['is_exclusive'], g['HOOKS']: self.a['hooks'], g['DATA']: self.a['data']}
            ok = sorted(list(want) + [g['PARAMS']]) == list(range(8)) and g['OFFSET'] == 8
            ok = ok and all(ret.items[i] is v for i, v in want.items())
            p = ret.items[g['PARAMS']]
            if self.params_mode == 1:
                ok = ok and isinstance(p, VList) and not p.items
            else:
                ok = ok and (p is self.a['params'] or (isinstance(p, VList) and not p.items))
        X.prove('post.slots_where_the_index_constants_say', z3.BoolVal(bool(ok)))
        kids = ret.items[8:] if isinstance(ret, VList) else None
        X.prove('post.children_follow_in_order',
                z3.BoolVal(kids is not None and (kids == self.kids if self.kids_mode == 2 else kids == [])))


def sym_node(X, hint, key=None, children=None, idx=None):
    """a node with symbolic slots; children: list of Vals (default: one REST marker)"""
    return VList([key if key is not None else X.fresh_str(hint + '_key'),
                  idx if idx is not None else X.fresh_str(hint + '_idx'),
                  X.fresh_int(hint + '_weight'), opaque(X, hint + '_params'), opaque(X, hint + '_filter'),
                  X.fresh_bool(hint + '_excl'), opaque(X, hint + '_hooks'), opaque(X, hint + '_data')]
                 + (children if children is not None else [Rest(hint)]))


class _Tree(Contract):
    props = ('C11', 'C01')
    file = 'ombott/router/radidict.py'

    def base_self(self, X, root=None):
        return VObj('RadiDict', {'param_token': VStr(TOKEN), 'path_sep': VStr('/'), 'root': root if root is not None else sym_node(X, 'root')})

    def truthy(self, X, v):
        """truthiness of an opaque slot (DATA / HOOKS): uninterpreted"""
        return X.driver.uf('truthy', PyObj, z3.BoolSort())(v.t)


class Split(_Tree):
    qualname = 'RadiDict._split'
    assumptions = ('callee contract of _make_node as proved',
                   'os.path.commonprefix([a, b]) is the longest common prefix of a and b',
                   'by_key mode is entered with key[0] == by_key[0] (the child was selected by its first character in _match)')
    expected_labels = ('split.keys_concatenate_to_the_old_key', 'split.child_keeps_every_slot_and_all_children',
                       'split.parent_is_a_bare_prefix_node', 'split.parent_index_is_first_char_of_child_key',
                       'split.same_object_rewritten_in_place')

    def pre(self, X):
        self.mode = X.choose(2, 'split by index | by key')
        self.key = X.fresh_str('key')
        self.pnode = sym_node(X, 'p', key=self.key)
        self.old = list(self.pnode.items)
        self.stubs = {'self._make_node': make_node_stub, 'common_pref': self.common_pref}
        env = {'self': self.base_self(X), 'pnode': self.pnode}
        if self.mode == 0:
            self.si = X.fresh(IntSort, 'split_idx')
            X.assume(z3.And(self.si > 0, self.si < z3.Length(self.key.t)))
            env.update(split_idx=VInt(self.si), by_key=NONE)
        else:
            self.by = X.fresh_str('by_key')
            X.assume(z3.And(z3.Length(self.by.t) > 0, z3.Length(self.key.t) > 0,
                            z3.SubString(self.by.t, 0, 1) == z3.SubString(self.key.t, 0, 1)))
            env.update(split_idx=NONE, by_key=self.by)
        return env

    def common_pref(self, X, args, kwargs):
        (lst,) = args
        a, b = lst.items
        p = X.fresh(StrSort, 'common')
        n = z3.Length(p)
        X.assume(z3.And(z3.PrefixOf(p, a.t), z3.PrefixOf(p, b.t),
                        z3.Or(n == z3.Length(a.t), n == z3.Length(b.t),
                              z3.SubString(a.t, n, 1) != z3.SubString(b.t, n, 1))))
        return VStr(p)

    def post(self, X, ret):
        p = self.pnode
        if self.mode == 1:
            ok_ret = isinstance(ret, VTuple) and len(ret.items) == 2 and ret.items[0] is p
        else:
            ok_ret = ret is p
        X.prove('split.same_object_rewritten_in_place', z3.BoolVal(bool(ok_ret)))
        shape = len(p.items) == 9 and isinstance(p.items[8], VList) and len(p.items[8].items) == len(self.old)
        if not shape:
            X.prove('split.child_keeps_every_slot_and_all_children', z3.BoolVal(False))
            return
        child = p.items[8]
        nk, ck = p.items[KEY], child.items[KEY]
        X.prove('split.keys_concatenate_to_the_old_key',
                z3.And(z3.Concat(nk.t, ck.t) == self.key.t, z3.Length(nk.t) > 0, z3.Length(ck.t) > 0)
                if isinstance(nk, VStr) and isinstance(ck, VStr) else z3.BoolVal(False))
        X.prove('split.child_keeps_every_slot_and_all_children',
                z3.BoolVal(all(child.items[i] is self.old[i] for i in range(1, len(self.old)))))
        bare = (isinstance(p.items[PARAMS], VList) and not p.items[PARAMS].items and isinstance(p.items[FILTER], VNone)
                and isinstance(p.items[HOOKS], VNone) and isinstance(p.items[DATA], VNone)
                and isinstance(p.items[IS_EXCLUSIVE], VBool))
        X.prove('split.parent_is_a_bare_prefix_node',
                z3.And(z3.BoolVal(bool(bare)), z3.Not(p.items[IS_EXCLUSIVE].t)) if bare else z3.BoolVal(False))
        ix = p.items[IDX]
        X.prove('split.parent_index_is_first_char_of_child_key',
                ix.t == z3.SubString(ck.t, 0, 1) if isinstance(ix, VStr) and isinstance(ck, VStr) else z3.BoolVal(False))
        if self.mode == 1 and ok_ret:
            X.prove('split.returned_index_is_the_length_of_the_new_key', ret.items[1].t == z3.Length(nk.t)
                    if isinstance(ret.items[1], VInt) else z3.BoolVal(False))

    def post_raise(self, X, exc):
        # by_key mode refuses when the whole key is a prefix of by_key (nothing to split off)
        if self.mode == 1:
            X.prove('raise.only_when_nothing_to_split_off', z3.PrefixOf(self.key.t, self.by.t))
        else:
            X.prove('raise.never_in_index_mode', z3.BoolVal(False))


class TryMerge(_Tree):
    qualname = 'RadiDict._try_merge'
    assumptions = ('representation invariant on entry: IDX holds one character per child, in order (so len(IDX) == 1 means exactly one child)',)
    expected_labels = ('merge.only_without_data_or_hooks', 'merge.never_the_root', 'merge.never_across_a_wildcard',
                       'merge.key_is_concatenation', 'merge.takes_every_slot_and_child_of_the_child', 'else.unchanged',
                       'merge.happens_when_allowed')

    def pre(self, X):
        self.is_root = X.choose(2, 'pnode is the root?') == 1
        self.shape = X.choose(3, 'children: none (IDX None) | exactly one | other')
        self.ckey = X.fresh_str('child_key')
        self.child = sym_node(X, 'c', key=self.ckey)
        X.assume(z3.Length(self.ckey.t) > 0)
        self.pkey = X.fresh_str('pkey')
        if self.shape == 0:
            idx, kids = NONE, []
        elif self.shape == 1:
            idx, kids = VStr(z3.SubString(self.ckey.t, 0, 1)), [self.child]
        else:
            idx = X.fresh_str('idx')
            X.assume(z3.Length(idx.t) != 1)
            kids = [Rest('kids')]
        self.pnode = sym_node(X, 'p', key=self.pkey, children=kids, idx=idx)
        self.old = list(self.pnode.items)
        self.child_old = list(self.child.items)
        return {'self': self.base_self(X, root=self.pnode if self.is_root else None), 'pnode': self.pnode}

    def truth_hook(self, X, v):
        return None

    def merged(self):
        return self.pnode.items[1:] == self.child_old[1:] and self.pnode.items[0] is not self.old[0]

    def post(self, X, ret):
        p = self.pnode
        unchanged = len(p.items) == len(self.old) and all(a is b for a, b in zip(p.items, self.old))
        if unchanged:
            X.prove('else.unchanged', z3.BoolVal(True))
            # not merging must be justified: one of the refusal conditions holds
            if self.shape == 1 and not self.is_root:
                tr = self.truthy
                X.prove('merge.happens_when_allowed',
                        z3.Or(tr(X, self.old[DATA]), tr(X, self.old[HOOKS]), self.pkey.t == z3.StringVal(TOKEN),
                              z3.SubString(self.ckey.t, 0, 1) == z3.StringVal(TOKEN)))
            return
        took = len(p.items) == len(self.child_old) and all(a is b for a, b in zip(p.items[1:], self.child_old[1:]))
        X.prove('merge.takes_every_slot_and_child_of_the_child', z3.BoolVal(bool(took and self.shape == 1)))
        X.prove('merge.never_the_root', z3.BoolVal(not self.is_root))
        X.prove('merge.only_without_data_or_hooks',
                z3.And(z3.Not(self.truthy(X, self.old[DATA])), z3.Not(self.truthy(X, self.old[HOOKS]))))
        X.prove('merge.never_across_a_wildcard',
                z3.And(self.pkey.t != z3.StringVal(TOKEN), z3.SubString(self.ckey.t, 0, 1) != z3.StringVal(TOKEN)))
        nk = p.items[KEY]
        X.prove('merge.key_is_concatenation',
                nk.t == z3.Concat(self.pkey.t, self.ckey.t) if isinstance(nk, VStr) else z3.BoolVal(False))

    def post_raise(self, X, exc):
        X.prove('raises.nothing', z3.BoolVal(False))


class Mount(_Tree):
    qualname = 'RadiDict._mount'
    assumptions = (
        'representation invariant on entry: IDX holds the first character of every child KEY in order; a wildcard child (KEY == the '
        'wildcard marker) is the last child and there is at most one; an exclusive wildcard child is the only child; literal KEYs are '
        'non-empty and do not start with the marker (established by _make_route / _split: not under contract, bounded)',)
    expected_labels = ('mount.wildcard_child_appended_last', 'mount.literal_child_inserted_first', 'mount.index_matches_children',
                       'mount.at_most_one_wildcard_and_it_is_last', 'mount.exclusive_wildcard_stays_alone', 'mount.returns_the_child',
                       'raise.only_for_the_three_refusals')

    def pre(self, X):
        T = z3.StringVal(TOKEN)
        self.child_is_token = X.choose(2, 'child: literal | wildcard') == 1
        self.ckey = VStr(TOKEN) if self.child_is_token else X.fresh_str('ckey')
        if not self.child_is_token:
            X.assume(z3.And(z3.Length(self.ckey.t) > 0, z3.SubString(self.ckey.t, 0, 1) != T))
        self.child = sym_node(X, 'child', key=self.ckey)
        self.child_excl = self.child.items[IS_EXCLUSIVE].t
        if not self.child_is_token:
            X.assume(z3.Not(self.child_excl))     # only wildcard nodes are exclusive
        self.shape = X.choose(4, 'pnode children: none (IDX None) | none (IDX empty) | one | several')
        first = lambda k: z3.SubString(k, 0, 1)   # noqa: E731
        self.had_token = z3.BoolVal(False)
        self.had_excl = z3.BoolVal(False)
        if self.shape in (0, 1):
            idx, kids = (NONE, VStr(''))[self.shape], []
            self.old_idx = z3.StringVal('')
        elif self.shape == 1 + 1:
            k0 = X.fresh_str('k0')
            c0 = sym_node(X, 'c0', key=k0)
            X.assume(z3.Length(k0.t) > 0)
            X.assume(z3.Implies(first(k0.t) == T, k0.t == T))
            X.assume(z3.Implies(c0.items[IS_EXCLUSIVE].t, k0.t == T))
            idx, kids = VStr(first(k0.t)), [c0]
            self.old_idx = first(k0.t)
            self.had_token = k0.t == T
            self.had_excl = c0.items[IS_EXCLUSIVE].t
        else:
            k0, kl = X.fresh_str('k0'), X.fresh_str('klast')
            c0, cl = sym_node(X, 'c0', key=k0), sym_node(X, 'clast', key=kl)
            mid = X.fresh(StrSort, 'idx_mid')
            X.assume(z3.And(z3.Length(k0.t) > 0, first(k0.t) != T, z3.Not(c0.items[IS_EXCLUSIVE].t)))
            X.assume(z3.And(z3.Length(kl.t) > 0, z3.Implies(first(kl.t) == T, kl.t == T), z3.Not(cl.items[IS_EXCLUSIVE].t)))
            X.assume(z3.Not(z3.Contains(mid, T)))
            idx = VStr(z3.Concat(first(k0.t), mid, first(kl.t)))
            kids = [c0, Rest('middle'), cl]
            self.old_idx = idx.t
            self.had_token = kl.t == T
        self.pnode = sym_node(X, 'p', key=X.fresh_str('pkey'), children=kids, idx=idx)
        self.old = list(self.pnode.items)
        self.KeyErr = X.globals['RadiDictKeyError']
        return {'self': self.base_self(X), 'pnode': self.pnode, 'child': self.child}

    def post(self, X, ret):
        T = z3.StringVal(TOKEN)
        p = self.pnode
        X.prove('mount.returns_the_child', z3.BoolVal(ret is self.child))
        kids_old = self.old[8:]
        kids_new = p.items[8:]
        ix = p.items[IDX]
        if not isinstance(ix, VStr):
            X.prove('mount.index_matches_children', z3.BoolVal(False))
            return
        if self.child_is_token:
            X.prove('mount.wildcard_child_appended_last',
                    z3.BoolVal(len(kids_new) == len(kids_old) + 1 and kids_new[-1] is self.child
                               and all(a is b for a, b in zip(kids_new, kids_old))))
            X.prove('mount.index_matches_children', ix.t == z3.Concat(self.old_idx, T))
        else:
            X.prove('mount.literal_child_inserted_first',
                    z3.BoolVal(len(kids_new) == len(kids_old) + 1 and kids_new[0] is self.child
                               and all(a is b for a, b in zip(kids_new[1:], kids_old))))
            X.prove('mount.index_matches_children', ix.t == z3.Concat(z3.SubString(self.ckey.t, 0, 1), self.old_idx))
        X.prove('mount.at_most_one_wildcard_and_it_is_last',
                z3.Not(z3.And(self.had_token, z3.BoolVal(self.child_is_token))))
        X.prove('mount.exclusive_wildcard_stays_alone',
                z3.And(z3.Not(self.had_excl), z3.Implies(self.child_excl, z3.BoolVal(not kids_old))))
        slots_kept = all(p.items[i] is self.old[i] for i in range(8) if i not in (IDX, WEIGHT))
        X.prove('mount.other_slots_untouched', z3.BoolVal(bool(slots_kept)))

    def post_raise(self, X, exc):
        ok = exc.pyclass is self.KeyErr
        kids_old = self.old[8:]
        refusal = z3.Or(self.had_excl, z3.And(self.had_token, z3.BoolVal(self.child_is_token)),
                        z3.And(self.child_excl, z3.BoolVal(bool(kids_old))))
        X.prove('raise.only_for_the_three_refusals', z3.And(z3.BoolVal(bool(ok)), refusal))
        unchanged = len(self.pnode.items) == len(self.old) and all(a is b for a, b in zip(self.pnode.items, self.old))
        X.prove('raise.tree_unchanged', z3.BoolVal(bool(unchanged)))


CONTRACTS = [MakeNode(), Split(), TryMerge(), Mount()]
