"""C03 / C09 — small functions the single-response property rests on.

HTTPResponse.apply(response)   copies status, headers (by VALUE into the response's own dictionary), body; cookies replaced iff the
                               source has any.  The source object is not modified and is not aliased into the response: error
                               objects are long-lived (config.errors_map is shared by all requests), so anything the framework
                               later writes into the response's headers (Content-Length) must not land on them.
Ombott.emit(name, ...)         calls every hook of a SNAPSHOT of the list, in list order, exactly once - a hook may add or
                               remove hooks while running.
Ombott.add_hook(name, func)    before_request appended, after_request prepended (so after hooks run in reverse registration order).
"""
import ast
import z3
from pyvc.engine import (Contract, Val, VInt, VBool, VStr, VObj, VFunc, VOpaque, VList, VTuple, VNone, NONE, Unsupported, PyObj, StrSort)


class Apply(Contract):
    props = ('C03', 'C09', 'C10', 'C14')
    file = 'ombott/response.py'
    qualname = 'HTTPResponse.apply'
    assumptions = ('dict.clear() / dict.update(d) as usual: afterwards the receiver holds exactly the items of d',)
    expected_labels = ('post.headers_copied_by_value_into_own_dict', 'post.source_not_modified_or_aliased',
                       'post.status_and_body_copied', 'post.cookies_replaced_iff_source_has_any')

    def pre(self, X):
        self.src = VObj('Dict', {'who': VStr('src')})
        self.dst = VObj('Dict', {'who': VStr('dst')})
        self.has_cookies = X.choose(2, 'source has cookies?') == 1
        self.src_cookies = VObj('Cookies', {'truthy': VBool(True)}) if self.has_cookies else NONE
        self.old_cookies = VObj('OldCookies', {})
        self.me = VObj('Err', {'_status_code': X.fresh_int('code'), '_status_line': X.fresh_str('line'), '_headers': self.src,
                               '_cookies': self.src_cookies, 'body': X.fresh_str('body')})
        self.hd = VObj('HeaderDict', {'dict': self.dst})
        self.resp = VObj('Resp', {'_status_code': VInt(0), '_status_line': VStr(''), '_headers': self.dst, 'headers': self.hd,
                                  '_cookies': self.old_cookies, 'body': VStr('')})
        self.ops = []
        c = self

        def clear(X, args, kwargs):
            c.ops.append(('clear', args[0]))
            return NONE

        def update(X, args, kwargs):
            c.ops.append(('update', args[0], args[1]))
            return NONE
        self.stubs = {'Dict.clear': clear, 'Dict.update': update}
        return {'self': self.me, 'response': self.resp}

    def post(self, X, ret):
        r = self.resp.fields
        own = r['_headers'] is self.dst and self.hd.fields['dict'] is self.dst
        copied = self.ops == [('clear', self.dst), ('update', self.dst, self.src)]
        X.prove('post.headers_copied_by_value_into_own_dict', z3.BoolVal(own and copied))
        X.prove('post.source_not_modified_or_aliased',
                z3.BoolVal(all(op[1] is not self.src for op in self.ops) and self.me.fields['_headers'] is self.src
                           and r['_headers'] is not self.src and self.hd.fields['dict'] is not self.src))
        m = self.me.fields
        X.prove('post.status_and_body_copied',
                z3.BoolVal(r['_status_code'] is m['_status_code'] and r['_status_line'] is m['_status_line'] and r['body'] is m['body']))
        X.prove('post.cookies_replaced_iff_source_has_any',
                z3.BoolVal(r['_cookies'] is (self.src_cookies if self.has_cookies else self.old_cookies)))

    def post_raise(self, X, exc):
        X.prove('raises.nothing', z3.BoolVal(False))


class LiveHookList(Val):
    """the registered hooks of one name: a list that hooks may change while they run"""

    def pyslice(self, X, lo, hi):
        if lo is None and hi is None:
            return Snapshot()
        raise Unsupported('partial slice of the hook list')

    def next(self, X):      # iterated directly (a `for` loop over the live list)
        X.prove('emit.iterates_snapshot_in_order_once_each', z3.BoolVal(False))
        raise Unsupported('iteration over the live hook list')


class Snapshot(Val):
    def next(self, X):      # a `for` loop over the copy: each item once, in order
        X.prove('emit.iterates_snapshot_in_order_once_each', z3.BoolVal(True))
        if X.choose(2, 'more hooks?') == 0:
            return None
        return VFunc(lambda X2, a, k: VOpaque(X2.fresh(PyObj, 'hook_result'), 'r'), 'hook')


class Emit(Contract):
    props = ('C03',)
    file = 'ombott/ombott.py'
    qualname = 'Ombott.emit'
    assumptions = ('a comprehension / loop over a copy of a list visits the items the list had when the copy was taken, in order, '
                   'once each (Python semantics); iterating the live list while hooks add or remove hooks does not',)
    expected_labels = ('emit.iterates_snapshot_in_order_once_each',)
    loop_inv = {0: lambda X: []}

    def pre(self, X):
        return {'self': VObj('App', {'_hooks': VObj('HookTable', {})}), 'name': X.fresh_str('name'),
                'args': VTuple([]), 'kwargs': VObj('StrDict', {})}

    def getitem_hook(self, X, obj, key):
        if isinstance(obj, VObj) and obj.cls == 'HookTable':
            return LiveHookList()
        return None

    def builtin_hook(self, X, name, args, kwargs):
        if name in ('list', 'tuple') and len(args) == 1 and isinstance(args[0], LiveHookList):
            return Snapshot()
        return None

    def construct_hook(self, X, pyclass, args, kwargs):
        if pyclass in (list, tuple) and len(args) == 1 and isinstance(args[0], LiveHookList):
            return Snapshot()
        return None

    def genexp_hook(self, X, node):
        # [hook(*args, **kwargs) for hook in <iterable>] : the element must be a plain call of the loop variable and
        # the iterable must be a snapshot of the hook list
        try:
            (g,) = node.generators
            call = node.elt
            shape = (not g.ifs and isinstance(g.target, ast.Name) and isinstance(call, ast.Call)
                     and isinstance(call.func, ast.Name) and call.func.id == g.target.id)
        except Exception:
            shape = False
        it = X.eval(g.iter) if shape else None
        X.prove('emit.iterates_snapshot_in_order_once_each', z3.BoolVal(shape and isinstance(it, Snapshot)))
        return VOpaque(X.fresh(PyObj, 'results'), 'list')

    def post_raise(self, X, exc):
        X.prove('raises.only_from_hooks', z3.BoolVal(False))


class AddHook(Contract):
    props = ('C03',)
    file = 'ombott/ombott.py'
    qualname = 'Ombott.add_hook'
    expected_labels = ('post.before_appended_after_prepended',)

    def pre(self, X):
        self.which = ('before_request', 'after_request')[X.choose(2, 'hook name')]
        self.lists = {n: VObj('HookList', {'name': VStr(n)}) for n in ('before_request', 'after_request')}
        self.ops = []
        c = self

        def insert(X, args, kwargs):
            c.ops.append(('insert', args[0], z3.simplify(args[1].t).as_long(), args[2]))
            return NONE

        def append(X, args, kwargs):
            c.ops.append(('append', args[0], args[1]))
            return NONE
        self.stubs = {'HookList.insert': insert, 'HookList.append': append}
        self.func = VOpaque(X.fresh(PyObj, 'func'), 'func')
        me = VObj('App', {'_hooks': VObj('HookTable', {}), '_Ombott__hook_reversed': VTuple([VStr('after_request')])})
        return {'self': me, 'name': VStr(self.which), 'func': self.func}

    def getitem_hook(self, X, obj, key):
        if isinstance(obj, VObj) and obj.cls == 'HookTable':
            return self.lists[z3.simplify(key.t).as_string()]
        return None

    def getattr_hook(self, X, obj, attr):
        if isinstance(obj, VObj) and obj.cls == 'App' and attr.endswith('__hook_reversed'):
            return obj.fields['_Ombott__hook_reversed']
        return None

    def post(self, X, ret):
        lst = self.lists[self.which]
        want = [('append', lst, self.func)] if self.which == 'before_request' else [('insert', lst, 0, self.func)]
        X.prove('post.before_appended_after_prepended', z3.BoolVal(self.ops == want))


CONTRACTS = [Apply(), Emit(), AddHook()]
