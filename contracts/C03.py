"""C03 / C09 — small functions the single-response property rests on.

HTTPResponse.apply(response)   copies status, headers (by VALUE into the response's own dictionary), body; cookies replaced iff the
                               source has any.  The source object is not modified and is not aliased into the response: error
                               objects are long-lived (config.errors_map is shared by all requests), so anything the framework
                               later writes into the response's headers (Content-Length) must not land on them.
Ombott.emit(name, ...)         calls every hook of a SNAPSHOT of the list, in list order, exactly once - a hook may add or
                               remove hooks while running.
Ombott.add_hook(name, func)    before_request appended, after_request prepended (so after hooks run in reverse registration order).
"""
import ast
import z3
from pyvc.engine import (Contract, Val, VInt, VBool, VStr, VObj, VFunc, VOpaque, VList, VTuple, VNone, NONE, Unsupported, PyObj, StrSort)


class Apply(Contract):
    props = ('C03', 'C08', 'C09', 'C10', 'C12', 'C14', 'C15')
    file = 'ombott/response.py'
    qualname = 'HTTPResponse.apply'
    assumptions = ('dict.clear() / dict.update(d) as usual: afterwards the receiver holds exactly the items of d',)
    expected_labels = ('post.headers_copied_by_value_into_own_dict', 'post.source_not_modified_or_aliased',
                       'post.status_and_body_copied', 'post.cookies_replaced_iff_source_has_any')

    def pre(self, X):
        self.src = VObj('Dict', {'who': VStr('src')})
        self.dst = VObj('Dict', {'who': VStr('dst')})
        self.has_cookies = X.choose(2, 'source has cookies?') == 1
        self.src_cookies = VObj('Cookies', {'truthy': VBool(True)}) if self.has_cookies else NONE
        self.old_cookies = VObj('OldCookies', {})
        self.me = VObj('Err', {'_status_code': X.fresh_int('code'), '_status_line': X.fresh_str('line'), '_headers': self.src,
                               '_cookies': self.src_cookies, 'body': X.fresh_str('body')})
        self.hd = VObj('HeaderDict', {'dict': self.dst})
        self.resp = VObj('Resp', {'_status_code': VInt(0), '_status_line': VStr(''), '_headers': self.dst, 'headers': self.hd,
                                  '_cookies': self.old_cookies, 'body': VStr('')})
        self.ops = []
        c = self

        def clear(X, args, kwargs):
            c.ops.append(('clear', args[0]))
            return NONE

        def update(X, args, kwargs):
            c.ops.append(('update', args[0], args[1]))
            return NONE
        def hd_op(name):
            def f(X, args, kwargs):
                # going through a HeaderDict view (thread-local: not initialised on this thread for a long-lived error object)
                c.ops.append((name + '_via_header_view',) + tuple(args))
                return NONE
            return f
        self.stubs = {'Dict.clear': clear, 'Dict.update': update, 'HeaderDict.clear': hd_op('clear'), 'HeaderDict.update': hd_op('update')}
        self.me.fields['headers'] = VObj('HeaderDict', {'dict': self.src})
        return {'self': self.me, 'response': self.resp}

    def post(self, X, ret):
        r = self.resp.fields
        own = r['_headers'] is self.dst and self.hd.fields['dict'] is self.dst
        copied = self.ops == [('clear', self.dst), ('update', self.dst, self.src)]
        X.prove('post.headers_copied_by_value_into_own_dict', z3.BoolVal(own and copied))
        X.prove('post.source_not_modified_or_aliased',
                z3.BoolVal(all(op[1] is not self.src for op in self.ops) and self.me.fields['_headers'] is self.src
                           and r['_headers'] is not self.src and self.hd.fields['dict'] is not self.src))
        m = self.me.fields
        X.prove('post.status_and_body_copied',
                z3.BoolVal(r['_status_code'] is m['_status_code'] and r['_status_line'] is m['_status_line'] and r['body'] is m['body']))
        X.prove('post.cookies_replaced_iff_source_has_any',
                z3.BoolVal(r['_cookies'] is (self.src_cookies if self.has_cookies else self.old_cookies)))

    def post_raise(self, X, exc):
        X.prove('raises.nothing', z3.BoolVal(False))


class LiveHookList(Val):
    """the registered hooks of one name: a list that hooks may change while they run"""

    def pyslice(self, X, lo, hi):
        if lo is None and hi is None:
            return Snapshot()
        raise Unsupported('partial slice of the hook list')

    def next(self, X):      # iterated directly (a `for` loop over the live list)
        X.prove('emit.iterates_snapshot_in_order_once_each', z3.BoolVal(False))
        raise Unsupported('iteration over the live hook list')


class Snapshot(Val):
    def next(self, X):      # a `for` loop over the copy: each item once, in order
        X.prove('emit.iterates_snapshot_in_order_once_each', z3.BoolVal(True))
        if X.choose(2, 'more hooks?') == 0:
            return None
        return VFunc(lambda X2, a, k: VOpaque(X2.fresh(PyObj, 'hook_result'), 'r'), 'hook')


class Emit(Contract):
    props = ('C03', 'C08')      # C08: another thread may add / remove a hook while this request runs its hooks
    file = 'ombott/ombott.py'
    qualname = 'Ombott.emit'
    assumptions = ('a comprehension / loop over a copy of a list visits the items the list had when the copy was taken, in order, '
                   'once each (Python semantics); iterating the live list while hooks add or remove hooks does not',)
    expected_labels = ('emit.iterates_snapshot_in_order_once_each',)
    loop_inv = {0: lambda X: []}

    def pre(self, X):
        return {'self': VObj('App', {'_hooks': VObj('HookTable', {})}), 'name': X.fresh_str('name'),
                'args': VTuple([]), 'kwargs': VObj('StrDict', {})}

    def getitem_hook(self, X, obj, key):
        if isinstance(obj, VObj) and obj.cls == 'HookTable':
            return LiveHookList()
        return None

    def builtin_hook(self, X, name, args, kwargs):
        if name in ('list', 'tuple') and len(args) == 1 and isinstance(args[0], LiveHookList):
            return Snapshot()
        return None

    def construct_hook(self, X, pyclass, args, kwargs):
        if pyclass in (list, tuple) and len(args) == 1 and isinstance(args[0], LiveHookList):
            return Snapshot()
        return None

    def genexp_hook(self, X, node):
        # [hook(*args, **kwargs) for hook in <iterable>] : the element must be a plain call of the loop variable and
        # the iterable must be a snapshot of the hook list
        try:
            (g,) = node.generators
            call = node.elt
            shape = (not g.ifs and isinstance(g.target, ast.Name) and isinstance(call, ast.Call)
                     and isinstance(call.func, ast.Name) and call.func.id == g.target.id)
        except Exception:
            shape = False
        it = X.eval(g.iter) if shape else None
        X.prove('emit.iterates_snapshot_in_order_once_each', z3.BoolVal(shape and isinstance(it, Snapshot)))
        return VOpaque(X.fresh(PyObj, 'results'), 'list')

    def post_raise(self, X, exc):
        X.prove('raises.only_from_hooks', z3.BoolVal(False))


class AddHook(Contract):
    props = ('C03',)
    file = 'ombott/ombott.py'
    qualname = 'Ombott.add_hook'
    expected_labels = ('post.before_appended_after_prepended',)

    def pre(self, X):
        self.which = ('before_request', 'after_request')[X.choose(2, 'hook name')]
        self.lists = {n: VObj('HookList', {'name': VStr(n)}) for n in ('before_request', 'after_request')}
        self.ops = []
        c = self

        def insert(X, args, kwargs):
            c.ops.append(('insert', args[0], z3.simplify(args[1].t).as_long(), args[2]))
            return NONE

        def append(X, args, kwargs):
            c.ops.append(('append', args[0], args[1]))
            return NONE
        self.stubs = {'HookList.insert': insert, 'HookList.append': append}
        self.func = VOpaque(X.fresh(PyObj, 'func'), 'func')
        me = VObj('App', {'_hooks': VObj('HookTable', {}), '_Ombott__hook_reversed': VTuple([VStr('after_request')])})
        return {'self': me, 'name': VStr(self.which), 'func': self.func}

    def getitem_hook(self, X, obj, key):
        if isinstance(obj, VObj) and obj.cls == 'HookTable':
            return self.lists[z3.simplify(key.t).as_string()]
        return None

    def getattr_hook(self, X, obj, attr):
        if isinstance(obj, VObj) and obj.cls == 'App' and attr.endswith('__hook_reversed'):
            return obj.fields['_Ombott__hook_reversed']
        return None

    def post(self, X, ret):
        lst = self.lists[self.which]
        want = [('append', lst, self.func)] if self.which == 'before_request' else [('insert', lst, 0, self.func)]
        X.prove('post.before_appended_after_prepended', z3.BoolVal(self.ops == want))


CONTRACTS = [Apply(), Emit(), AddHook()]


class StatusSetter(Contract):
    """BaseResponse.status (setter): the status line handed to start_response is "<code> <reason>" with 100 <= code <= 999"""
    props = ('C03',)
    file = 'ombott/response.py'
    qualname = 'BaseResponse.status@setter'
    assumptions = ('_HTTP_STATUS_LINES maps a known code to "<code> <phrase>" (constant table, checked natively below); '
                   'str.strip / str.split / int are library functions (uninterpreted, int partial)',)
    expected_labels = ('post.int_status_gives_code_and_line', 'post.code_in_range', 'raise.only_value_error')

    def pre(self, X):
        self.kind = ('int', 'str')[X.choose(2, 'status given as int | str')]
        self.code = X.fresh(z3.IntSort(), 'code')
        self.text = X.fresh(StrSort, 'status_text')
        self.known = X.choose(2, 'code in the table?') == 1
        self.line = X.fresh(StrSort, 'table_line')
        X.assume(z3.Length(self.line) > 0)
        # the constant table of the real module: every entry is "<code> <phrase>" for its own code
        table = X.globals.get('_HTTP_STATUS_LINES', {})
        import re as _re
        okt = bool(table) and all(isinstance(k, int) and isinstance(v, str) and _re.match(r'^%d \S.*$' % k, v) for k, v in table.items())
        X.prove('table.every_line_is_code_space_phrase', z3.BoolVal(okt))
        c = self

        def table_get(X, args, kwargs):
            X.prove('table.looked_up_by_code', args[-1].t == c.code)
            return VStr(c.line) if c.known else NONE
        self.stubs = {'_HTTP_STATUS_LINES.get': table_get}
        self.me = VObj('Resp', {})
        return {'self': self.me, 'status': VInt(self.code) if self.kind == 'int' else VStr(self.text)}

    def method_hook(self, X, obj, name, args, kwargs):
        if isinstance(obj, VStr) and name == 'strip' and not args:
            return VStr(X.driver.uf('strip_ws', StrSort, StrSort)(obj.t))
        if isinstance(obj, VStr) and name == 'split' and not args:
            first = X.driver.uf('first_word', StrSort, StrSort)
            return VList([VStr(first(obj.t))])
        return None

    def str_hook(self, X, a):
        if isinstance(a, VStr):
            return a
        return None

    def post(self, X, ret):
        f = self.me.fields
        code, line = f.get('_status_code'), f.get('_status_line')
        ok = isinstance(code, VInt) and isinstance(line, VStr)
        if not ok:
            X.prove('post.sets_code_and_line', z3.BoolVal(False))
            return
        X.prove('post.code_in_range', z3.And(code.t >= 100, code.t <= 999))
        if self.kind == 'int':
            X.prove('post.int_status_gives_code_and_line',
                    z3.And(code.t == self.code, z3.BoolVal(True) if not self.known else line.t == self.line))
        else:
            val = X.driver.uf('int_val_10_s', StrSort, z3.IntSort())
            first = X.driver.uf('first_word', StrSort, StrSort)
            strip = X.driver.uf('strip_ws', StrSort, StrSort)
            X.prove('post.str_status_kept_with_its_leading_code',
                    z3.And(code.t == val(first(strip(self.text))), z3.Or(line.t == strip(self.text), z3.Length(strip(self.text)) == 0)))

    def post_raise(self, X, exc):
        X.prove('raise.only_value_error', z3.BoolVal(exc.pyclass is ValueError))


class CloseIter(Contract):
    """_closeiter.close(): every attached close callback is called exactly once, in order"""
    props = ('C03',)
    file = 'ombott/ombott.py'
    qualname = '_closeiter.close'
    assumptions = ('a list comprehension over a list calls the element expression once per item, in order (Python semantics)',)
    expected_labels = ('close.calls_every_callback_once',)

    def pre(self, X):
        return {'self': VObj('CloseIter', {'close_callbacks': VOpaque(X.fresh(PyObj, 'callbacks'), 'callbacks')})}

    def genexp_hook(self, X, node):
        try:
            (g,) = node.generators
            ok = (not g.ifs and isinstance(g.target, ast.Name) and isinstance(node.elt, ast.Call)
                  and isinstance(node.elt.func, ast.Name) and node.elt.func.id == g.target.id and not node.elt.args
                  and not node.elt.keywords and ast.unparse(g.iter) == 'self.close_callbacks')
        except Exception:
            ok = False
        X.prove('close.calls_every_callback_once', z3.BoolVal(ok))
        return VOpaque(X.fresh(PyObj, 'results'), 'list')


CONTRACTS += [StatusSetter(), CloseIter()]
