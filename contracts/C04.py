"""C04 — Content-Length bodies arrive byte-exact under any read fragmentation.

Functions under contract: body_mixin._iter_body (here), body_mixin._body_read (contracts/body_read.py, shared
with C13), BodyMixin._body / body / content_length (contracts/body_access.py).
"""
import z3
from pyvc.engine import Contract, VInt, VBytes, Unsupported
from .streams import init_stream_ghost, read_stub, L


def zmin(a, b):
    return z3.If(a < b, a, b)


def zmax(a, b):
    return z3.If(a > b, a, b)


class IterBody(Contract):
    props = ('C04', 'C13', 'C06', 'C07')
    file = 'ombott/request_pkg/body_mixin.py'
    qualname = '_iter_body'
    ghost_const = ('stream0',)
    raises = ()
    assumptions = (
        'server read(n) contract (PEP 3333): returns a prefix of the remaining stream, at most n bytes, '
        'empty only when n == 0 or at EOF; does not raise',
        'precondition buff_size >= 1 (config.max_memfile_size >= 1)',
    )
    expected_labels = ('loop0.inv_preserved.accounting', 'post.exact', 'yield.size', 'read.not_beyond_content_length',
                       'loop0.variant_decreases')

    def pre(self, X):
        self.CL = X.fresh(z3.IntSort(), 'content_length')
        self.buff = X.fresh(z3.IntSort(), 'buff_size')
        X.assume(self.buff >= 1)
        self.s0 = init_stream_ghost(X)
        CLp = zmax(self.CL, 0)

        def not_beyond(X, n):
            X.prove('read.not_beyond_content_length', n <= CLp - L(X.g('consumed').t))
        self.stubs = {'read': read_stub(not_beyond)}
        from pyvc.engine import VFunc
        return {'read': VFunc(self.stubs['read'], 'read'), 'buff_size': VInt(self.buff), 'content_length': VInt(self.CL)}

    def _inv(self, X):
        d, s, c = X.g('delivered').t, X.g('stream').t, X.g('consumed').t
        rest = self._rest(X)
        return [
            ('stream_split', z3.Concat(c, s) == self.s0),
            ('yielded_all_read', d == c),
            ('accounting', rest == self.CL - L(d)),
            ('within_content_length', L(d) <= zmax(self.CL, 0)),
        ]

    def _rest(self, X):
        """the loop's remaining-length counter: the int local that the loop guard tests"""
        v = X.v('rest_len')
        if not isinstance(v, VInt):
            raise Unsupported('rest_len is not an int')
        return v.t

    @property
    def loop_inv(self):
        return {0: self._inv}

    @property
    def loop_variant(self):
        return {0: lambda X: self._rest(X)}

    def on_yield(self, X, val):
        if not isinstance(val, VBytes):
            X.prove('yield.is_bytes', z3.BoolVal(False))
            raise Unsupported('yield of a non-bytes value')
        d = X.g('delivered').t
        X.prove('yield.size', z3.And(L(val.t) >= 1, L(val.t) <= self.buff))
        X.prove('yield.is_what_was_read', z3.Concat(d, val.t) == X.g('consumed').t)
        X.setg('delivered', VBytes(z3.Concat(d, val.t)))

    def post(self, X, ret):
        d = X.g('delivered').t
        want = zmin(zmax(self.CL, 0), L(self.s0))
        X.prove('post.exact', z3.And(z3.PrefixOf(d, self.s0), L(d) == want))
        X.prove('post.nothing_read_but_not_delivered', X.g('consumed').t == d)

    def model_to_case(self, ob, model):
        def ev(t):
            return model.eval(t, model_completion=True)
        try:
            cl = ev(self.CL).as_long()
            buff = ev(self.buff).as_long()
        except Exception:
            return []
        lens = []
        for rec in ob.trace or []:
            if 'read_len' in rec:
                try:
                    lens.append(ev(rec['read_len']).as_long())
                except Exception:
                    pass
        short = [n for n in lens if n > 0] or [1]
        n = max(min(cl, 64), 0) + 2
        data = bytes((65 + i % 26) for i in range(n))
        cases = []
        for k in sorted(set(short + [1])):
            cases.append(dict(kind='iter', data=data, cl=cl, buff=buff, script=[], tail=k))
        return cases


CONTRACTS = [IterBody()]
