"""C12 / C13 / C09 — translation of request errors into the configured HTTP errors.

BaseRequest._raise(err, cls)   never returns; raises errors_map[type(err)] if configured, else errors_map[cls] if configured,
                               else err itself.  A configured error object is long-lived (shared by all requests): it is
                               raised only after with_traceback(None), so that no chain of request frames accumulates on it (C09).
BodyMixin._body                every RequestError of the reader goes through _raise(err, RequestError); the multipart markup is
                               fed by the reader; on success wsgi.input is replaced by the rewound buffered copy (C04).
BodyMixin._get_body_string     more than max_memfile_size bytes (declared or actually read) -> the mapped BodySizeError (413);
                               never returns more than max_memfile_size bytes (C13).
BodyMixin.json                 a parse failure of json.loads (ValueError incl. UnicodeDecodeError, RecursionError) goes through
                               _raise(BodyParsingError(), RequestError); nothing else escapes.
DefaultConfig.errors_map       (constant evaluation of the real class body) maps RequestError/BodyParsingError to HTTP 400 and
                               BodySizeError to HTTP 413: every value is a 4xx HTTPError.
"""
import z3
from pyvc.engine import (Contract, Val, VInt, VBool, VStr, VBytes, VObj, VFunc, VOpaque, VClass, VExc, VNone, NONE, Unsupported,
                         PyObj, BytesSort)

L = z3.Length


class Raise(Contract):
    props = ('C12', 'C13', 'C09')
    file = 'ombott/request_pkg/request.py'
    qualname = 'BaseRequest._raise'
    expected_labels = ('raise.mapped_by_own_class_first_then_by_fallback_class', 'raise.shared_error_with_clean_traceback')

    def pre(self, X):
        self.f1 = X.choose(2, 'errors_map has type(err)?') == 1
        self.f2 = X.choose(2, 'errors_map has except_class?') == 1
        self.err = VExc(None, tag='the_error')
        self.cls_err = VClass(type('ErrClass', (Exception,), {}))
        self.cls_exc = VClass(type('FallbackClass', (Exception,), {}))
        self.m1 = VObj('MappedError', {'which': VStr('by_own_class'), 'clean_tb': VBool(False)})
        self.m2 = VObj('MappedError', {'which': VStr('by_fallback'), 'clean_tb': VBool(False)})
        c = self

        def get(X, args, kwargs):
            k = args[1]
            if k is c.cls_err:
                return c.m1 if c.f1 else NONE
            if k is c.cls_exc:
                return c.m2 if c.f2 else NONE
            X.prove('lookup.only_by_the_two_classes', z3.BoolVal(False))
            return NONE

        def with_tb(X, args, kwargs):
            o = args[0]
            X.prove('raise.traceback_reset_to_none', z3.BoolVal(isinstance(args[1], VNone)))
            o.fields['clean_tb'] = VBool(True)
            return o
        self.stubs = {'ErrMap.get': get, 'MappedError.with_traceback': with_tb}
        me = VObj('Request', {'config': VObj('Config', {'errors_map': VObj('ErrMap', {})})})
        return {'self': me, 'err': self.err, 'except_class': self.cls_exc}

    def getattr_hook(self, X, obj, attr):
        if obj is self.err and attr == '__class__':
            return self.cls_err
        return None

    def raise_hook(self, X, v):
        if isinstance(v, VObj) and v.cls == 'MappedError':
            return VExc(None, tag=v)
        return None

    def post(self, X, ret):
        X.prove('post.never_returns', z3.BoolVal(False))

    def post_raise(self, X, exc):
        want = self.m1 if self.f1 else (self.m2 if self.f2 else None)
        got = exc.tag if isinstance(exc.tag, VObj) else None
        X.prove('raise.mapped_by_own_class_first_then_by_fallback_class',
                z3.BoolVal((got is want) if want is not None else (exc is self.err)))
        if got is not None:
            X.prove('raise.shared_error_with_clean_traceback', got.fields['clean_tb'].t)


class GetBodyString(Contract):
    props = ('C12', 'C13', 'C18')
    file = 'ombott/request_pkg/body_mixin.py'
    qualname = 'BodyMixin._get_body_string'
    assumptions = ('the buffered body (BytesIO / TemporaryFile): seek(0) rewinds, read(n) returns at most n bytes for n >= 0',
                   'callee contract of _raise as proved: never returns, raises the mapped error (413 for BodySizeError)',
                   'max_memfile_size >= 0')
    expected_labels = ('post.at_most_the_threshold_returned', 'raise.only_when_more_than_threshold', 'call.read_asks_at_most_threshold_plus_one',
                       'call.read_only_after_rewind', 'call.read_asks_enough_to_detect_an_oversized_body')

    def pre(self, X):
        self.maxm = X.fresh(z3.IntSort(), 'max_memfile_size')
        self.cl = X.fresh(z3.IntSort(), 'content_length')
        X.assume(self.maxm >= 0)
        self.SizeErr = X.globals['BodySizeError']
        self.ReqErr = X.globals['RequestError']
        self.data = None
        self.rewound = False
        c = self

        def seek(X, args, kwargs):
            X.prove('call.body_rewound', args[1].t == 0)
            c.rewound = True
            return VInt(0)

        def read(X, args, kwargs):
            # the buffered body is shared with request.body / forms / json of the same request: read it from its start
            X.prove('call.read_only_after_rewind', z3.BoolVal(c.rewound))
            n = args[0].t if len(args) == 1 else args[1].t
            X.prove('call.read_asks_at_most_threshold_plus_one', z3.And(n >= 0, n <= c.maxm + 1))
            # ... and enough to tell a body that fits from one that does not: the declared length when it is known, one byte more
            # than the threshold when it is not (otherwise an over-long body of unknown length would be silently cut at the threshold)
            X.prove('call.read_asks_enough_to_detect_an_oversized_body', n == z3.If(c.cl < 0, c.maxm + 1, c.cl))
            d = X.fresh(BytesSort, 'data')
            X.assume(L(d) <= n)
            c.data = d
            return VBytes(d)

        def _raise(X, args, kwargs):
            e, cls = args[1], args[2]
            ok = isinstance(e, VExc) and e.pyclass is c.SizeErr and isinstance(cls, VClass) and cls.pyclass is c.ReqErr
            X.prove('raise.size_error_through_the_error_map', z3.BoolVal(ok))
            raise_mapped(X)
        body = VObj('Body', {'read': VFunc(read, 'read')})
        self.stubs = {'Body.seek': seek, 'Req._raise': _raise}
        me = VObj('Req', {'_body': body, 'config': VObj('Config', {'max_memfile_size': VInt(self.maxm)}), 'content_length': VInt(self.cl)})
        return {'self': me}

    def post(self, X, ret):
        X.prove('post.at_most_the_threshold_returned',
                z3.And(L(ret.t) <= self.maxm, self.cl <= self.maxm, z3.BoolVal(self.data is not None), ret.t == self.data)
                if isinstance(ret, VBytes) and self.data is not None else z3.BoolVal(False))

    def post_raise(self, X, exc):
        mapped = exc.tag == 'mapped'
        over = self.cl > self.maxm
        if self.data is not None:
            over = z3.Or(over, L(self.data) > self.maxm)
        X.prove('raise.only_when_more_than_threshold', z3.And(z3.BoolVal(mapped), over))


def raise_mapped(X):
    from pyvc.engine import PyRaise
    raise PyRaise(VExc(None, tag='mapped'))


class Json(Contract):
    props = ('C12',)
    file = 'ombott/request_pkg/body_mixin.py'
    qualname = 'BodyMixin.json'
    assumptions = ('json.loads raises only ValueError (JSONDecodeError, UnicodeDecodeError are subclasses) or RecursionError on bad input (library)',
                   'callee contracts of _get_body_string and _raise as proved')
    expected_labels = ('raise.only_mapped_errors', 'post.none_or_parsed')

    def pre(self, X):
        self.is_json = X.choose(2, 'content type application/json?') == 1
        self.body = X.fresh(BytesSort, 'body')
        c = self

        def get_body(X, args, kwargs):
            if X.choose(2, 'body within the threshold?') == 0:
                raise_mapped(X)
            return VBytes(c.body)

        def loads(X, args, kwargs):
            k = X.choose(4, 'json.loads outcome: ok | ValueError | UnicodeDecodeError | RecursionError')
            if k == 1:
                X.raise_(ValueError, 'json')
            if k == 2:
                X.raise_(UnicodeDecodeError, 'json')
            if k == 3:
                X.raise_(RecursionError, 'json')
            return VOpaque(X.fresh(PyObj, 'parsed'), 'parsed')

        def _raise(X, args, kwargs):
            e, cls = args[1], args[2]
            X.prove('raise.parsing_error_through_the_error_map',
                    z3.BoolVal(isinstance(e, VExc) and e.pyclass is X.globals['BodyParsingError'] and isinstance(cls, VClass)
                               and cls.pyclass is X.globals['RequestError']))
            raise_mapped(X)
        self.stubs = {'Req._get_body_string': get_body, 'json_mod.loads': loads, 'Req._raise': _raise}
        ct = VStr('application/json') if self.is_json else X.fresh_str('ctype0')
        if not self.is_json:
            X.assume(ct.t != z3.StringVal('application/json'))
        from pyvc.engine import VList
        me = VObj('Req', {'ctype': VList([ct])})
        return {'self': me}

    def post(self, X, ret):
        X.prove('post.none_or_parsed', z3.BoolVal(isinstance(ret, (VNone, VOpaque))))

    def post_raise(self, X, exc):
        X.prove('raise.only_mapped_errors', z3.BoolVal(exc.tag == 'mapped'))


CONTRACTS = [Raise(), GetBodyString(), Json()]


class Post(Contract):
    """BodyMixin.POST: whatever goes wrong while reading a form is answered through the error map"""
    props = ('C12',)
    file = 'ombott/request_pkg/body_mixin.py'
    qualname = 'BodyMixin.POST'
    assumptions = ('callee contracts: json / _get_body_string / body raise only mapped errors (proved above; body: _body, bounded wiring); '
                   'parse_qsl is total (proved in contracts/C18.py); _collect_multipart raises only RequestErrors (FieldStorage contracts) '
                   '- provided the stored markup error is a RequestError, which holds for every exception the markup parser raises '
                   'on purpose (BaseMarkupException family; an internal assertion of the parser would be a 500: bounded)',)
    expected_labels = ('raise.only_mapped_errors', 'multipart.request_errors_go_through_the_error_map', 'json.only_objects_become_form_data',
                       'post.both_views_published_in_the_environ')

    def pre(self, X):
        g = X.globals
        self.ReqErr, self.ParseErr = g['RequestError'], g['BodyParsingError']
        self.published = set()
        self.kind = ('multipart', 'json', 'urlencoded')[X.choose(3, 'content type')]
        ct = {'multipart': 'multipart/form-data; boundary=x', 'json': 'application/json', 'urlencoded': 'application/x-www-form-urlencoded'}[self.kind]
        self.json_kind = None
        c = self

        def factory(X, args, kwargs):
            return VObj('Forms', {})

        def json_get(X):
            k = X.choose(4, 'json: mapped error | None | dict | other value')
            c.json_kind = k
            if k == 0:
                raise_mapped(X)
            if k == 1:
                return NONE
            if k == 2:
                return VObj('PyDict', {}, pyclass=dict)
            o = VOpaque(X.fresh(PyObj, 'json_value'), 'other')      # a list, a number, a string ...: not None, not a dict
            X.assume(z3.Not(X.driver.uf('is_none', PyObj, z3.BoolSort())(o.t)))
            X.assume(z3.Not(X.driver.uf('isinstance', PyObj, z3.StringSort(), z3.BoolSort())(o.t, z3.StringVal('dict'))))
            return o

        def get_body_string(X, args, kwargs):
            if X.choose(2, 'body string within the threshold?') == 0:
                raise_mapped(X)
            return VBytes(X.fresh(BytesSort, 'body'))

        def collect(X, args, kwargs):
            k = X.choose(3, 'collect: ok | BodyParsingError | BodySizeError')
            if k == 1:
                X.raise_(c.ParseErr, 'collect')
            if k == 2:
                X.raise_(g['BodySizeError'], 'collect')
            return NONE

        def _raise(X, args, kwargs):
            e, cls = args[1], args[2]
            X.prove('raise.through_the_error_map_with_fallback_class',
                    z3.BoolVal(isinstance(e, VExc) and e.pyclass is not None and issubclass(e.pyclass, c.ReqErr)
                               and isinstance(cls, VClass) and cls.pyclass is c.ReqErr))
            c.raised_via_map = True
            raise_mapped(X)
        self.raised_via_map = False
        self.stubs = {'Req._forms_factory': factory, 'Req._get_body_string': get_body_string, 'Req._collect_multipart': collect,
                      'Req._raise': _raise, 'touni': lambda X, a, k: X.fresh_str('text'), 'parse_qsl': lambda X, a, k: NONE,
                      'Forms.update': lambda X, a, k: NONE}
        self.json_get = json_get
        me = VObj('Req', {'environ': VObj('Environ', {}), 'content_type': VStr(ct), 'body': VObj('Body', {})})
        return {'self': me}

    def getattr_hook(self, X, obj, attr):
        if isinstance(obj, VObj) and obj.cls == 'Req' and attr == 'json':
            return self.json_get(X)
        if isinstance(obj, VObj) and obj.cls == 'Forms' and attr == '__setitem__':
            return VFunc(lambda X2, a, k: NONE, 'setitem')
        return None

    def setitem_hook(self, X, obj, key, val):
        if isinstance(obj, VObj) and obj.cls == 'Environ':
            k = z3.simplify(key.t) if isinstance(key, VStr) else None
            if k is not None and z3.is_string_value(k):
                self.published = getattr(self, 'published', set()) | {k.as_string()}
            return True
        return False

    def isinstance_hook(self, X, v, classes):
        return None

    def post(self, X, ret):
        # forms / files read the environ entries of their view after forcing POST (contracts/getters.py): every normal return of POST
        # must have published both, whatever the body was
        X.prove('post.both_views_published_in_the_environ',
                z3.BoolVal({'ombott.request.forms', 'ombott.request.files'} <= getattr(self, 'published', set())))
        if self.kind == 'json':
            X.prove('json.only_objects_become_form_data', z3.BoolVal(self.json_kind in (1, 2)))
        X.prove('post.returns_the_form_dict', z3.BoolVal(isinstance(ret, VObj) and ret.cls == 'Forms'))

    def post_raise(self, X, exc):
        X.prove('raise.only_mapped_errors', z3.BoolVal(exc.tag == 'mapped'))
        if self.kind == 'multipart':
            X.prove('multipart.request_errors_go_through_the_error_map', z3.BoolVal(self.raised_via_map))


CONTRACTS.append(Post())
