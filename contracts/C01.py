"""C01 supporting obligations that ARE within reach (the tree lookup itself is not: DESIGN 4/C01).

FilterFactory.make_filter.handler (three closures, one per filter shape): for the compiled pattern `mask` and converter f_in
    no match at the cursor            -> (None, 0, <selector None>)              the wildcard does not consume anything
    match m                           -> (conversion of EXACTLY m.group(), m.end(), selector)
  so a value that the filter's regular expression rejects never reaches a handler, and what reaches it is the matched text
  converted by the filter.  `re` is opaque: match() returns None or a match object with group()/end().
"""
import z3
from pyvc.engine import (Contract, VInt, VBool, VStr, VObj, VFunc, VOpaque, VTuple, VNone, NONE, Unsupported, PyObj, StrSort)


class _Handler(Contract):
    props = ('C01',)
    file = 'ombott/router/filter_factory.py'
    assumptions = ('re: mask.match(text) returns None or a match object whose group() is the matched text and end() its length',
                   'the converter f_in is an opaque function of the matched text')
    with_fin = True
    two_arg_fin = False

    def pre(self, X):
        self.param = X.fresh_str('param')
        self.matched = X.choose(2, 'regular expression matches at the cursor?') == 1
        self.group = X.fresh_str('group')
        self.end = X.fresh_int('end')
        self.fin_uf = X.driver.uf('f_in', StrSort, PyObj)
        c = self
        self.m = VObj('Match', {'truthy': VBool(True)})

        def mask_match(X, args, kwargs):
            X.prove('match.at_the_cursor_text', args[-1].t == c.param.t)
            return c.m if c.matched else NONE

        def f_in(X, args, kwargs):
            X.prove('convert.exactly_the_matched_text', args[0].t == c.group.t if isinstance(args[0], VStr) else z3.BoolVal(False))
            return VOpaque(c.fin_uf(args[0].t), 'converted')
        self.stubs = {'Mask.match': mask_match, 'Match.group': lambda X, a, k: c.group, 'Match.end': lambda X, a, k: c.end}
        p = {'param': self.param, 'mask': VObj('Mask', {})}
        if self.with_fin:
            p['f_in'] = VFunc(f_in, 'f_in')
        return p

    def isinstance_hook(self, X, v, classes):
        if isinstance(v, VOpaque):
            return z3.BoolVal(False)     # f_in of int/float filters does not return a _RouteFilterExhaust
        return None

    def post(self, X, ret):
        ok = isinstance(ret, VTuple) and len(ret.items) == 3
        if not ok:
            X.prove('post.returns_triple', z3.BoolVal(False))
            return
        val, pos, sel = ret.items
        if not self.matched:
            X.prove('post.no_match_consumes_nothing', z3.And(z3.BoolVal(isinstance(val, VNone) and isinstance(sel, VNone)), pos.t == 0))
        else:
            if self.with_fin:
                good = val.t == self.fin_uf(self.group.t) if isinstance(val, VOpaque) else z3.BoolVal(False)
            else:
                good = val.t == self.group.t if isinstance(val, VStr) else z3.BoolVal(False)
            X.prove('post.value_is_conversion_of_matched_text_at_its_end', z3.And(good, pos.t == self.end.t))

    def post_raise(self, X, exc):
        X.prove('raises.nothing', z3.BoolVal(False))


class HandlerConv(_Handler):
    """f_in with one argument (int, float)"""
    qualname = 'FilterFactory.make_filter.handler#1'
    expected_labels = ('post.no_match_consumes_nothing', 'post.value_is_conversion_of_matched_text_at_its_end')


class HandlerPlain(_Handler):
    """no converter (re, path)"""
    qualname = 'FilterFactory.make_filter.handler#2'
    with_fin = False
    expected_labels = ('post.no_match_consumes_nothing', 'post.value_is_conversion_of_matched_text_at_its_end')


CONTRACTS = [HandlerConv(), HandlerPlain()]


# ------------------------------------------------------------------------------------------- FilterFactory.make_filter
from pyvc.engine import Val as _Val, VPy as _VPy   # noqa: E402


class MakeFilter(Contract):
    """one handler object per filter spec: the router decides "same rule" / "same wildcard" by the IDENTITY of the filter handler, so
    every filter that is built must be stored in the cache under its spec `<filter>(<args>)` and a later request for the same spec
    must get that very object back - for every kind of filter (with and without a converter)."""
    props = ('C11', 'C01')
    file = 'ombott/router/filter_factory.py'
    qualname = 'FilterFactory.make_filter'
    assumptions = ('the filter constructors return (mask text, converter or None, formatter or None); re.compile is opaque',
                   'a cached entry is a non-empty list (truthy)')
    expected_labels = ('cache.hit_returns_the_cached_entry', 'cache.every_built_filter_is_stored_under_its_spec',
                       'cache.built_handler_is_what_is_returned', 'none.no_filter_gives_none_none')

    def pre(self, X):
        self.no_filter = X.choose(2, 'filter given?') == 0
        self.hit = (not self.no_filter) and X.choose(2, 'spec already cached?') == 1
        self.kind = 'none'
        self.filter = VStr('') if self.no_filter else X.fresh_str('filter')
        if not self.no_filter:
            X.assume(z3.Length(self.filter.t) > 0)
        self.args = X.fresh_str('args')
        self.entry = VObj('CachedEntry', {'truthy': VBool(True)})
        self.stored = []
        self.got_key = None
        self.f_out = VOpaque(X.fresh(PyObj, 'f_out'), 'f_out')
        c = self

        def cache_get(X, args, kwargs):
            c.got_key = args[1]
            return c.entry if c.hit else NONE

        def ctor(X, args, kwargs):
            c.kind = ('no converter', 'one-argument converter', 'two-argument converter', 'converter without __code__')[
                X.choose(4, 'kind of filter')]
            f_in = NONE if c.kind == 'no converter' else VObj('Converter', {'truthy': VBool(True)})
            c.f_in = f_in
            return VTuple([X.fresh_str('mask'), f_in, c.f_out])
        self.stubs = {'Cache.get': cache_get, 're.compile': lambda X, a, k: VObj('Mask', {})}
        self.cache = VObj('Cache', {})
        cls = VObj('FilterFactoryCls', {'_filter_cache': self.cache, 'filters': VObj('Filters', {'ctor': VFunc(ctor, 'ctor')})})
        return {'cls': cls, 'filter': self.filter, 'args': self.args}

    def getitem_hook(self, X, obj, key):
        if isinstance(obj, VObj) and obj.cls == 'Filters':
            X.prove('ctor.selected_by_the_filter_name', key.t == self.filter.t if isinstance(key, VStr) else z3.BoolVal(False))
            return obj.fields['ctor']
        return None

    def setitem_hook(self, X, obj, key, val):
        if obj is self.cache:
            self.stored.append((key, val))
            return True
        return False

    def builtin_hook(self, X, name, args, kwargs):
        if name == 'getattr' and len(args) == 3 and isinstance(args[0], VObj) and args[0].cls == 'Converter':
            if self.kind == 'converter without __code__':
                return args[2]
            return VObj('Code', {'truthy': VBool(True), 'co_argcount': VInt(1 if self.kind == 'one-argument converter' else 2)})
        return None

    def spec_key(self):
        return z3.Concat(self.filter.t, z3.StringVal('('), self.args.t, z3.StringVal(')'))

    def post(self, X, ret):
        if self.no_filter:
            X.prove('none.no_filter_gives_none_none', z3.BoolVal(isinstance(ret, VTuple) and len(ret.items) == 2
                                                                 and all(isinstance(i, VNone) for i in ret.items) and not self.stored))
            return
        if self.hit:
            X.prove('cache.hit_returns_the_cached_entry',
                    z3.And(z3.BoolVal(ret is self.entry and not self.stored), self.got_key.t == self.spec_key())
                    if isinstance(self.got_key, VStr) else z3.BoolVal(False))
            return
        ok = len(self.stored) == 1 and isinstance(self.stored[0][0], VStr) and isinstance(self.stored[0][1], VList_) \
            and len(self.stored[0][1].items) == 2
        X.prove('cache.every_built_filter_is_stored_under_its_spec',
                z3.And(self.stored[0][0].t == self.spec_key(), z3.BoolVal(self.stored[0][1].items[1] is self.f_out)) if ok else z3.BoolVal(False))
        same = ok and isinstance(ret, VTuple) and len(ret.items) == 2 and ret.items[0] is self.stored[0][1].items[0] \
            and ret.items[1] is self.f_out and not isinstance(ret.items[0], VNone)
        X.prove('cache.built_handler_is_what_is_returned', z3.BoolVal(bool(same)))

    def post_raise(self, X, exc):
        X.prove('raises.nothing', z3.BoolVal(False))


from pyvc.engine import VList as VList_   # noqa: E402
CONTRACTS.append(MakeFilter())
