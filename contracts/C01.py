"""C01 supporting obligations that ARE within reach (the tree lookup itself is not: DESIGN 4/C01).

FilterFactory.make_filter.handler (three closures, one per filter shape): for the compiled pattern `mask` and converter f_in
    no match at the cursor            -> (None, 0, <selector None>)              the wildcard does not consume anything
    match m                           -> (conversion of EXACTLY m.group(), m.end(), selector)
  so a value that the filter's regular expression rejects never reaches a handler, and what reaches it is the matched text
  converted by the filter.  `re` is opaque: match() returns None or a match object with group()/end().
"""
import z3
from pyvc.engine import (Contract, VInt, VBool, VStr, VObj, VFunc, VOpaque, VTuple, VNone, NONE, Unsupported, PyObj, StrSort)


class _Handler(Contract):
    props = ('C01',)
    file = 'ombott/router/filter_factory.py'
    assumptions = ('re: mask.match(text) returns None or a match object whose group() is the matched text and end() its length',
                   'the converter f_in is an opaque function of the matched text')
    with_fin = True
    two_arg_fin = False

    def pre(self, X):
        self.param = X.fresh_str('param')
        self.matched = X.choose(2, 'regular expression matches at the cursor?') == 1
        self.group = X.fresh_str('group')
        self.end = X.fresh_int('end')
        self.fin_uf = X.driver.uf('f_in', StrSort, PyObj)
        c = self
        self.m = VObj('Match', {'truthy': VBool(True)})

        def mask_match(X, args, kwargs):
            X.prove('match.at_the_cursor_text', args[-1].t == c.param.t)
            return c.m if c.matched else NONE

        def f_in(X, args, kwargs):
            X.prove('convert.exactly_the_matched_text', args[0].t == c.group.t if isinstance(args[0], VStr) else z3.BoolVal(False))
            return VOpaque(c.fin_uf(args[0].t), 'converted')
        self.stubs = {'Mask.match': mask_match, 'Match.group': lambda X, a, k: c.group, 'Match.end': lambda X, a, k: c.end}
        p = {'param': self.param, 'mask': VObj('Mask', {})}
        if self.with_fin:
            p['f_in'] = VFunc(f_in, 'f_in')
        return p

    def isinstance_hook(self, X, v, classes):
        if isinstance(v, VOpaque):
            return z3.BoolVal(False)     # f_in of int/float filters does not return a _RouteFilterExhaust
        return None

    def post(self, X, ret):
        ok = isinstance(ret, VTuple) and len(ret.items) == 3
        if not ok:
            X.prove('post.returns_triple', z3.BoolVal(False))
            return
        val, pos, sel = ret.items
        if not self.matched:
            X.prove('post.no_match_consumes_nothing', z3.And(z3.BoolVal(isinstance(val, VNone) and isinstance(sel, VNone)), pos.t == 0))
        else:
            if self.with_fin:
                good = val.t == self.fin_uf(self.group.t) if isinstance(val, VOpaque) else z3.BoolVal(False)
            else:
                good = val.t == self.group.t if isinstance(val, VStr) else z3.BoolVal(False)
            X.prove('post.value_is_conversion_of_matched_text_at_its_end', z3.And(good, pos.t == self.end.t))

    def post_raise(self, X, exc):
        X.prove('raises.nothing', z3.BoolVal(False))


class HandlerConv(_Handler):
    """f_in with one argument (int, float)"""
    qualname = 'FilterFactory.make_filter.handler#1'
    expected_labels = ('post.no_match_consumes_nothing', 'post.value_is_conversion_of_matched_text_at_its_end')


class HandlerPlain(_Handler):
    """no converter (re, path)"""
    qualname = 'FilterFactory.make_filter.handler#2'
    with_fin = False
    expected_labels = ('post.no_match_consumes_nothing', 'post.value_is_conversion_of_matched_text_at_its_end')


CONTRACTS = [HandlerConv(), HandlerPlain()]
