"""C17 — Range requests: get_first_range (first range, clipped as RFC 7233 defines) and _file_iter_range (bounded
streaming of exactly that slice).

int(text) is the partial function (int_ok_10_s, int_val_10_s): the contract is relative to what int() accepts.
"""
import z3
from pyvc.engine import Contract, VInt, VStr, VBytes, VTuple, VNone, VObj, VFunc, NONE, Unsupported, BytesSort
from .streams import init_stream_ghost, L

S = z3.StringVal


def zmin(a, b):
    return z3.If(a < b, a, b)


def zmax(a, b):
    return z3.If(a > b, a, b)


class GetFirstRange(Contract):
    props = ('C17',)
    file = 'ombott/static_stream.py'
    qualname = 'get_first_range'
    assumptions = ('int(text) is a partial function: raises ValueError iff the text is not an integer literal',
                   'str.strip() is a function of its receiver (uninterpreted): the optional whitespace around list commas',
                   'precondition maxlen >= 0 (a file size)')
    expected_labels = ('post.range_is_first_spec_clipped', 'post.none_only_when_unsatisfiable')

    def pre(self, X):
        self.h = X.fresh(z3.StringSort(), 'header')
        self.maxlen = X.fresh(z3.IntSort(), 'maxlen')
        X.assume(self.maxlen >= 0)
        return {'header': VStr(self.h), 'maxlen': VInt(self.maxlen)}

    def spec(self, X):
        """(defined, start, end): RFC 7233 first byte-range-spec of the header, clipped to a representation of maxlen bytes"""
        h, n = self.h, self.maxlen
        ok = X.driver.uf('int_ok_10_s', z3.StringSort(), z3.BoolSort())
        val = X.driver.uf('int_val_10_s', z3.StringSort(), z3.IntSort())
        i0 = z3.IndexOf(h, S('bytes='), 0)
        rs = z3.SubString(h, i0 + 6, z3.Length(h))
        j = z3.IndexOf(rs, S(','), 0)
        ws = X.driver.uf('strip_ws', z3.StringSort(), z3.StringSort())     # str.strip(): uninterpreted
        fr = ws(z3.If(j < 0, rs, z3.SubString(rs, 0, j)))
        k = z3.IndexOf(fr, S('-'), 0)
        one_dash = z3.And(k >= 0, z3.IndexOf(fr, S('-'), k + 1) < 0)
        a = z3.SubString(fr, 0, k)
        b = z3.SubString(fr, k + 1, z3.Length(fr))
        a_empty, b_empty = z3.Length(a) == 0, z3.Length(b) == 0
        parses = z3.If(a_empty, ok(b), z3.If(b_empty, ok(a), z3.And(ok(a), ok(b))))
        start = z3.If(a_empty, zmax(0, n - val(b)), val(a))
        end = z3.If(a_empty, n, z3.If(b_empty, n, zmin(val(b) + 1, n)))
        satisfiable = z3.And(0 <= start, start < end, end <= n)
        defined = z3.And(i0 >= 0, one_dash, parses, satisfiable)
        return defined, start, end

    def method_hook(self, X, obj, name, args, kwargs):
        if name == 'strip' and isinstance(obj, VStr) and not args:
            return VStr(X.driver.uf('strip_ws', z3.StringSort(), z3.StringSort())(obj.t))
        return None

    def post(self, X, ret):
        defined, s, e = self.spec(X)
        if isinstance(ret, VNone):
            X.prove('post.none_only_when_unsatisfiable', z3.Not(defined))
        elif isinstance(ret, VTuple) and len(ret.items) == 2 and all(isinstance(i, VInt) for i in ret.items):
            X.prove('post.range_is_first_spec_clipped', z3.And(defined, ret.items[0].t == s, ret.items[1].t == e))
            X.prove('post.range_within_file', z3.And(0 <= ret.items[0].t, ret.items[0].t < ret.items[1].t,
                                                     ret.items[1].t <= self.maxlen))
        else:
            X.prove('post.returns_none_or_pair', z3.BoolVal(False))

    def post_raise(self, X, exc):
        X.prove('raises.nothing', z3.BoolVal(False))

    def model_to_case(self, ob, model):
        from vlib.modelutil import as_str, as_int
        h, n = as_str(model, self.h), as_int(model, self.maxlen)
        if h is None or n is None:
            return []
        return [dict(kind='parser', header=h, maxlen=n)]


class FileIterRange(Contract):
    props = ('C17', 'C03')      # C03: static_file announces Content-Length = the slice length; this generator delivers the bytes
    file = 'ombott/static_stream.py'
    qualname = '_file_iter_range'
    ghost_const = ('stream0',)
    assumptions = ('file object contract: seek(offset) positions at offset; read(n) returns a prefix of what remains, at most n '
                   'bytes, empty only when n == 0 or at end of file',
                   'precondition: the file holds at least offset + bytes_len bytes; bytes_len >= 0; maxread >= 1')
    expected_labels = ('yield.size', 'post.exact_slice', 'loop0.variant_decreases', 'read.never_more_than_maxread')

    def pre(self, X):
        self.n0 = X.fresh(z3.IntSort(), 'bytes_len')
        self.maxread = X.fresh(z3.IntSort(), 'maxread')
        self.offset = X.fresh(z3.IntSort(), 'offset')
        X.assume(z3.And(self.n0 >= 0, self.maxread >= 1, self.offset >= 0))
        self.s0 = init_stream_ghost(X)          # the file content from `offset` on
        X.assume(L(self.s0) >= self.n0)
        X.setg('seeked', VInt(0))
        contract = self

        def seek(X, args, kwargs):
            fp, off = args
            X.prove('seek.to_offset', off.t == contract.offset)
            X.setg('seeked', VInt(1))
            return VInt(off.t)

        def read(X, args, kwargs):
            fp, n = args
            X.prove('read.after_seek', X.g('seeked').t == 1)
            X.prove('read.arg_nonneg', n.t >= 0)
            X.prove('read.never_more_than_maxread', n.t <= contract.maxread)
            X.prove('read.never_beyond_slice', n.t <= contract.n0 - L(X.g('delivered').t))
            stream = X.g('stream').t
            p, rest = X.fresh(BytesSort, 'part'), X.fresh(BytesSort, 'rest')
            X.assume(stream == z3.Concat(p, rest))
            X.assume(L(p) <= n.t)
            X.assume(z3.Implies(L(p) == 0, z3.Or(n.t == 0, L(stream) == 0)))
            X.setg('stream', VBytes(rest))
            X.setg('consumed', VBytes(z3.Concat(X.g('consumed').t, p)))
            return VBytes(p)
        self.stubs = {'File.seek': seek, 'File.read': read}
        return {'fp': VObj('File', {}), 'offset': VInt(self.offset), 'bytes_len': VInt(self.n0), 'maxread': VInt(self.maxread)}

    def _inv(self, X):
        c, d, s = X.g('consumed').t, X.g('delivered').t, X.g('stream').t
        part, bl = X.v('part'), X.v('bytes_len')
        if not isinstance(part, VBytes) or not isinstance(bl, VInt):
            raise Unsupported('part / bytes_len have unexpected types')
        return [
            ('stream_split', z3.Concat(c, s) == self.s0),
            ('pending_part', c == z3.Concat(d, part.t)),
            ('accounting', z3.And(bl.t == self.n0 - L(d), bl.t >= 0)),
            ('part_bounded', z3.And(L(part.t) <= bl.t, L(part.t) <= self.maxread)),
            ('empty_part_means_done', z3.Implies(L(part.t) == 0, z3.Or(bl.t == 0, L(s) == 0))),
            ('seeked', X.g('seeked').t == 1),
        ]

    loop_frozen_ghost = {}

    @property
    def loop_inv(self):
        return {0: self._inv}

    @property
    def loop_variant(self):
        return {0: lambda X: X.v('bytes_len').t}

    def on_yield(self, X, val):
        X.prove('yield.size', z3.And(L(val.t) >= 1, L(val.t) <= self.maxread))
        X.setg('delivered', VBytes(z3.Concat(X.g('delivered').t, val.t)))

    def post(self, X, ret):
        d = X.g('delivered').t
        X.prove('post.exact_slice', z3.And(z3.PrefixOf(d, self.s0), L(d) == self.n0))

    def post_raise(self, X, exc):
        X.prove('raises.nothing', z3.BoolVal(False))


CONTRACTS = [GetFirstRange(), FileIterRange()]


# ------------------------------------------------------------------------------------------- parse_date
from pyvc.engine import Val as _Val, VTuple as _VTuple, VOpaque as _VOpaque, VPy as _VPy   # noqa: E402

Civil = z3.DeclareSort('Civil')     # the broken-down time fields (year .. second [, wday, yday, isdst]) of a parsed date


class _TS(_Val):
    """result of email.utils.parsedate_tz: a 10-tuple (civil time fields, zone offset in seconds or None)"""
    def __init__(self, civil, offset):
        self.civil, self.offset = civil, offset

    def pyslice(self, X, lo, hi):
        if lo is None and hi is not None and z3.is_int_value(z3.simplify(hi.t)) and z3.simplify(hi.t).as_long() == 8:
            return _Fields(self.civil, 8)
        if lo is None and hi is not None and z3.is_int_value(z3.simplify(hi.t)) and z3.simplify(hi.t).as_long() == 9:
            return _Fields(self.civil, 9, 'as parsed')      # tm_isdst of the parsed date is -1: mktime decides about summer time
        raise Unsupported('slice of the parsed date other than [:8]')

    def getitem(self, X, key):
        k = z3.simplify(key.t)
        if z3.is_int_value(k) and k.as_long() == 9:
            return self.offset
        raise Unsupported('index into the parsed date other than [9]')


class _Fields(_Val):
    def __init__(self, civil, n, dst=None):
        self.civil, self.n, self.dst = civil, n, dst


class ParseDate(Contract):
    """parse_date: the UTC epoch of an HTTP date INCLUDING its zone: utc(civil fields) - zone offset; None when the text is not a
    date (or out of range).  utc() is uninterpreted; time.mktime of the fields with tm_isdst=0 is local standard time:
    mktime(fields, isdst=0) - time.timezone == utc(fields)  (libc semantics, assumed)."""
    props = ('C17',)
    file = 'ombott/common_helpers.py'
    qualname = 'parse_date'
    assumptions = ('email.utils.parsedate_tz returns None or a 10-tuple whose last item is the zone offset in seconds east of UTC or None (library)',
                   'time.mktime(t) with tm_isdst == 0 equals utc(t) + time.timezone; it may raise OverflowError / ValueError')
    expected_labels = ('post.epoch_accounts_for_the_zone_offset', 'post.none_only_for_unparseable_or_out_of_range')

    def pre(self, X):
        self.civil = X.fresh(Civil, 'civil')
        self.tz = X.fresh(z3.IntSort(), 'time_timezone')
        self.utc = X.driver.uf('utc_epoch', Civil, z3.IntSort())
        self.kind = X.choose(3, 'parsedate_tz: None | zone given | zone None')
        self.off = X.fresh(z3.IntSort(), 'zone_offset')
        self.mk_failed = False
        c = self

        def parsedate_tz(X, args, kwargs):
            if c.kind == 0:
                return NONE
            return _TS(c.civil, VInt(c.off) if c.kind == 1 else NONE)

        def mktime(X, args, kwargs):
            a = args[0]
            if X.choose(2, 'mktime: ok | out of range') == 1:
                c.mk_failed = True
                X.raise_(OverflowError, 'mktime')
            if isinstance(a, _Fields) and a.n == 9 and a.dst == 0:
                return VInt(c.utc(a.civil) + c.tz)
            if isinstance(a, _Fields) and a.n == 9:
                # tm_isdst != 0: local summer time may be applied - an adjustment the contract knows nothing about
                return VInt(c.utc(a.civil) + c.tz - X.fresh(z3.IntSort(), 'dst_adjustment'))
            raise Unsupported('mktime of something else than the first 8 fields + (0,)')

        def timegm(X, args, kwargs):
            a = args[0]
            if isinstance(a, _TS):
                return VInt(c.utc(a.civil))
            if isinstance(a, _Fields):
                return VInt(c.utc(a.civil))
            raise Unsupported('timegm of something else')
        self.stubs = {'email.utils.parsedate_tz': parsedate_tz, 'time.mktime': mktime, 'calendar.timegm': timegm}
        return {'ims': X.fresh_str('ims')}

    def binop_hook(self, X, op, a, b):
        import ast as _ast
        if isinstance(op, _ast.Add) and isinstance(a, _Fields) and isinstance(b, _VTuple) and len(b.items) == 1 \
                and isinstance(b.items[0], VInt) and z3.is_int_value(z3.simplify(b.items[0].t)):
            return _Fields(a.civil, a.n + 1, z3.simplify(b.items[0].t).as_long())
        return None

    def getattr_hook(self, X, obj, attr):
        if isinstance(obj, _VPy) and getattr(obj, 'name', '') == 'time' and attr == 'timezone':
            return VInt(self.tz)
        return None

    def post(self, X, ret):
        if isinstance(ret, VNone):
            X.prove('post.none_only_for_unparseable_or_out_of_range', z3.BoolVal(self.kind == 0 or self.mk_failed))
            return
        off = self.off if self.kind == 1 else z3.IntVal(0)
        X.prove('post.epoch_accounts_for_the_zone_offset',
                z3.And(z3.BoolVal(self.kind != 0), ret.t == self.utc(self.civil) - off) if isinstance(ret, VInt) else z3.BoolVal(False))

    def post_raise(self, X, exc):
        X.prove('raises.nothing', z3.BoolVal(False))


CONTRACTS.append(ParseDate())
