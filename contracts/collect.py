"""C07 / C12 / C18 — collection of fields into the form views, with list promotion of repeated names.

BodyMixin._collect_multipart   every item of FieldStorage.iter_items goes, in submission order, into `post` and into exactly
                               one of `forms` (text) / `files` (upload, wrapped in FileUpload built from this very item);
                               a name seen once is stored as the value itself, a repeated name as ONE list of all its values
                               in order, separately for each of the three views.
parse_qsl.add                  the same for the urlencoded scanner: first value stored as it is, the second creates the list
                               [first, second] handed to setitem, later values are appended to that same list.

Abstract view of a mapping D:  content_D : key -> sequence of collected items (empty = key absent);  the concrete
representation is determined by content_D and the flag aslist_D (the stored object is a list).  Every dictionary
operation of the real code is interpreted on that model (membership, read, item store, append to the stored list);
an operation that would corrupt the representation (wrapping a list again, appending to a scalar) is an obligation of
its own.  The specification is the recursive definition  spec_D(i+1) = spec_D(i)[name_i += item_i]  if item i belongs to
view D, else spec_D(i), unfolded at the generic iteration; the loop invariant is the array equality
content_D == spec_D(i) for the three views, plus  listified_D == aslist_D  and  aslist_D[k] <=> |content_D[k]| >= 2.
"""
import z3
from pyvc.engine import (Contract, Val, VInt, VBool, VStr, VObj, VList, VTuple, VFunc, VOpaque, VNone, NONE, VExc,
                         Unsupported, PyObj, StrSort, IntSort, PyRaise)

Item = z3.DeclareSort('Item')
ISeq = z3.SeqSort(Item)
CArr = z3.ArraySort(StrSort, ISeq)
BArr = z3.ArraySort(StrSort, z3.BoolSort())


item_truthy = z3.Function('item_truthy', Item, z3.BoolSort())   # bool(value): uninterpreted (an empty text is falsy)


class ItemVal(Val):
    """a collected value: a text value or an upload wrapper"""
    def __init__(self, t):
        self.t = t

    def truth(self, X):
        return item_truthy(self.t)


class View(Val):
    """a FormsDict being filled"""
    mutable = True

    def __init__(self, X, name):
        self.name = name
        self.content = z3.K(StrSort, z3.Empty(ISeq))
        self.aslist = z3.K(StrSort, z3.BoolVal(False))
        self.nested = z3.BoolVal(False)      # a list was wrapped into a list again
        self.scalar_append = z3.BoolVal(False)  # .append on a stored scalar (AttributeError / wrong object)

    def clone(self, memo):
        return self

    def havoc_state(self, X):
        self.content = X.fresh(CArr, self.name + '_content')
        self.aslist = X.fresh(BArr, self.name + '_aslist')


class Ref(Val):
    """the object stored under D[key] at the time of the read"""
    def __init__(self, view, key):
        self.view, self.key = view, key

    def truth(self, X):
        c = self.view.content[self.key]
        return z3.If(self.view.aslist[self.key], z3.Length(c) > 0, item_truthy(c[0]))


class Wrapped(Val):
    """[el] where el = D[key]: the new list object; once stored under D[key] it is the stored list"""
    def __init__(self, ref):
        self.ref = ref
        self.stored = False


class SetModel(Val):
    mutable = True

    def __init__(self, X, name):
        self.name = name
        self.member = z3.K(StrSort, z3.BoolVal(False))

    def clone(self, memo):
        return self


class DictOps:
    """interpretation of the dictionary operations of the real code on View / SetModel"""

    def init_ids(self):
        self._ids = {}

    def builtin_hook(self, X, name, args, kwargs):
        if name == 'id' and len(args) == 1 and isinstance(args[0], (View, SetModel)):
            return VInt(self._ids.setdefault(id(args[0]), 1000 + len(self._ids)))
        return None

    def construct_hook(self, X, pyclass, args, kwargs):
        if pyclass is set and not args:
            s = SetModel(X, f'set{len(self.sets)}')
            self.sets.append(s)
            return s
        return None

    def contains_hook(self, X, container, item):
        if isinstance(container, View) and isinstance(item, VStr):
            return z3.Length(container.content[item.t]) > 0
        if isinstance(container, SetModel) and isinstance(item, VStr):
            return container.member[item.t]
        return None

    def getitem_hook(self, X, obj, key):
        if isinstance(obj, View) and isinstance(key, VStr):
            if not X.decide(z3.Length(obj.content[key.t]) > 0):
                X.raise_(KeyError, 'key')
            return Ref(obj, key.t)
        return None

    def setitem_hook(self, X, obj, key, val):
        if not (isinstance(obj, View) and isinstance(key, VStr)):
            return False
        k = key.t
        if isinstance(val, ItemVal):
            obj.content = z3.Store(obj.content, k, z3.Unit(val.t))
            obj.aslist = z3.Store(obj.aslist, k, z3.BoolVal(False))
            return True
        if isinstance(val, VList) and len(val.items) == 1 and isinstance(val.items[0], Ref):
            r = val.items[0]
            # the new list holds the object that was stored under r.key of r.view
            same = z3.And(z3.BoolVal(r.view is obj), r.key == k)
            X.prove('store.wrapped_value_goes_back_under_its_own_key', same)
            obj.nested = z3.Or(obj.nested, obj.aslist[k], z3.Length(obj.content[k]) != 1)
            obj.aslist = z3.Store(obj.aslist, k, z3.BoolVal(True))
            self.wrapped[id(val)] = (obj, k)
            return True
        raise Unsupported('item store of this value into a form view')

    def method_hook(self, X, obj, name, args, kwargs):
        if name == 'get' and isinstance(obj, View) and len(args) in (1, 2) and isinstance(args[0], VStr):
            if X.decide(z3.Length(obj.content[args[0].t]) > 0):
                return Ref(obj, args[0].t)
            return args[1] if len(args) == 2 else NONE
        if name == 'add' and isinstance(obj, SetModel) and len(args) == 1 and isinstance(args[0], VStr):
            obj.member = z3.Store(obj.member, args[0].t, z3.BoolVal(True))
            return NONE
        if name == 'append' and len(args) == 1 and isinstance(args[0], ItemVal):
            if isinstance(obj, Ref):
                v, k = obj.view, obj.key
                v.scalar_append = z3.Or(v.scalar_append, z3.Not(v.aslist[k]))
                v.content = z3.Store(v.content, k, z3.Concat(v.content[k], z3.Unit(args[0].t)))
                return NONE
            if isinstance(obj, VList) and id(obj) in self.wrapped:
                v, k = self.wrapped[id(obj)]
                v.content = z3.Store(v.content, k, z3.Concat(v.content[k], z3.Unit(args[0].t)))
                return NONE
            if isinstance(obj, VList):
                X.prove('append.to_the_stored_list', z3.BoolVal(False))
                return NONE
        return None


def lst_consistent(view, st):
    k = z3.String('k!inv')
    return z3.ForAll([k], st.member[k] == (z3.Length(view.content[k]) >= 2))


class CollectMultipart(DictOps, Contract):
    props = ('C07', 'C12')
    file = 'ombott/request_pkg/body_mixin.py'
    qualname = 'BodyMixin._collect_multipart'
    assumptions = (
        'post, forms and files are three distinct, initially empty mappings (created by _forms_factory in POST: VC BodyMixin.POST)',
        'FieldStorage.iter_items yields the fields of the body in submission order or raises a RequestError (its contract)',
        'an item is an upload iff it carries a non-empty filename (the convention of the code; a part with filename="" is a text field)',
        'markup.error, when set, is an exception raised by BodyMarkuper.iter_markup, i.e. a BodyParsingError subclass (MultipartMarkup.parse '
        'stores whatever was raised; that nothing else is raised there is decided by the bounded check of C12 only)',
        'dict semantics: a key is present iff something was stored under it; `el = d[k] = [el]` stores the new list under d[k] '
        'and binds el to that same list object',
    )
    expected_labels = ('loop0.inv_preserved.post_is_every_item_in_order', 'loop0.inv_preserved.forms_is_every_text_item_in_order',
                       'loop0.inv_preserved.files_is_every_upload_in_order', 'loop0.inv_preserved.repeated_names_one_flat_list',
                       'upload.built_from_this_item', 'post.complete_when_exhausted', 'raise.only_request_errors',
                       'store.wrapped_value_goes_back_under_its_own_key')
    max_paths = 400

    def pre(self, X):
        g = X.globals
        self.init_ids()
        self.sets = []
        self.wrapped = {}
        self.lsets = {}
        self.ReqErr = g['RequestError']
        self.ParseErr = g['BodyParsingError']
        d = X.driver
        self.f_name = d.uf('item_name', IntSort, StrSort)
        self.f_isfile = d.uf('item_is_upload', IntSort, z3.BoolSort())
        self.f_text = d.uf('item_text_value', IntSort, Item)
        self.f_upload = d.uf('upload_of_item', IntSort, Item)
        self.specs = {n: d.uf('spec_' + n, IntSort, CArr) for n in ('post', 'forms', 'files')}
        self.views = {n: View(X, n) for n in ('post', 'forms', 'files')}
        self.idx = z3.IntVal(0)
        self.n_upload_built = 0
        self.exhausted = False
        self.cur = None
        for n in self.specs:
            X.assume(self.specs[n](0) == z3.K(StrSort, z3.Empty(ISeq)))
        self.markup_kind = X.choose(3, 'markup: none | with error | clean')
        if self.markup_kind == 0:
            markup = NONE
        else:
            self.stored_error = VExc(self.ParseErr, 'stored') if self.markup_kind == 1 else None
            markup = VObj('Markup', {'error': self.stored_error if self.markup_kind == 1 else NONE,
                                     'markups': VOpaque(X.fresh(PyObj, 'markups'), 'list')})
        body = VObj('Body', {'ombott_markup': markup})
        me = VObj('Request', {'config': VObj('Config', {'max_memfile_size': X.fresh_int('max_memfile')})})
        c = self

        def iter_items(X, args, kwargs):
            X.prove('call.iter_items_over_this_body', z3.BoolVal(len(args) == 3 and args[0] is body))
            return ItemGen(c)

        def file_upload(X, args, kwargs):
            it = c.cur
            ok = (it is not None and len(args) == 4 and not kwargs and args[0] is it.fields['file']
                  and args[1] is it.fields['name'] and args[2] is it.fields['filename'] and args[3] is it.fields['headers'])
            X.prove('upload.built_from_this_item', z3.BoolVal(bool(ok)))
            c.n_upload_built += 1
            return ItemVal(c.f_upload(c.cur_i))
        self.stubs = {'FieldStorage.iter_items': iter_items, 'FileUpload': file_upload}
        return {'self': me, 'body': body, 'post': self.views['post'], 'forms': self.views['forms'], 'files': self.views['files']}

    # ---------------------------------------------------------------- specification (recursive definition, unfolded at i)
    def item_of(self, i):
        return z3.If(self.f_isfile(i), self.f_upload(i), self.f_text(i))

    def belongs(self, n, i):
        return {'post': z3.BoolVal(True), 'forms': z3.Not(self.f_isfile(i)), 'files': self.f_isfile(i)}[n]

    def unfold(self, X, i):
        for n, sp in self.specs.items():
            prev = sp(i)
            k = self.f_name(i)
            X.assume(sp(i + 1) == z3.If(self.belongs(n, i),
                                       z3.Store(prev, k, z3.Concat(prev[k], z3.Unit(self.item_of(i)))), prev))

    # ---------------------------------------------------------------- loop 0: the items
    def _inv(self, X):
        i = self.idx
        out = [('index', i >= 0)]
        labels = {'post': 'post_is_every_item_in_order', 'forms': 'forms_is_every_text_item_in_order',
                  'files': 'files_is_every_upload_in_order'}
        for n, v in self.views.items():
            out.append((labels[n], v.content == self.specs[n](i)))
        flat = []
        for n, v in self.views.items():
            st = self._set_of(v)
            if st is None:
                flat.append(z3.BoolVal(False))
                continue
            flat += [st.member == v.aslist, lst_consistent(v, st), z3.Not(v.nested), z3.Not(v.scalar_append)]
        out.append(('repeated_names_one_flat_list', z3.And(*flat)))
        return out

    def _set_of(self, view):
        # the set created for this view in the `listified` display: by construction order post, forms, files
        return self.lsets.get(view.name)

    @property
    def loop_inv(self):
        return {0: self._inv}

    def before_loop(self, X, k):
        # bind the three sets of the `listified` display to the views through the real lookups
        lst = X.env.get('listified')
        m = {}
        if lst is not None:
            for n, v in self.views.items():
                try:
                    s = X.getitem(lst, self.builtin_hook(X, 'id', [v], {}))
                except (Unsupported, PyRaise):
                    s = None
                if isinstance(s, SetModel):
                    m[n] = s
        if len(set(id(s) for s in m.values())) != 3:
            X.prove('listified.one_set_per_view', z3.BoolVal(False))
        self.lsets = m

    def havoc_override(self, X, k, name):
        # the `listified` display is mutated through its values (the three sets): they are havoced in after_havoc;
        # the display itself (which key maps to which set object) is not changed by the loop: it has no item store
        if name == 'listified' and 'listified' in X.env:
            return X.env['listified']
        return None

    def after_havoc(self, X, k):
        for v in self.views.values():
            v.havoc_state(X)
        for s in self.lsets.values():
            s.member = X.fresh(BArr, s.name + '_member')
        self.idx = X.fresh(IntSort, 'i')
        self.wrapped = {}

    def end_of_body(self, X, k):
        pass

    def after_loop(self, X, k, how):
        pass

    def post(self, X, ret):
        X.prove('post.complete_when_exhausted', z3.BoolVal(self.exhausted and self.markup_kind == 2))
        # with the invariant at exit: every view equals its specification over all items
        for n, v in self.views.items():
            X.prove('post.views_equal_specification', v.content == self.specs[n](self.idx))

    def post_raise(self, X, exc):
        ok = exc.pyclass is not None and issubclass(exc.pyclass, self.ReqErr)
        X.prove('raise.only_request_errors', z3.BoolVal(bool(ok)))
        if self.markup_kind == 0:
            X.prove('raise.no_boundary_is_a_parsing_error', z3.BoolVal(exc.pyclass is self.ParseErr))
        if self.markup_kind == 1:
            X.prove('raise.stored_markup_error_is_raised', z3.BoolVal(exc is self.stored_error))


class ItemGen(Val):
    """FieldStorage.iter_items as a generator: item i | exhausted | RequestError"""
    def __init__(self, c):
        self.c = c

    def next(self, X):
        c = self.c
        k = X.choose(3, 'iter_items: item | exhausted | raises')
        if k == 1:
            c.exhausted = True
            return None
        if k == 2:
            X.raise_(c.ParseErr, 'iter_items')
        i = c.idx
        c.unfold(X, i)
        isfile = X.decide(c.f_isfile(i))
        fn = X.fresh_str('filename')
        if isfile:
            X.assume(z3.Length(fn.t) > 0)
            filename = fn
        else:
            filename = (NONE, VStr(''))[X.choose(2, 'filename None | empty')]
        it = VObj('Field', {'filename': filename, 'name': VStr(c.f_name(i)), 'file': VOpaque(X.fresh(PyObj, 'file'), 'file'),
                            'headers': VOpaque(X.fresh(PyObj, 'headers'), 'headers'), 'value': ItemVal(c.f_text(i))})
        c.cur, c.cur_i = it, i
        c.idx = i + 1
        return it


CONTRACTS = [CollectMultipart()]


# ------------------------------------------------------------------------------------------- parse_qsl.add
IArr = z3.ArraySort(StrSort, Item)


class SeenDict(Val):
    mutable = True

    def clone(self, memo):
        return self


class ListsDict(Val):
    mutable = True

    def clone(self, memo):
        return self


class ListRef(Val):
    """the list object stored under _lists[key]"""
    def __init__(self, c, key):
        self.c, self.key = c, key

    def truth(self, X):
        return z3.Length(self.c.lists_val[self.key]) > 0


class QslAdd(Contract):
    props = ('C18', 'C12')
    file = 'ombott/request_pkg/helpers.py'
    qualname = 'parse_qsl.add'
    assumptions = (
        'representation invariant of (_seen, _lists, target) at the key of the call holds on entry (it is established by the empty '
        'dictionaries parse_qsl creates and re-established by every call: this contract); it is pointwise in the key and the call '
        'changes the three mappings at its own key only (frame obligations), so it holds for all keys after the call',
        'setitem is the __setitem__ of the target mapping; the list handed to it is kept by reference (dict semantics)',
    )
    expected_labels = ('post.first_value_stored_as_it_is', 'post.repeated_key_is_one_list_in_order', 'post.target_sees_the_list_object',
                       'post.bookkeeping_consistent', 'frame.only_this_key_changes')

    def pre(self, X):
        self.content = X.fresh(CArr, 'content')
        self.seen_has, self.seen_val = X.fresh(BArr, 'seen_has'), X.fresh(IArr, 'seen_val')
        self.lists_has, self.lists_val = X.fresh(BArr, 'lists_has'), X.fresh(CArr, 'lists_val')
        self.tgt_has, self.tgt_scalar, self.tgt_alias = X.fresh(BArr, 'tgt_has'), X.fresh(IArr, 'tgt_scalar'), X.fresh(BArr, 'tgt_alias')
        self.old = {n: getattr(self, n) for n in ('seen_has', 'seen_val', 'lists_has', 'lists_val', 'tgt_has', 'tgt_scalar', 'tgt_alias')}
        self.k = X.fresh(StrSort, 'k')
        self.v = X.fresh(Item, 'v')
        self.newlists = {}
        X.assume(self.inv_at(self.k, self.content[self.k]))
        c = self

        def setitem(X, args, kwargs):
            key, val = args
            if not isinstance(key, VStr):
                raise Unsupported('setitem key')
            if isinstance(val, ItemVal):
                c.tgt_has = z3.Store(c.tgt_has, key.t, z3.BoolVal(True))
                c.tgt_alias = z3.Store(c.tgt_alias, key.t, z3.BoolVal(False))
                c.tgt_scalar = z3.Store(c.tgt_scalar, key.t, val.t)
                return NONE
            if isinstance(val, VList) and id(val) in c.newlists:
                X.prove('setitem.list_under_its_own_key', c.newlists[id(val)] == key.t)
                c.tgt_has = z3.Store(c.tgt_has, key.t, z3.BoolVal(True))
                c.tgt_alias = z3.Store(c.tgt_alias, key.t, z3.BoolVal(True))
                return NONE
            if isinstance(val, ListRef):
                X.prove('setitem.list_under_its_own_key', val.key == key.t)
                c.tgt_has = z3.Store(c.tgt_has, key.t, z3.BoolVal(True))
                c.tgt_alias = z3.Store(c.tgt_alias, key.t, z3.BoolVal(True))
                return NONE
            X.prove('setitem.value_is_the_item_or_the_shared_list', z3.BoolVal(False))
            return NONE
        return {'k': VStr(self.k), 'v': ItemVal(self.v), '_seen': SeenDict(), '_lists': ListsDict(),
                'setitem': VFunc(setitem, 'setitem')}

    def inv_at(self, k, c):
        n = z3.Length(c)
        return z3.And(
            self.seen_has[k] == (n >= 1), z3.Implies(n >= 1, self.seen_val[k] == c[0]),
            self.lists_has[k] == (n >= 2), z3.Implies(n >= 2, self.lists_val[k] == c),
            self.tgt_has[k] == (n >= 1), self.tgt_alias[k] == (n >= 2), z3.Implies(n == 1, self.tgt_scalar[k] == c[0]))

    # ---- the two bookkeeping dictionaries
    def method_hook(self, X, obj, name, args, kwargs):
        if isinstance(obj, ListsDict) and name == 'get' and len(args) == 1 and isinstance(args[0], VStr):
            if X.decide(self.lists_has[args[0].t]):
                return ListRef(self, args[0].t)
            return NONE
        if isinstance(obj, SeenDict) and name == 'get' and len(args) in (1, 2) and isinstance(args[0], VStr):
            if X.decide(self.seen_has[args[0].t]):
                return ItemVal(self.seen_val[args[0].t])
            return args[1] if len(args) == 2 else NONE
        if isinstance(obj, ListRef) and name == 'append' and len(args) == 1 and isinstance(args[0], ItemVal):
            self.lists_val = z3.Store(self.lists_val, obj.key, z3.Concat(self.lists_val[obj.key], z3.Unit(args[0].t)))
            return NONE
        if isinstance(obj, SeenDict) and name == 'setdefault' and len(args) == 2 and isinstance(args[0], VStr) \
                and isinstance(args[1], ItemVal):
            kk = args[0].t
            if X.decide(self.seen_has[kk]):
                return ItemVal(self.seen_val[kk])
            self.seen_has = z3.Store(self.seen_has, kk, z3.BoolVal(True))
            self.seen_val = z3.Store(self.seen_val, kk, args[1].t)
            return args[1]
        return None

    def contains_hook(self, X, container, item):
        if isinstance(container, SeenDict) and isinstance(item, VStr):
            return self.seen_has[item.t]
        if isinstance(container, ListsDict) and isinstance(item, VStr):
            return self.lists_has[item.t]
        return None

    def getitem_hook(self, X, obj, key):
        if isinstance(obj, SeenDict) and isinstance(key, VStr):
            if not X.decide(self.seen_has[key.t]):
                X.raise_(KeyError, 'key')
            return ItemVal(self.seen_val[key.t])
        if isinstance(obj, ListsDict) and isinstance(key, VStr):
            if not X.decide(self.lists_has[key.t]):
                X.raise_(KeyError, 'key')
            return ListRef(self, key.t)
        return None

    def setitem_hook(self, X, obj, key, val):
        if isinstance(obj, ListsDict) and isinstance(key, VStr) and isinstance(val, VList) \
                and all(isinstance(i, ItemVal) for i in val.items):
            seq = z3.Empty(ISeq)
            for i in val.items:
                seq = z3.Concat(seq, z3.Unit(i.t)) if val.items.index(i) else z3.Unit(i.t)
            self.lists_has = z3.Store(self.lists_has, key.t, z3.BoolVal(True))
            self.lists_val = z3.Store(self.lists_val, key.t, seq)
            self.newlists[id(val)] = key.t
            return True
        if isinstance(obj, SeenDict) and isinstance(key, VStr) and isinstance(val, ItemVal):
            self.seen_has = z3.Store(self.seen_has, key.t, z3.BoolVal(True))
            self.seen_val = z3.Store(self.seen_val, key.t, val.t)
            return True
        return False

    def post(self, X, ret):
        k = self.k
        c0 = self.content[k]
        c1 = z3.Concat(c0, z3.Unit(self.v))
        n1 = z3.Length(c1)
        X.prove('post.first_value_stored_as_it_is',
                z3.Implies(n1 == 1, z3.And(self.tgt_has[k], z3.Not(self.tgt_alias[k]), self.tgt_scalar[k] == self.v)))
        X.prove('post.repeated_key_is_one_list_in_order',
                z3.Implies(n1 >= 2, z3.And(self.lists_has[k], self.lists_val[k] == c1)))
        X.prove('post.target_sees_the_list_object', z3.Implies(n1 >= 2, z3.And(self.tgt_has[k], self.tgt_alias[k])))
        X.prove('post.bookkeeping_consistent', self.inv_at(k, c1))
        fr = []
        for n, old in self.old.items():
            new = getattr(self, n)
            fr.append(new == z3.Store(old, k, new[k]))
        X.prove('frame.only_this_key_changes', z3.And(*fr))

    def post_raise(self, X, exc):
        X.prove('raises.nothing', z3.BoolVal(False))


CONTRACTS += [QslAdd()]
