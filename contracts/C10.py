"""C10 (and the accessor part of C08) — ts_props: the thread-local property accessors and the wrapped __init__.

Heap model: H[object, attribute name] -> object.  getattr/setattr/delattr read and write H; threading.local() allocates a
fresh object (different from every object reachable before).  `store_name` and the property name `k` are the constants
the class decorator closes over; any OTHER closure variable the accessor might use (e.g. a `local_store` cell shared by all
instances of the class - the defect repaired by commit 3010a95) is bound to an arbitrary object, so that using it instead
of the instance's own store fails the postcondition.

  fget(s)      == H[H[s, store_name], k]                      and H unchanged
  fset(s, v)   H' == H[(H[s, store_name], k) := v]            nothing else changes (in particular no other instance's store)
  fdel(s)      H' == H[(H[s, store_name], k) := <deleted>]
  init_wrapper(self, *a, **kw)
               store = H[self, store_name] if set, else a fresh threading.local() now stored at (self, store_name);
               before the class's own __init__ runs, H' differs from H only at (self, store_name) and at (store, p) for the
               listed properties p, which are None; no nonlocal / global write (no state shared between instances)
Ownership follows: for instances s1 != s2 whose stores differ (each store is allocated fresh per instance), fset(s1, v)
leaves fget(s2) unchanged - stated and proved as `relational.other_instance_unaffected`.
"""
import ast
import z3
from pyvc.engine import (Contract, Val, VInt, VBool, VStr, VObj, VFunc, VOpaque, VTuple, VNone, NONE, Unsupported, PyObj, StrSort)

HeapSort = z3.ArraySort(PyObj, StrSort, PyObj)


class Heap(Val):
    def __init__(self, t):
        self.t = t


class _HeapContract(Contract):
    props = ('C10', 'C08')
    file = 'ombott/common_helpers.py'
    assumptions = ('precondition of the decorator: store_name is not one of the listed property names',
                   'heap model H[object, name]; getattr/setattr/delattr are plain attribute access on these objects '
                   '(threading.local resolves per thread: one H per thread, which is what makes the store thread-local)',
                   'threading.local() returns a fresh object')

    def heap_pre(self, X):
        d = X.driver
        self.H0 = X.fresh(HeapSort, 'H')
        X.setg('heap', Heap(self.H0))
        self.store_name = X.fresh(StrSort, 'store_name')
        self.k = X.fresh(StrSort, 'k')
        self.none_obj = X.fresh(PyObj, 'None')
        self.deleted = X.fresh(PyObj, 'deleted')
        self.is_none = d.uf('is_none', PyObj, z3.BoolSort())
        X.assume(self.is_none(self.none_obj))
        # a closure cell shared by all instances, should the code use one
        self.shared_cell = X.fresh(PyObj, 'shared_closure_store')

    def H(self, X):
        return X.g('heap').t

    def getattr_hook(self, X, obj, attr):
        if isinstance(obj, VOpaque) and attr == '__class__':
            return VOpaque(X.driver.uf('class_of', PyObj, PyObj)(obj.t), 'class')
        return None

    def builtin_hook(self, X, name, args, kwargs):
        unw = lambda v: self.none_obj if isinstance(v, VNone) else v.t   # noqa: E731
        if name in ('getattr', 'setattr', 'delattr') and not isinstance(args[0], VOpaque):
            args = [VOpaque(X.fresh(PyObj, 'some_other_object'), 'foreign')] + list(args[1:])
        if name == 'getattr':
            o, n = args[0], args[1]
            v = z3.Select(self.H(X), o.t, n.t)
            if len(args) == 3:
                # getattr(o, n, default): the attribute may be unset
                unset = X.driver.uf('attr_unset', PyObj, StrSort, z3.BoolSort())
                if X.decide(unset(o.t, n.t)):
                    return args[2]
            return VOpaque(v, 'attr')
        if name == 'setattr':
            o, n, v = args
            X.setg('heap', Heap(z3.Store(self.H(X), o.t, n.t, unw(v))))
            X.record(write=(o.t, n.t))
            return NONE
        if name == 'delattr':
            o, n = args
            X.setg('heap', Heap(z3.Store(self.H(X), o.t, n.t, self.deleted)))
            X.record(write=(o.t, n.t))
            return NONE
        return None

    def nonlocal_hook(self, X, names):
        X.prove('frame.no_nonlocal_write', z3.BoolVal(False))

    def post_raise(self, X, exc):
        X.prove('raises.nothing', z3.BoolVal(False))


class _Accessor(_HeapContract):
    def pre(self, X):
        self.heap_pre(X)
        self.s = X.fresh(PyObj, 's')
        self.v = X.fresh(PyObj, 'v')
        self.other = X.fresh(PyObj, 's2')
        p = {'s': VOpaque(self.s, 'instance'), 'store_name': VStr(self.store_name), 'k': VStr(self.k),
             'local_store': VOpaque(self.shared_cell, 'shared')}
        if self.qualname.endswith('fset'):
            p['v'] = VOpaque(self.v, 'value')
        return p

    def my_store(self):
        return z3.Select(self.H0, self.s, self.store_name)


class Fget(_Accessor):
    qualname = 'ts_props.wrapper.make_prop.fget'
    expected_labels = ('post.reads_own_store', 'post.heap_unchanged')

    def post(self, X, ret):
        X.prove('post.reads_own_store', ret.t == z3.Select(self.H0, self.my_store(), self.k) if isinstance(ret, VOpaque) else z3.BoolVal(False))
        X.prove('post.heap_unchanged', self.H(X) == self.H0)


class Fset(_Accessor):
    qualname = 'ts_props.wrapper.make_prop.fset'
    expected_labels = ('post.writes_exactly_own_cell', 'relational.other_instance_unaffected')

    def post(self, X, ret):
        X.prove('post.writes_exactly_own_cell', self.H(X) == z3.Store(self.H0, self.my_store(), self.k, self.v))
        # ownership: another instance with another store reads the same value before and after
        st2_before = z3.Select(self.H0, self.other, self.store_name)
        st2_after = z3.Select(self.H(X), self.other, self.store_name)
        distinct = z3.And(self.other != self.s, st2_before != self.my_store(), self.my_store() != self.other)
        X.prove('relational.other_instance_unaffected',
                z3.Implies(distinct, z3.And(st2_after == st2_before,
                                            z3.Select(self.H(X), st2_after, self.k) == z3.Select(self.H0, st2_before, self.k))))


class Fdel(_Accessor):
    qualname = 'ts_props.wrapper.make_prop.fdel'
    expected_labels = ('post.deletes_exactly_own_cell',)

    def post(self, X, ret):
        X.prove('post.deletes_exactly_own_cell', self.H(X) == z3.Store(self.H0, self.my_store(), self.k, self.deleted))


class InitWrapper(_HeapContract):
    qualname = 'ts_props.wrapper.init_wrapper'
    expected_labels = ('post.store_belongs_to_the_instance', 'post.listed_properties_reset_to_none',
                       'post.nothing_else_written', 'call.class_init_with_same_arguments')

    def pre(self, X):
        self.heap_pre(X)
        self.me = X.fresh(PyObj, 'self')
        self.fresh_local = X.fresh(PyObj, 'fresh_threading_local')
        self.in_props = X.driver.uf('in_props', StrSort, z3.BoolSort())   # membership in the decorator's props tuple
        X.assume(z3.Not(self.in_props(self.store_name)))   # precondition: the store slot is not itself a listed property
        self.init_called = []
        c = self

        def mk_local(X, args, kwargs):
            X.record(allocated=c.fresh_local)
            return VOpaque(c.fresh_local, 'local')

        def cls_init(X, args, kwargs):
            c.init_called.append((args, kwargs, c.H(X)))
            return NONE
        self.stubs = {'threading.local': mk_local, 'cls_init': cls_init}
        self.a = VTuple([VOpaque(X.fresh(PyObj, 'a0'), 'a0')])
        self.kw = VObj('StrDict', {'kw0': VOpaque(X.fresh(PyObj, 'kw0'), 'kw0')})
        return {'self': VOpaque(self.me, 'instance'), 'a': self.a, 'kw': self.kw, 'store_name': VStr(self.store_name),
                'props': VOpaque(X.fresh(PyObj, 'props_tuple'), 'props'), 'cls_init': VFunc(cls_init, 'cls_init'),
                'local_store': VOpaque(self.shared_cell, 'shared')}

    def genexp_hook(self, X, node):
        # exactly:  [setattr(<store>, k, None) for k in props]
        try:
            (g,) = node.generators
            call = node.elt
            ok = (not g.ifs and isinstance(g.target, ast.Name) and isinstance(g.iter, ast.Name) and g.iter.id == 'props'
                  and isinstance(call, ast.Call) and isinstance(call.func, ast.Name) and call.func.id == 'setattr'
                  and len(call.args) == 3 and isinstance(call.args[1], ast.Name) and call.args[1].id == g.target.id
                  and isinstance(call.args[2], ast.Constant) and call.args[2].value is None)
        except Exception:
            ok = False
        if not ok:
            raise Unsupported('list comprehension is not the reset of the listed properties')
        store = X.eval(call.args[0])
        o, n = z3.Const('o!h', PyObj), z3.Const('n!h', StrSort)
        H = self.H(X)
        H2 = X.fresh(HeapSort, 'H_after_reset')
        inprops = self.in_props(n)
        X.assume(z3.ForAll([o, n], z3.Select(H2, o, n) == z3.If(z3.And(o == store.t, inprops), self.none_obj, z3.Select(H, o, n))))
        X.setg('heap', Heap(H2))
        X.record(reset_store=store.t)
        return VOpaque(X.fresh(PyObj, 'list_of_none'), 'list')

    def post(self, X, ret):
        if len(self.init_called) != 1:
            X.prove('call.class_init_with_same_arguments', z3.BoolVal(False))
            return
        args, kwargs, Hc = self.init_called[0]
        X.prove('call.class_init_with_same_arguments',
                z3.BoolVal(len(args) == 2 and isinstance(args[0], VOpaque) and args[1] is self.a.items[0]
                           and kwargs.get('kw0') is self.kw.fields['kw0']) if len(args) == 2 else z3.BoolVal(False))
        X.prove('call.class_init_on_self', args[0].t == self.me if args and isinstance(args[0], VOpaque) else z3.BoolVal(False))
        unset = X.driver.uf('attr_unset', PyObj, StrSort, z3.BoolSort())
        had = z3.And(z3.Not(unset(self.me, self.store_name)),
                     z3.Not(self.is_none(z3.Select(self.H0, self.me, self.store_name))))
        store = z3.If(had, z3.Select(self.H0, self.me, self.store_name), self.fresh_local)
        X.prove('post.store_belongs_to_the_instance', z3.Select(Hc, self.me, self.store_name) == store)
        n = z3.Const('n!q', StrSort)
        o = z3.Const('o!q', PyObj)
        inprops = self.in_props(n)
        X.prove('post.listed_properties_reset_to_none',
                z3.ForAll([n], z3.Implies(z3.And(inprops, z3.Not(z3.And(store == self.me, n == self.store_name))),
                                          z3.Select(Hc, store, n) == self.none_obj)))
        X.prove('post.nothing_else_written',
                z3.ForAll([o, n], z3.Implies(z3.And(z3.Not(z3.And(o == self.me, n == self.store_name)),
                                                    z3.Not(z3.And(o == store, inprops))),
                                             z3.Select(Hc, o, n) == z3.Select(self.H0, o, n))))


CONTRACTS = [Fget(), Fset(), Fdel(), InitWrapper()]
