"""BodyMixin._body / body / content_length / chunked (C04 wiring, C12/C13 mapping).

_body   reads wsgi.input.read through _body_read with buff_size = config.max_memfile_size, the request's own content_length
        and chunked flags and config.max_body_size; a multipart content type makes the reader feed a MultipartMarkup built
        from the boundary parameter; EVERY RequestError (reader or markup construction) goes through _raise(err, RequestError);
        on success the markup is attached, environ['wsgi.input'] is replaced by the buffered copy and that copy is rewound.
body    returns the cached copy, rewound on every access.
content_length   int(CONTENT_LENGTH or -1)       chunked   'chunked' in lower(HTTP_TRANSFER_ENCODING)
"""
import z3
from pyvc.engine import (Contract, Val, VInt, VBool, VStr, VBytes, VObj, VFunc, VOpaque, VClass, VExc, VNone, NONE, Unsupported,
                         PyObj, BytesSort, StrSort)


def raise_mapped(X):
    from pyvc.engine import PyRaise
    raise PyRaise(VExc(None, tag='mapped'))


class Body_(Contract):
    props = ('C04', 'C05', 'C12', 'C13')
    file = 'ombott/request_pkg/body_mixin.py'
    qualname = 'BodyMixin._body'
    assumptions = ('callee contract of _body_read as proved (contracts/body_read.py): returns the buffered body or raises '
                   'BodySizeError / BodyParsingError; MultipartMarkup(boundary) may raise InvalidBoundaryError (a BodyParsingError)',
                   'callee contract of _raise as proved: never returns, raises the mapped error',
                   'the regular expression MULTIPART_BOUNDARY_PATT is a library call (opaque match object)')
    expected_labels = ('call.reader_wired_to_request_and_config', 'post.input_replaced_by_rewound_copy', 'raise.only_mapped_errors',
                       'raise.request_errors_through_the_error_map', 'raise.refused_body_stays_refused',
                       'raise.failure_remembered_nothing_cached')

    def pre(self, X):
        g = X.globals
        self.ReqErr = g['RequestError']
        self.is_mp = X.choose(2, 'multipart content type?') == 1
        self.cl, self.maxmem = X.fresh(z3.IntSort(), 'content_length'), X.fresh(z3.IntSort(), 'max_memfile_size')
        self.chunked = X.fresh(z3.BoolSort(), 'chunked')
        self.maxbody = VInt(X.fresh(z3.IntSort(), 'max_body_size'))
        self.read_fn = VFunc(None, 'wsgi.input.read')
        self.body = VObj('Body', {})
        self.markup = VObj('Markup', {})
        self.env_store = {}
        self.seeked = []
        self.via_map = False
        self.remembered = None
        self.reader_called = False
        c = self

        def patt_match(X, args, kwargs):
            X.prove('call.boundary_from_content_type', z3.BoolVal(isinstance(args[-1], VStr)))
            return VObj('Match', {'boundary': X.fresh_str('boundary')}) if c.is_mp else NONE

        def env_get(X, args, kwargs):
            key = [a for a in args if isinstance(a, VStr)][0]
            k = z3.simplify(key.t).as_string() if z3.is_string_value(z3.simplify(key.t)) else None
            if k == 'ombott.request.body_error':
                # a failure remembered by an earlier access of this request?
                if X.choose(2, 'an earlier access of this request failed?') == 1:
                    c.remembered = VExc(g['BodyParsingError'], tag='remembered')
                    return c.remembered
                return NONE
            return X.fresh_str('CONTENT_TYPE')

        def mk_markup(X, args, kwargs):
            if X.choose(2, 'boundary acceptable?') == 1:
                X.raise_(g['InvalidBoundaryError'] if 'InvalidBoundaryError' in g else g['BodyParsingError'], 'boundary')
            return c.markup

        def body_read(X, args, kwargs):
            ok = (len(args) == 2 and args[0] is c.read_fn and isinstance(args[1], VInt) and
                  set(kwargs) == {'content_length', 'chunked', 'max_body_size', 'markup'})
            X.prove('call.reader_wired_to_request_and_config',
                    z3.And(z3.BoolVal(ok), args[1].t == c.maxmem, kwargs['content_length'].t == c.cl, kwargs['chunked'].t == c.chunked,
                           z3.BoolVal(kwargs['max_body_size'] is c.maxbody),
                           z3.BoolVal(kwargs['markup'] is (c.markup if c.is_mp else NONE) or (not c.is_mp and isinstance(kwargs['markup'], VNone))))
                    if ok else z3.BoolVal(False))
            c.reader_called = True
            k = X.choose(3, '_body_read: ok | BodySizeError | BodyParsingError')
            if k == 1:
                X.raise_(g['BodySizeError'], 'reader')
            if k == 2:
                X.raise_(g['BodyParsingError'], 'reader')
            return c.body

        def _raise(X, args, kwargs):
            e, cls = args[1], args[2]
            X.prove('raise.request_errors_through_the_error_map',
                    z3.BoolVal(isinstance(e, VExc) and e.pyclass is not None and issubclass(e.pyclass, c.ReqErr)
                               and isinstance(cls, VClass) and cls.pyclass is c.ReqErr))
            c.via_map = True
            c.raised_err = e
            raise_mapped(X)

        def seek(X, args, kwargs):
            c.seeked.append((args[0], args[1]))
            return VInt(0)
        self.stubs = {'MULTIPART_BOUNDARY_PATT.match': patt_match, 'Environ.get': env_get, 'MultipartMarkup': mk_markup,
                      '_body_read': body_read, 'Req._raise': _raise, 'Body.seek': seek,
                      'Match.group': lambda X, a, k: a[0].fields['boundary']}
        inp = VObj('Input', {'read': self.read_fn})
        self.env = VObj('Environ', {})
        me = VObj('Req', {'environ': self.env, 'config': VObj('Config', {'max_memfile_size': VInt(self.maxmem), 'max_body_size': self.maxbody}),
                          'content_length': VInt(self.cl), 'chunked': VBool(self.chunked)})
        self.inp = inp
        return {'self': me}

    def getitem_hook(self, X, obj, key):
        if obj is self.env and z3.simplify(key.t).as_string() == 'wsgi.input':
            return self.inp
        return None

    def setitem_hook(self, X, obj, key, val):
        if obj is self.env:
            self.env_store[z3.simplify(key.t).as_string()] = val
            return True
        return False

    def post(self, X, ret):
        ok = (ret is self.body and self.env_store.get('wsgi.input') is self.body and
              self.seeked and self.seeked[-1][0] is self.body and z3.is_int_value(z3.simplify(self.seeked[-1][1].t))
              and z3.simplify(self.seeked[-1][1].t).as_long() == 0 and
              self.body.fields.get('ombott_markup') is (self.markup if self.is_mp else self.body.fields.get('ombott_markup')))
        X.prove('post.input_replaced_by_rewound_copy', z3.BoolVal(bool(ok)))
        X.prove('post.markup_attached', z3.BoolVal('ombott_markup' in self.body.fields and
                                                   (self.body.fields['ombott_markup'] is self.markup) == self.is_mp))

    def post_raise(self, X, exc):
        X.prove('raise.only_mapped_errors', z3.BoolVal(exc.tag == 'mapped' and self.via_map))
        if self.remembered is not None:
            # a refused body stays refused: nothing is read again, the remembered failure is raised again
            X.prove('raise.refused_body_stays_refused',
                    z3.BoolVal(not self.reader_called and getattr(self, 'raised_err', None) is self.remembered))
        else:
            # a fresh failure is remembered for later accesses, and nothing is cached as if it were the body
            X.prove('raise.failure_remembered_nothing_cached',
                    z3.BoolVal(self.env_store.get('ombott.request.body_error') is getattr(self, 'raised_err', None)
                               and 'wsgi.input' not in self.env_store and 'ombott.request.body' not in self.env_store))


class ContentLength(Contract):
    props = ('C04',)
    file = 'ombott/request_pkg/body_mixin.py'
    qualname = 'BodyMixin.content_length'
    assumptions = ('int(text) partial function',)
    expected_labels = ('post.declared_length_or_minus_one',)

    def pre(self, X):
        self.k = X.choose(3, 'CONTENT_LENGTH: absent | empty | text')
        self.text = X.fresh_str('CONTENT_LENGTH')
        if self.k == 2:
            X.assume(z3.Length(self.text.t) > 0)
        c = self

        def env_get(X, args, kwargs):
            X.prove('env.key', args[-1].t == z3.StringVal('CONTENT_LENGTH') if len(args) == 2 else z3.BoolVal(False))
            return [NONE, VStr(''), c.text][c.k]
        self.stubs = {'Environ.get': env_get}
        return {'self': VObj('Req', {'environ': VObj('Environ', {})})}

    def post(self, X, ret):
        val = X.driver.uf('int_val_10_s', StrSort, z3.IntSort())
        X.prove('post.declared_length_or_minus_one', ret.t == (val(self.text.t) if self.k == 2 else -1))

    def post_raise(self, X, exc):
        # int() of a non-numeric header: ValueError (a malformed Content-Length is the server's business, see DESIGN)
        X.prove('raise.only_for_a_non_numeric_header', z3.BoolVal(exc.pyclass is ValueError and self.k == 2))


class BodyProp(Contract):
    props = ('C04',)
    file = 'ombott/request_pkg/body_mixin.py'
    qualname = 'BodyMixin.body'
    expected_labels = ('post.cached_copy_rewound',)

    def pre(self, X):
        self.body = VObj('Body', {})
        self.seeked = []
        self.stubs = {'Body.seek': lambda X, a, k: (self.seeked.append(a[1]), VInt(0))[1]}
        return {'self': VObj('Req', {'_body': self.body})}

    def post(self, X, ret):
        ok = ret is self.body and len(self.seeked) == 1 and z3.simplify(self.seeked[0].t).as_long() == 0
        X.prove('post.cached_copy_rewound', z3.BoolVal(ok))


CONTRACTS = [Body_(), ContentLength(), BodyProp()]
