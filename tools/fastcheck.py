#!/usr/bin/env python3-vt
"""fast re-check of ONE stored patch against the deductive part of the current checks (engines A and B only):
  * the contracts of every function whose text (or whose file-level context: decorators, loop shape) the patch changes,
  * every registered frame,
against a scratch copy of /repo with the patch applied.  The bounded engine is NOT run (it does not look at the shape of the code).
usage: fastcheck.py <dir with patch.diff>      prints one line:  FAST <dir> <verdict> {details}
verdicts: failed (a named obligation fails: a seeded change is reported / a harmless one raises an alarm), undecided, clean
The registered checks (check.py) remain the authority; this is the screening pass of tools/screen_all.sh."""
import sys, os, json, glob, importlib, shutil, subprocess, hashlib
sys.path.insert(0, '/verif'); sys.dont_write_bytecode = True
os.environ.setdefault('PYVC_PREFLIGHT_S', '240')
from pyvc import verify
from pyvc.engine import Source, Unsupported
from vlib import registry

d = os.path.abspath(sys.argv[1])
patch = os.path.join(d, 'patch.diff')
S = f'/tmp/ombott-fast-{os.getpid()}'
shutil.rmtree(S, ignore_errors=True); os.makedirs(S); shutil.copytree('/repo/ombott', S + '/ombott')
r = subprocess.run(f'cd {S} && git init -q . && git apply {patch}', shell=True, capture_output=True, text=True)
if r.returncode:
    print('FAST', os.path.relpath(d, '/verif'), 'noapply', r.stderr[:100]); shutil.rmtree(S); sys.exit(0)
shutil.rmtree(S + '/.git')
try:
    # every contract, once
    seen, contracts = set(), []
    for f in sorted(glob.glob('/verif/contracts/*.py')):
        m = os.path.basename(f)[:-3]
        if m in ('__init__', 'streams'):
            continue
        for c in getattr(importlib.import_module('contracts.' + m), 'CONTRACTS', []):
            if id(c) not in seen:
                seen.add(id(c)); contracts.append(c)
    changed_files = {rel for rel in {c.file for c in contracts}
                     if hashlib.sha256(open(os.path.join(S, rel), 'rb').read()).digest() != hashlib.sha256(open(os.path.join('/repo', rel), 'rb').read()).digest()}
    affected = []
    for c in contracts:
        if c.file not in changed_files:
            continue
        try:
            a, b = Source('/repo', c.file, c.qualname), Source(S, c.file, c.qualname)
            import ast
            same = a.sha == b.sha and [ast.unparse(x) for x in a.node.decorator_list] == [ast.unparse(x) for x in b.node.decorator_list]
        except Exception:
            same = False
        if not same:
            affected.append(c)
    known = {o for k in json.load(open('/verif/known_findings.json')).get('findings', json.load(open('/verif/known_findings.json')) if isinstance(json.load(open('/verif/known_findings.json')), list) else []) if isinstance(k, dict) and k.get('status') == 'open' for o in k.get('obligations', [])}
    failed, undec = [], []
    if affected:
        rep = verify.verify(affected, S)
        for o in rep['obligations']:
            if o['name'] in known:
                continue          # a recorded known finding (fails on the unchanged tree too; the check prints KNOWN-FINDING)
            if o['status'] == 'failed':
                (undec if o['function'] in rep.get('restructured', {}) else failed).append(o['name'] + ('' if o['function'] not in rep.get('restructured', {}) else ' [restructured loop]'))
            elif o['status'] in ('undecided', 'vacuous'):
                undec.append(o['name'] + ' ' + o['status'])
        undec.extend(p[:160] for p in rep['problems'])
    frames = sorted({f for cfg in registry.PROPS.values() for f in cfg.get('frames', [])})
    for fr in frames:
        prop = [p for p, cfg in registry.PROPS.items() if fr in cfg.get('frames', [])][0]
        res = importlib.import_module('frames.' + fr).run(S, prop, 'quick')
        for o in res['obligations']:
            if o['status'] == 'failed':
                failed.append('frame:' + o['name'])
            elif o['status'] == 'undecided':
                undec.append('frame:' + o['name'])
        undec.extend('frame:' + str(p)[:120] for p in res.get('problems', []))
    verdict = 'failed' if failed else 'undecided' if undec else 'clean'
    out = {'verdict': verdict, 'contracts_run': [f'{c.qualname}/{type(c).__name__}' for c in affected], 'failed': failed[:8], 'undecided': undec[:6]}
    json.dump(out, open(os.path.join(d, '.fastcheck.json'), 'w'), indent=1)
    print('FAST', os.path.relpath(d, '/verif'), verdict, json.dumps({k: v for k, v in out.items() if k != 'verdict'})[:600], flush=True)
finally:
    shutil.rmtree(S, ignore_errors=True)
