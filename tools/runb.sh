#!/bin/bash
# usage: runb.sh Cxx [tier]
p=$1; t=${2:-quick}
timeout 1200 /venv/bin/python -B /verif/bounded/runner.py $p --tier $t --out /tmp/b_$p.json; echo rc=$?
python3 - <<PY
import json
r=json.load(open('/tmp/b_$p.json'))
print({k:r[k] for k in ('evaluations','distinct_nontrivial','nfailures','wall_s','truncated','exhaustive')}, r['crash'] and str(r['crash'])[:1500])
seen=set()
for f in r['failures']:
    key=(f['failure']['clause'],tuple(f['findings']))
    if key in seen: continue
    seen.add(key)
    print(key, json.dumps(f['case'])[:400], json.dumps(f['failure'])[:500])
PY
