#!/bin/bash
# re-run every seeded change of all rounds against the current checks (own property + recorded cross-property checks)
cd /verif
declare -A EXTRA=( [seeded3/C03_2]="C03 C08" [seeded3/C19_1]="C19 C01" [seeded4/C05_1]="C05 C08" [seeded4/C08_2]="C08 C09" [seeded4/C19_2]="C19 C01" [seeded2/C19_2]="C19 C01" )
for r in seeded seeded2 seeded3 seeded4; do
  for d in $(ls $r | grep '^C[0-9][0-9]_'); do
    p=${d%%_*}
    props=${EXTRA[$r/$d]:-$p}
    ./reseed.sh $r $d $props
  done
  python3 $r/mkmeta.py $r > /dev/null 2>&1
done
echo ALLDONE
