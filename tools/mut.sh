#!/bin/bash
# usage: mut.sh <file-rel> <python-regex-old> <new> -- <command using $M as repo>
# makes a scratch copy of /repo at /tmp/ombott-mut-$$, applies one substitution (must match exactly once), runs the command, removes the copy
M=/tmp/ombott-mut-$$
rm -rf $M; mkdir -p $M; cp -r /repo/ombott $M/ombott
f=$1; old=$2; new=$3; shift 4
python3 - "$M/$f" "$old" "$new" <<'PY'
import sys,re
p,old,new=sys.argv[1:4]
s=open(p).read()
n=s.count(old)
if n!=1:
    print('MUTATION PATTERN COUNT',n); sys.exit(9)
open(p,'w').write(s.replace(old,new))
PY
rc=$?
if [ $rc -eq 0 ]; then export M; VERIF_REPO=$M "$@"; fi
rm -rf $M
