#!/bin/bash
cd /verif
declare -A EXTRA=( [C18_2]="C18 C04" [C19_1]="C19 C01" [C19_2]="C19 C01" )
for d in $(ls seeded6 | grep '^C[0-9][0-9]_'); do
  p=${d%%_*}
  props=${EXTRA[$d]:-$p}
  ./reseed.sh seeded6 $d $props
done
echo ALLDONE
