#!/bin/bash
cd /verif
declare -A EXTRA=( [C05_1]="C05 C12" [C17_1]="C17 C08" [C19_2]="C19 C01 C11" [C19_1]="C19 C01" [C20_2]="C20 C12" [C03_2]="C03 C14" [C18_2]="C18 C13" [C02_2]="C02 C11" [C14_1]="C14" [C15_1]="C15 C14" )
for d in $(ls seeded5 | grep '^C[0-9][0-9]_'); do
  p=${d%%_*}
  props=${EXTRA[$d]:-$p}
  ./reseed.sh seeded5 $d $props
done
echo ALLDONE
