#!/bin/bash
cd /verif
declare -A EXTRA=( [C03_2]="C03 C08" [C19_1]="C19 C01" [C08_2]="C08" )
for d in $(ls seeded3 | grep '^C[0-9][0-9]_'); do
  p=${d%%_*}
  props=${EXTRA[$d]:-$p}
  ./reseed.sh seeded3 $d $props
done
echo ALLDONE
