#!/bin/bash
cd /verif
declare -A EXTRA=( [C05_1]="C05 C08" [C08_2]="C08 C09" [C19_2]="C19 C01" [C11_1]="C11 C01" )
for d in $(ls seeded4 | grep '^C[0-9][0-9]_'); do
  p=${d%%_*}
  props=${EXTRA[$d]:-$p}
  ./reseed.sh seeded4 $d $props
done
echo ALLDONE
