#!/usr/bin/env python3-vt
"""tools/func_props.json: function under contract -> the properties whose check runs a contract of it (used by the harmless / seed
pipelines to pick the checks to run for a patch)"""
import sys, json
sys.path.insert(0, '/verif'); sys.dont_write_bytecode = True
from vlib import registry, decide
out = {}
for prop, cfg in sorted(registry.PROPS.items()):
    for c in decide._load_contracts(prop, cfg):
        out.setdefault(f'{c.file}::{c.qualname}', [])
        if prop not in out[f'{c.file}::{c.qualname}']:
            out[f'{c.file}::{c.qualname}'].append(prop)
json.dump(out, open('/verif/tools/func_props.json', 'w'), indent=1, sort_keys=True)
print(len(out), 'functions')
