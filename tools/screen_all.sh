#!/bin/bash
# screening pass over every stored patch (seeded*/ and harmless*/) with tools/fastcheck.py, N at a time
cd /verif
ls -d harmless/*_* harmless2/*_* harmless3/*_* harmless4/*_* harmless5/*_* seeded/C*_* seeded2/C*_* seeded3/C*_* seeded4/C*_* seeded5/C*_* seeded6/C*_* seeded7/C*_* seeded8/C*_* \
  | xargs -P ${1:-8} -L 1 python3-vt tools/fastcheck.py 2>/dev/null | grep '^FAST'
echo ALLDONE
