#!/bin/bash
# re-run every stored behaviour-preserving refactoring (harmless*/) against the current checks, N at a time (default 4)
cd /verif
ls -d harmless/*_* harmless2/*_* harmless3/*_* harmless4/*_* harmless5/*_* | xargs -P ${1:-4} -L 1 tools/reharmless.sh
echo ALLDONE
