#!/bin/bash
cd /verif
for r in seeded seeded2; do for d in $(ls $r | grep '^C[0-9][0-9]_'); do ./reseed.sh $r $d; done; done
python3 seeded/mkmeta.py > /dev/null; python3 seeded2/mkmeta.py seeded2 > /dev/null
echo ALLDONE
