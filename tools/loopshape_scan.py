#!/usr/bin/env python3-vt
"""which stored seeded / harmless patches change the recorded loop shape of a function under contract?"""
import sys, json, glob, os, subprocess, shutil
sys.path.insert(0, '/verif'); sys.dont_write_bytecode = True
from pyvc.engine import Source, loop_shapes
rec = json.load(open('/verif/contracts/loops.json'))
for d in sorted(glob.glob('/verif/seeded*/C*_*') + glob.glob('/verif/harmless*/*_*')):
    patch = os.path.join(d, 'patch.diff')
    if not os.path.exists(patch):
        continue
    S = '/tmp/ombott-lss'; shutil.rmtree(S, ignore_errors=True); os.makedirs(S); shutil.copytree('/repo/ombott', S + '/ombott')
    r = subprocess.run(f'cd {S} && git init -q . && git apply {patch}', shell=True, capture_output=True, text=True)
    if r.returncode:
        r = subprocess.run(f'cd {S} && git apply -3 {patch} || patch -p1 -s < {patch}', shell=True, capture_output=True, text=True)
        if r.returncode:
            print('NOAPPLY', d); continue
    hit = []
    for k, v in rec.items():
        f, q = k.split('::')
        try:
            now = loop_shapes(Source(S, f, q).node)
        except Exception as e:
            hit.append(q + ' (missing)'); continue
        if now != v:
            hit.append(q)
    if hit:
        print('RESHAPED', d, hit, flush=True)
    shutil.rmtree(S)
