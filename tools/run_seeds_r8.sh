#!/bin/bash
# run seedtest8 for every finished round-8 seed not yet processed
cd /verif
for P in C02 C03 C04 C05 C07 C09 C10 C12 C13 C14 C15 C17 C18 C20; do for n in 1 2; do
  [ -f /tmp/wt8-$P/patch$n.diff ] || continue
  [ -f seeded8/${P}_$n/.check_$P ] && continue
  timeout 1500 ./seedtest8.sh $P $n 2>&1 | grep "^RESULT\|PATCH DOES NOT\|patch does not"
done; done
echo BATCHDONE
