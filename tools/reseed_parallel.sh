#!/bin/bash
# re-run every seeded change of all six rounds against the current checks, 4 at a time (own property + recorded cross-property checks)
# ONLY=<file with lines '<round dir>/<id> ...'> restricts the run to the listed changes
cd /verif
declare -A EXTRA=( [seeded3/C03_2]="C03 C08" [seeded3/C19_1]="C19 C01" [seeded4/C05_1]="C05 C08" [seeded4/C08_2]="C08 C09" [seeded4/C19_2]="C19 C01" [seeded2/C19_2]="C19 C01"
  [seeded5/C05_1]="C05 C12" [seeded5/C17_1]="C17 C08" [seeded5/C19_2]="C19 C01 C11" [seeded5/C19_1]="C19 C01" [seeded5/C20_2]="C20 C12" [seeded5/C03_2]="C03 C14" [seeded5/C18_2]="C18 C13" [seeded5/C02_2]="C02 C11" [seeded5/C15_1]="C15 C14"
  [seeded6/C18_2]="C18 C04" [seeded6/C19_1]="C19 C01" [seeded6/C19_2]="C19 C01" )
LIST=/tmp/reseed_list.$$; : > $LIST
for r in seeded seeded2 seeded3 seeded4 seeded5 seeded6 seeded7; do
  for d in $(ls $r | grep '^C[0-9][0-9]_'); do
    p=${d%%_*}
    if [ -n "$ONLY" ] && ! grep -q "^$r/$d " "$ONLY"; then continue; fi
    echo "$r $d ${EXTRA[$r/$d]:-$p}" >> $LIST
  done
done
cat $LIST | xargs -P ${1:-4} -L 1 ./reseed.sh
rm -f $LIST
for r in seeded seeded2 seeded3 seeded4 seeded5 seeded6 seeded7; do python3 $r/mkmeta.py $r > /dev/null 2>&1; done
echo ALLDONE
