#!/bin/bash
# usage: tools/harmless.sh <batch no>  -- run the checks of the affected properties on every behaviour-preserving refactoring
# /tmp/wth-<batch>/h_<k>.diff (expected: exit 0 everywhere); results under /verif/harmless/<batch>_<k>/
B=$1; W=/tmp/wth4-$B
cd /verif
python3 - "$W" "$B" <<'PY'
import json,sys,os,subprocess,shutil
W,B=sys.argv[1],sys.argv[2]
idx=json.load(open(os.path.join(W,'h_index.json')))
fp=json.load(open('/verif/tools/func_props.json'))
for e in idx:
    k=e['k']; fn=e['function']
    patch=os.path.join(W,f'h_{k}.diff')
    if not os.path.exists(patch): print('MISSING',patch); continue
    out=f'/verif/harmless4/{B}_{k}'; os.makedirs(out,exist_ok=True)
    shutil.copy(patch, os.path.join(out,'patch.diff'))
    props=fp.get(fn) or []
    S=f'/tmp/ombott-hl4-{B}-{k}'; shutil.rmtree(S,ignore_errors=True); os.makedirs(S); shutil.copytree('/repo/ombott', S+'/ombott')
    r=subprocess.run(f'cd {S} && git init -q . && git apply {patch}', shell=True, capture_output=True, text=True)
    if r.returncode: print('NOAPPLY',B,k,r.stderr[:200]); shutil.rmtree(S); continue
    shutil.rmtree(S+'/.git')
    res={}
    for p in props:
        rr=subprocess.run(['python3-vt','check.py',p,'--tier','quick'],cwd='/verif',env=dict(os.environ,VERIF_REPO=S),capture_output=True,text=True)
        res[p]=rr.returncode
        open(os.path.join(out,f'.check_{p}'),'w').write(rr.stdout[-6000:]+rr.stderr[-2000:])
    shutil.rmtree(S)
    json.dump({'function':fn,'kind':e.get('kind'),'checks':res}, open(os.path.join(out,'result.json'),'w'), indent=1)
    print('HARMLESS',B,k,fn,e.get('kind','')[:60],res, flush=True)
PY
