#!/usr/bin/env python3-vt
"""record the decorator list of every function under contract (contracts/decorators.json); pyvc/verify.py reports a function whose
decorators differ from the recorded ones as outside its contract (UNDECIDED): a contract is about the function body"""
import sys, json, glob, importlib, ast, os
sys.path.insert(0, '/verif'); sys.dont_write_bytecode = True
from pyvc.engine import Source, loop_shapes
out = {}
loops = {}
for f in sorted(glob.glob('/verif/contracts/*.py')):
    m = os.path.basename(f)[:-3]
    if m in ('__init__', 'streams'):
        continue
    mod = importlib.import_module('contracts.' + m)
    for c in getattr(mod, 'CONTRACTS', []):
        src = Source(sys.argv[1] if len(sys.argv) > 1 else '/repo', c.file, c.qualname)
        out[f'{c.file}::{c.qualname}'] = [ast.unparse(x) for x in getattr(src.node, 'decorator_list', [])]
        loops[f'{c.file}::{c.qualname}'] = loop_shapes(src.node)
json.dump(out, open('/verif/contracts/decorators.json', 'w'), indent=1, sort_keys=True)
# the shape of every loop an invariant was written against (see pyvc/verify.py: a failed obligation of a function whose loops were
# restructured is a failed proof, not a violation)
json.dump({k: v for k, v in loops.items() if v}, open('/verif/contracts/loops.json', 'w'), indent=1, sort_keys=True)
import hashlib
repo = sys.argv[1] if len(sys.argv) > 1 else '/repo'
files = sorted({k.split('::')[0] for k in out})
json.dump({f: hashlib.sha256(open(os.path.join(repo, f), 'rb').read()).hexdigest()[:16] for f in files},
          open('/verif/contracts/file_shas.json', 'w'), indent=1, sort_keys=True)
print(len(out), 'functions,', sum(1 for v in loops.values() if v), 'with loops')
