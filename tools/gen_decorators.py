#!/usr/bin/env python3-vt
"""record the decorator list of every function under contract (contracts/decorators.json); pyvc/verify.py reports a function whose
decorators differ from the recorded ones as outside its contract (UNDECIDED): a contract is about the function body"""
import sys, json, glob, importlib, ast, os
sys.path.insert(0, '/verif'); sys.dont_write_bytecode = True
from pyvc.engine import Source
out = {}
for f in sorted(glob.glob('/verif/contracts/*.py')):
    m = os.path.basename(f)[:-3]
    if m in ('__init__', 'streams'):
        continue
    mod = importlib.import_module('contracts.' + m)
    for c in getattr(mod, 'CONTRACTS', []):
        src = Source(sys.argv[1] if len(sys.argv) > 1 else '/repo', c.file, c.qualname)
        out[f'{c.file}::{c.qualname}'] = [ast.unparse(x) for x in getattr(src.node, 'decorator_list', [])]
json.dump(out, open('/verif/contracts/decorators.json', 'w'), indent=1, sort_keys=True)
print(len(out), 'functions')
