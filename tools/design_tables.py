#!/usr/bin/env python3
"""regenerate the seven seed tables of DESIGN.md section 10 from seeded*/descriptions.json + meta.json (run after a reseed + mkmeta)"""
import re, subprocess, sys
P = '/verif/DESIGN.md'
s = open(P).read()
HEAD = '| id | change | needs, to manifest | caught by |\n|----|--------|--------------------|-----------|\n'
marks = [('## 10. Seeded changes', 'seeded'), ('### Round 2', 'seeded2'), ('### Round 3', 'seeded3'), ('### Round 4', 'seeded4'),
         ('### Round 5', 'seeded5'), ('### Round 6', 'seeded6'), ('### Round 7', 'seeded7'), ('### Round 8', 'seeded8')]
for mark, d in marks:
    i = s.find(mark)
    if i < 0:
        print('section not found:', mark); continue
    j = s.find(HEAD, i)
    if j < 0:
        print('table not found after', mark); continue
    k = j + len(HEAD)
    # end of table: first line that does not start with '|'
    m = re.compile(r'^(?!\|)', re.M).search(s, k)
    end = m.start() if m else len(s)
    out = subprocess.run(['python3', f'/verif/{d}/mktable.py'], capture_output=True, text=True).stdout
    rows = ''.join(l + '\n' for l in out.splitlines() if l.startswith('| C'))
    if not rows:
        print('no rows for', d); continue
    s = s[:k] + rows + s[end:]
    print(d, rows.count('\n'), 'rows')
open(P, 'w').write(s)
