#!/bin/bash
# re-run the checks on every stored behaviour-preserving refactoring (harmless/ and harmless2/) against the CURRENT checks;
# prints one line per patch; expected: exit 0 everywhere (2 = undecided)
cd /verif
python3 - "$@" <<'PY'
import json,os,subprocess,shutil,glob
fp=json.load(open('/verif/tools/func_props.json'))
import sys
only=sys.argv[1:]
for d in sorted(glob.glob('/verif/harmless/*_*')+glob.glob('/verif/harmless2/*_*')+glob.glob('/verif/harmless3/*_*')+glob.glob('/verif/harmless4/*_*')+glob.glob('/verif/harmless5/*_*')):
    if only and os.path.relpath(d,'/verif') not in only: continue
    r=json.load(open(d+'/result.json')); fn=r['function']
    props=sorted(set(fp.get(fn) or list(r['checks'])))
    S='/tmp/ombott-rh-%d'%os.getpid(); shutil.rmtree(S,ignore_errors=True); os.makedirs(S); shutil.copytree('/repo/ombott', S+'/ombott')
    a=subprocess.run(f'cd {S} && git init -q . && git apply {d}/patch.diff', shell=True, capture_output=True, text=True)
    if a.returncode: print('NOAPPLY',d); continue
    shutil.rmtree(S+'/.git')
    res={}
    for p in props:
        rr=subprocess.run(['python3-vt','check.py',p,'--tier','quick'],cwd='/verif',env=dict(os.environ,VERIF_REPO=S),capture_output=True,text=True)
        res[p]=rr.returncode
        open(os.path.join(d,f'.check_{p}'),'w').write(rr.stdout[-6000:]+rr.stderr[-2000:])
    shutil.rmtree(S)
    r['checks_final']=res
    json.dump(r, open(d+'/result.json','w'), indent=1)
    print('REHARMLESS', os.path.relpath(d,'/verif'), fn, res, flush=True)
PY
