#!/bin/bash
# run seedtest7 for every finished round-3 seed not yet processed
cd /verif
for i in $(seq -w 1 20); do for n in 1 2; do
  P=C$i
  [ -f /tmp/wt7-$P/patch$n.diff ] || continue
  [ -f seeded7/${P}_$n/.check_$P ] && continue
  extra=""
  true
  timeout 1500 ./seedtest7.sh $P $n $extra 2>&1 | grep "^RESULT\|PATCH DOES NOT\|patch does not"
done; done
echo BATCHDONE
