#!/bin/bash
# usage: frame_on_seed.sh <seeded dir>/<id> : run confinement class_attr obligations on a scratch copy with the patch
D=/verif/$1; S=/tmp/ombott-fs-$$; rm -rf $S; mkdir -p $S; cp -r /repo/ombott $S/ombott
( cd $S && git init -q . && git apply $D/patch.diff ) || { echo NOAPPLY; rm -rf $S; exit 8; }
python3-vt - $S <<'PY'
import sys; sys.path.insert(0,'/verif')
from frames import confinement
r=confinement.run(sys.argv[1],'C08','quick')
for o in r['obligations']:
    if o['status']!='discharged': print(o['status'], o['name'], '|', o['detail'][:200])
PY
rm -rf $S
