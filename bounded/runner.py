"""Engine C runner: bounded run-time contract checking of the real code.

usage (always under /venv/bin/python -B):
    runner.py <Cxx> --tier quick|thorough --seed N --jobs J --out FILE
    runner.py <Cxx> --replay-case FILE      (FILE: json {"case": ...}); prints json result

A case module bounded/cases/<Cxx>.py provides
    BOUND       : str   the bounded space, in words
    gen_cases(tier, seed) -> iterator of case dicts (bytes allowed inside)
    run_case(case) -> None (contract held) | failure dict made with common.fail(clause, ...)
    nontrivial(case) -> bool            (optional; default True)
    exhaustive(tier) -> bool            (optional; default False)
    FINDINGS    : {key: predicate(case, failure) -> bool}   (optional) recognisers for the
                  entries of /verif/known_findings.json; they only *label* failures here.
    setup()     : optional, called once per worker process after ombott is importable.
Exit status: 0 ran to completion (failures, if any, are in the output file), 3 machinery error.
"""
import argparse
import importlib
import json
import os
import random
import signal
import sys
import time
import traceback
import hashlib

HERE = os.path.dirname(os.path.abspath(__file__))
sys.path.insert(0, os.path.dirname(HERE))
sys.dont_write_bytecode = True

from bounded import common  # noqa: E402

CASE_TIMEOUT_S = int(os.environ.get('VERIF_CASE_TIMEOUT', '15'))
MAX_FAILS_KEPT = 40


class _Hang(BaseException):   # not an Exception: it must pass through `except Exception` in the code under check
    pass


def _alarm(signum, frame):
    raise _Hang()


def _run_one(mod, case):
    signal.signal(signal.SIGALRM, _alarm)
    # repeating timer: code under check (or a handler of the case) may swallow the first alarm and loop on
    signal.setitimer(signal.ITIMER_REAL, CASE_TIMEOUT_S, 1.0)
    try:
        return mod.run_case(case)
    except _Hang:
        return common.fail('hang', detail=f'case did not finish in {CASE_TIMEOUT_S}s')
    finally:
        signal.setitimer(signal.ITIMER_REAL, 0)


def _label(mod, case, failure):
    keys = []
    for key, pred in getattr(mod, 'FINDINGS', {}).items():
        try:
            if pred(case, failure):
                keys.append(key)
        except Exception:
            pass
    return keys


def _worker(args):
    prop, tier, seed, rank, jobs, deadline = args
    common.use_repo()
    mod = importlib.import_module(f'bounded.cases.{prop}')
    if hasattr(mod, 'setup'):
        mod.setup()
    nontrivial = getattr(mod, 'nontrivial', lambda c: True)
    evals = 0
    seen = set()
    fails = []
    per_bucket = {}
    nfails = 0
    samples = []
    truncated = False
    hangs = 0
    t0 = time.time()
    for i, case in enumerate(mod.gen_cases(tier, seed)):
        if i % jobs != rank:
            continue
        if deadline and time.time() > deadline:
            truncated = True
            break
        evals += 1
        if nontrivial(case):
            seen.add(hashlib.blake2b(repr(case).encode('utf8', 'backslashreplace'), digest_size=8).digest())
        t_case = time.time()
        try:
            failure = _run_one(mod, case)
        except Exception as e:
            # an exception escaping a case (never seen on the unchanged tree: the case modules catch what the code may raise) is a
            # failure of that case, with the input at hand - not a crash of the machinery.  Formatting is defensive: exception
            # classes of the code under check may misbehave in getattr (RadiDictKeyError.__getattr__ raises KeyError)
            try:
                text = traceback.format_exc()[-1500:]
            except BaseException:
                text = f'{type(e).__name__} (traceback could not be formatted)'
            try:
                msg = str(e)[:300]
            except BaseException:
                msg = '?'
            failure = common.fail('E.exception_escaped_the_case', exception=type(e).__name__, message=msg, traceback=text)
        if time.time() - t_case >= CASE_TIMEOUT_S and (failure is None or failure.get('clause') != 'hang'):
            # the alarm fired but was swallowed somewhere (e.g. by an `except BaseException` of the case's handler)
            failure = common.fail('hang', detail=f'case needed {time.time() - t_case:.0f}s (limit {CASE_TIMEOUT_S}s)',
                                  reported_by_case=failure)
        if failure is not None and failure.get('clause') == 'hang':
            hangs += 1
            if hangs >= 2:
                # a second hanging case: stop this worker (every further one would cost the full per-case time limit)
                nfails += 1
                fails.append({'case': common.jsonable(case), 'failure': failure, 'findings': _label(mod, case, failure)})
                truncated = True
                break
        if failure is not None:
            nfails += 1
            labels = _label(mod, case, failure)
            bucket = (failure.get('clause'), tuple(labels))
            per_bucket[bucket] = per_bucket.get(bucket, 0) + 1
            if per_bucket[bucket] <= 3 and len(fails) < MAX_FAILS_KEPT:
                fails.append({'case': common.jsonable(case), 'failure': failure, 'findings': labels})
        elif len(samples) < 2:
            samples.append(common.jsonable(case))
    return {'evaluations': evals, 'seen': [s.hex() for s in seen], 'fails': fails, 'nfails': nfails,
            'samples': samples, 'truncated': truncated, 'wall': time.time() - t0}


def main():
    ap = argparse.ArgumentParser()
    ap.add_argument('prop')
    ap.add_argument('--tier', default='quick')
    ap.add_argument('--seed', type=int, default=0)
    ap.add_argument('--jobs', type=int, default=min(16, os.cpu_count() or 1))
    ap.add_argument('--out')
    ap.add_argument('--budget', type=float, default=0, help='wall-clock budget in seconds (0 = none)')
    ap.add_argument('--replay-case')
    a = ap.parse_args()

    if a.replay_case:
        common.use_repo()
        mod = importlib.import_module(f'bounded.cases.{a.prop}')
        if hasattr(mod, 'setup'):
            mod.setup()
        case = common.unjson(json.load(open(a.replay_case))['case'])
        failure = _run_one(mod, case)
        print(json.dumps({'failure': failure, 'findings': _label(mod, case, failure) if failure else []}, indent=1))
        return 1 if failure else 0

    t0 = time.time()
    deadline = (t0 + a.budget) if a.budget else 0
    import multiprocessing as mp
    ctx = mp.get_context('fork')
    common.use_repo()
    mod = importlib.import_module(f'bounded.cases.{a.prop}')
    jobs = max(1, a.jobs)
    with ctx.Pool(jobs) as pool:
        parts = pool.map(_worker, [(a.prop, a.tier, a.seed, r, jobs, deadline) for r in range(jobs)])
    res = {'property': a.prop, 'tier': a.tier, 'seed': a.seed, 'bound': getattr(mod, 'BOUND', ''),
           'exhaustive': bool(getattr(mod, 'exhaustive', lambda t: False)(a.tier)),
           'evaluations': 0, 'distinct_nontrivial': 0, 'failures': [], 'nfailures': 0, 'samples': [],
           'truncated': False, 'crash': None,
           'nontrivial_rule': getattr(mod, 'NONTRIVIAL_RULE', 'every generated case counts; distinct by repr'),
           'repo': common.REPO}
    seen = set()
    for p in parts:
        if 'crash' in p:
            res['crash'] = p
            continue
        res['evaluations'] += p['evaluations']
        seen.update(p['seen'])
        res['failures'].extend(p['fails'])
        res['nfailures'] += p['nfails']
        res['samples'].extend(p['samples'])
        res['truncated'] = res['truncated'] or p['truncated']
    if res['truncated']:
        res['exhaustive'] = False
    res['distinct_nontrivial'] = len(seen)
    res['samples'] = res['samples'][:4]
    res['wall_s'] = round(time.time() - t0, 2)
    out = json.dumps(res, indent=1)
    if a.out:
        with open(a.out, 'w') as f:
            f.write(out)
    else:
        print(out)
    return 3 if res['crash'] else 0


if __name__ == '__main__':
    try:
        sys.exit(main())
    except SystemExit:
        raise
    except BaseException:
        traceback.print_exc()
        sys.exit(3)
