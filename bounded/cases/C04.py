"""C04 bounded stand-in / replay harness: Content-Length bodies byte-exact under any fragmentation.

Contract checked at run time on the REAL functions:
  K1 (unit, `_iter_body`): concat(yielded) == stream0[:min(max(CL,0), len stream0)]; every read
      argument <= CL - delivered-so-far (never reads beyond Content-Length); every part 1..buff bytes.
  K2 (unit, `_body_read`): content(result) == the same expected bytes; TemporaryFile iff len > buff.
  K3 (end to end, `Request.body` through Ombott.__call__): handler sees exactly those bytes, twice
      (rewind), and wsgi.input was replaced by the buffered copy; stream consumed <= max(CL,0).
      The property is stated for "the request body" without regard to the request method, so K3 is also
      run with REQUEST_METHOD in GET/HEAD/POST/PUT/DELETE/PATCH/OPTIONS/lower-case spellings (route
      registered for that method).
  K4 (end to end, the `Request` object built directly on an environ, no routing): the same bytes, twice,
      wsgi.input replaced, stream consumed <= max(CL,0), for every REQUEST_METHOD above and for an
      environ without REQUEST_METHOD.
  K5 (end to end, `Request.copy()`; a copy of the request is still "the request body presented to the application"):
      the handler reads request.body, then request.copy().body, then the body of a copy of that copy, then request.body
      again (order 'orig-first'); or it takes the copy before anything was accessed and reads only through the copy and
      the copy's copy (order 'copy-first').  Every body presented is exactly the expected bytes (K5.original / K5.copy_exact),
      a copy is not refused where the original was served (K5.copy_refused), and the server stream is never consumed
      beyond Content-Length by all of them together (K5.read_beyond_content_length).  With max_body_size below the body
      length the original is refused; the handler swallows that refusal and asks the copies: they are refused too or
      present the exact body -- never bytes from the middle of the stream -- and nothing is read beyond Content-Length.
  K6 (end to end, history "the server stream is replaced": `request['wsgi.input'] = new_stream`, the documented environ
      setter, after the body was already presented once or twice; the new stream has the same length and Content-Length
      stays what it was, optionally re-assigned with the same value): the body presented BEFORE the replacement is the
      first Content-Length bytes of the first stream (K6.before), the body presented AFTER it is the first Content-Length
      bytes the NEW stream delivers, twice (K6.after_swap_exact -- never the bytes of the replaced stream), neither
      stream is read beyond Content-Length (K6.read_beyond_content_length), nothing is refused (K6.exception/K6.status).
"""
import io
import itertools
import random

from bounded.common import FragStream, make_environ, serve, fail

BOUND = ('bodies of length 0..9 (quick) / 0..12 (thorough) over a 3-letter alphabet pattern x Content-Length in [-1, len+2] '
         'x buffer in 1..5 x every fragmentation script of length <=3 (quick) / <=4 (thorough) over {1,2,3,all} '
         'followed by full reads; exhaustive; plus seeded random larger bodies; end to end (application route and bare '
         'Request object): bodies of length 0/1/4/9 x CL in {-1,0,n-1,n,n+2} x max_memfile_size 1/3/16 x 4 scripts x 3 tails, '
         'for POST through the application, and x REQUEST_METHOD in {GET,HEAD,POST,PUT,DELETE,PATCH,OPTIONS,get,head} '
         'through the application (route registered for that method) and through Request(environ) directly, the latter '
         'also with REQUEST_METHOD absent; the random cases draw the method from the same set; '
         'declared Content-Type in {multipart/form-data with the right boundary, application/json, urlencoded, text/plain} x a two-part '
         'multipart body with a look-alike delimiter x epilogue in {none, CRLF, text with a further delimiter} x CL in {n, n-1, up to the '
         'closing delimiter, n+2} x max_memfile_size 1/7/18/64/4096 x 9 fragmentations (1/2/3/18-byte reads, cuts at and around the '
         'closing delimiter) x {application handler, bare Request}, and the same grid over 5 byte strings that are NOT well-formed multipart under the multipart type; '
         'Content-Length given as text with optional whitespace / leading zeros (" 11", "11 ", TAB 11, "011", " 0 ", "5 ") x 3 thresholds x 3 fragmentations; '
         'Request.copy(): payload of 1/4/9 bytes followed by 4 bytes of the next request x CL in {0,n,n+2,n+6} x max_memfile_size '
         '1/3/16 x 4 scripts x 2 tails x {application handler, bare Request} x order {original read first then copy, copy of the '
         'copy, original again; copy taken before any access and only the copies read} x max_body_size {none, 2 = refusal '
         'swallowed by the handler}; '
         'replaced stream (K6): first stream of 1/4/9 bytes + 4 bytes of the next request, second stream of the same length '
         'with other bytes, x CL in {0,n-1,n,n+2} x max_memfile_size 1/3/16 (in memory and spilled) x 4 scripts of the first '
         'x 2 scripts of the second stream (full / 1-byte short reads) x 2 tails x {application handler, bare Request} x '
         '{CONTENT_LENGTH left alone, re-assigned with the same value} x {body read once, twice before the replacement}, '
         'exhaustive; plus 150 (quick) / 1500 (thorough) seeded random pairs of streams of equal length 0..400')
NONTRIVIAL_RULE = 'distinct (kind, body, CL, buffer, script); non-trivial = body non-empty and CL > 0'


def exhaustive(tier):
    return True


def nontrivial(case):
    return len(case['data']) > 0 and case['cl'] > 0


def gen_copy_cases(tier):
    for n in (1, 4, 9):
        data = bytes((97 + i) for i in range(n)) + b'NEXT'
        for cl in (0, n, n + 2, n + 6):
            for buff in (1, 3, 16):
                for script in ((), (1,), (2, 1), (1, 1, 1)):
                    for tail in (0, 1) if tier == 'quick' else (0, 1, 2):
                        for level in ('app', 'req'):
                            for order in ('orig-first', 'copy-first'):
                                for max_body in (None, 2):
                                    yield dict(kind='copy', level=level, order=order, max_body=max_body, data=data, cl=cl,
                                               buff=buff, script=list(script), tail=tail)


def gen_swap_cases(tier, seed):
    for n in (1, 4, 9):
        data = bytes((97 + i) for i in range(n)) + b'NEXT'
        data2 = bytes((65 + i) for i in range(n)) + b'next'
        for cl in (0, n - 1, n, n + 2):
            for buff in (1, 3, 16):
                for script in ((), (1,), (2, 1), (1, 1, 1)):
                    for script2, tail2 in (((), 0), ((1, 1), 1)):
                        for tail in (0, 1):
                            for level in ('app', 'req'):
                                for set_cl in (False, True):
                                    for reads_before in (1, 2):
                                        yield dict(kind='swap', level=level, data=data, data2=data2, cl=cl, buff=buff,
                                                   script=list(script), tail=tail, script2=list(script2), tail2=tail2,
                                                   set_cl=set_cl, reads_before=reads_before)
    rnd = random.Random(seed + 2)
    for _ in range(150 if tier == 'quick' else 1500):
        n = rnd.randrange(0, 400)
        data = bytes(rnd.randrange(256) for _ in range(n))
        data2 = bytes(rnd.randrange(256) for _ in range(n))
        yield dict(kind='swap', level=rnd.choice(['app', 'req']), data=data, data2=data2,
                   cl=rnd.choice([n, n, rnd.randrange(0, n + 5)]), buff=rnd.choice([1, 7, 64, 500]),
                   script=[rnd.choice([0, 1, 2, 5, 33]) for _ in range(rnd.randrange(6))], tail=rnd.choice([0, 1, 3, 50]),
                   script2=[rnd.choice([0, 1, 2, 5, 33]) for _ in range(rnd.randrange(6))], tail2=rnd.choice([0, 1, 3, 50]),
                   set_cl=rnd.choice([False, True]), reads_before=rnd.choice([1, 2]))


def gen_cases(tier, seed):
    maxlen = 9 if tier == 'quick' else 12
    maxscript = 3 if tier == 'quick' else 4
    lens = [0, 1, 2, 3, 5, maxlen] if tier == 'quick' else list(range(0, maxlen + 1))
    buffs = [1, 2, 3, 5] if tier == 'quick' else [1, 2, 3, 4, 5]
    scripts = [()]
    for k in range(1, maxscript + 1):
        scripts.extend(itertools.product([1, 2, 3, 0], repeat=k))
    for n in lens:
        data = bytes((65 + (i * 7) % 23) for i in range(n))
        for cl in range(-1, n + 3):
            for buff in buffs:
                for script in scripts:
                    for tail in (0, 1):
                        for kind in ('iter', 'read'):
                            yield dict(kind=kind, data=data, cl=cl, buff=buff, script=list(script), tail=tail)
    # end to end: fewer combinations, through the application
    for n in (0, 1, 4, 9):
        data = bytes((97 + i) for i in range(n))
        for cl in (-1, 0, n - 1, n, n + 2):
            if cl < -1:
                continue
            for buff in (1, 3, 16):
                for script in ((), (1,), (2, 1), (1, 1, 1)):
                    for tail in (0, 1, 2):
                        yield dict(kind='app', data=data, cl=cl, buff=buff, script=list(script), tail=tail)
    for c in gen_copy_cases(tier):
        yield c
    for c in gen_swap_cases(tier, seed):
        yield c
    rnd = random.Random(seed)
    for _ in range(300 if tier == 'quick' else 3000):
        n = rnd.randrange(0, 400)
        data = bytes(rnd.randrange(256) for _ in range(n))
        cl = rnd.choice([n, n, rnd.randrange(-1, n + 5)])
        yield dict(kind=rnd.choice(['iter', 'read', 'app']), data=data, cl=cl, buff=rnd.choice([1, 7, 64, 500]),
                   script=[rnd.choice([0, 1, 2, 5, 33]) for _ in range(rnd.randrange(6))], tail=rnd.choice([0, 1, 3, 50]))
    # end to end x request method (the statement does not restrict the method): through a route of the
    # application and through the bare Request object (the only way to present an environ without REQUEST_METHOD)
    for n in (0, 1, 4, 9):
        data = bytes((97 + i) for i in range(n))
        for cl in (-1, 0, n - 1, n, n + 2):
            if cl < -1:
                continue
            for buff in (1, 3, 16):
                for script in ((), (1,), (2, 1), (1, 1, 1)):
                    for tail in (0, 1, 2):
                        for method in METHODS:
                            yield dict(kind='app', data=data, cl=cl, buff=buff, script=list(script), tail=tail, method=method)
                        for method in METHODS + [None]:
                            yield dict(kind='req', data=data, cl=cl, buff=buff, script=list(script), tail=tail, method=method)
    # end to end x Content-Type: the raw body is the stream's bytes whatever the declared type says (a multipart body is marked up
    # while it is read: closing delimiter, epilogue and the bytes after it are body bytes like all others)
    mp = (b'--B7\r\nContent-Disposition: form-data; name="a"\r\n\r\nv1\r\n--B7\r\nContent-Disposition: form-data; name="f"; '
          b'filename="x.bin"\r\n\r\n\x00\r\n--B\r\n--B7--')
    bodies = [mp + epilogue for epilogue in (b'', b'\r\n', b'\r\nepilogue text after the closing delimiter\r\n--B7\r\nnot a part')]
    # bytes that are NOT well-formed multipart under a multipart type: the raw body is still exactly those bytes
    bodies += [b'no delimiter at the start of it', b'--B7\rX' + b'y' * 12, b'--B7\r\nContent-Disposition: form-data\r\n\r\nnoname\r\n--B7--\r\n', b'--B7--', b'\r\n--B']
    for data in bodies:
        for ctype in ('multipart/form-data; boundary=B7', 'application/json', 'application/x-www-form-urlencoded', 'text/plain'):
            for cl in (len(data), len(data) - 1, len(mp), len(data) + 2):
                for buff in ((1, 7, 18, 64, 4096) if tier == 'quick' else (1, 2, 3, 7, 17, 18, 19, 64, 4096)):
                    for script, tail in (((), 0), ((), 1), ((), 2), ((), 3), ((), 18), ((5, 1, 40), 7), ((len(mp),), 0), ((len(mp) - 2,), 0),
                                         ((len(mp) - 1, 1), 1)):
                        for kind in ('req', 'app'):
                            yield dict(kind=kind, data=data, cl=cl, buff=buff, script=list(script), tail=tail, method='POST', ctype=ctype)
    # the Content-Length TEXT as a server may hand it over: optional whitespace around the number, leading zeros
    for cl_text, cl in ((' 11', 11), ('11 ', 11), ('\t11', 11), ('011', 11), (' 0 ', 0), ('5 ', 5)):
        data = b'hello world and the next request'
        for buff in (1, 4, 64):
            for script, tail in (((), 0), ((), 1), ((3, 1), 2)):
                for kind in ('req', 'app'):
                    yield dict(kind=kind, data=data, cl=cl, buff=buff, script=list(script), tail=tail, method='POST', cl_text=cl_text)
    rnd = random.Random(seed + 1)
    for _ in range(300 if tier == 'quick' else 3000):
        n = rnd.randrange(0, 400)
        data = bytes(rnd.randrange(256) for _ in range(n))
        cl = rnd.choice([n, n, rnd.randrange(-1, n + 5)])
        kind = rnd.choice(['app', 'req'])
        yield dict(kind=kind, data=data, cl=cl, buff=rnd.choice([1, 7, 64, 500]),
                   script=[rnd.choice([0, 1, 2, 5, 33]) for _ in range(rnd.randrange(6))], tail=rnd.choice([0, 1, 3, 50]),
                   method=rnd.choice(METHODS + ([None] if kind == 'req' else [])))


METHODS = ['GET', 'HEAD', 'POST', 'PUT', 'DELETE', 'PATCH', 'OPTIONS', 'get', 'head']


def expected(data, cl):
    return data[:min(max(cl, 0), len(data))]


def run_case(case):
    from ombott.request_pkg import body_mixin
    data, cl, buff = case['data'], case['cl'], case['buff']
    stream = FragStream(data, case['script'], case['tail'] or None)
    exp = expected(data, cl)
    if case['kind'] == 'iter':
        parts = []
        delivered = 0
        gen = body_mixin._iter_body(stream.read, buff, content_length=cl)
        for part in gen:
            parts.append(part)
            if not (1 <= len(part) <= buff):
                return fail('K1.part_size', part_len=len(part), buff=buff)
        # reads never go beyond Content-Length
        got = 0
        for asked, answered in zip(stream.asked, stream.answered):
            if asked > max(cl, 0) - got:
                return fail('K1.read_beyond_content_length', asked=asked, remaining=max(cl, 0) - got)
            got += answered
        out = b''.join(parts)
        if out != exp:
            return fail('K1.exact', expected=exp, observed=out)
        return None
    if case['kind'] == 'read':
        body = body_mixin._body_read(stream.read, buff, content_length=cl)
        body.seek(0)
        out = body.read()
        is_mem = isinstance(body, io.BytesIO)
        body.close()
        if out != exp:
            return fail('K2.exact', expected=exp, observed=out)
        if is_mem != (len(exp) <= buff):
            return fail('K2.spool', in_memory=is_mem, size=len(exp), buff=buff)
        if stream.consumed > max(cl, 0):
            return fail('K2.read_beyond_content_length', consumed=stream.consumed, cl=cl)
        return None
    if case['kind'] == 'copy':
        return run_copy(case, stream, exp)
    if case['kind'] == 'swap':
        return run_swap(case, stream, exp)
    if case['kind'] == 'req':
        # the bare Request object on an environ (no routing), REQUEST_METHOD as given or absent
        from ombott.request_pkg.request import Request
        method = case['method']
        env = make_environ('/b', method or 'GET', stream=stream, content_length=(None if cl < 0 else cl))
        if case.get('ctype'):
            env['CONTENT_TYPE'] = case['ctype']
        if case.get('cl_text') is not None:
            env['CONTENT_LENGTH'] = case['cl_text']
        if method is None:
            del env['REQUEST_METHOD']
        req = Request(env, config={'max_memfile_size': buff})
        first = req.body.read()
        second = req.body.read()
        if first != exp or second != exp:
            return fail('K4.exact', expected=exp, first=first, second=second, method=method)
        if req.environ['wsgi.input'] is not req.body:
            return fail('K4.input_replaced', method=method)
        if stream.consumed > max(cl, 0):
            return fail('K4.read_beyond_content_length', consumed=stream.consumed, cl=cl, method=method)
        return None
    # through the application
    import ombott
    app = ombott.Ombott({'max_memfile_size': buff})
    seen = {}
    method = case.get('method', 'POST')

    @app.route('/b', method=method.upper())
    def h():
        req = app.request
        seen['first'] = req.body.read()
        seen['second'] = req.body.read()
        seen['input_is_copy'] = req.environ['wsgi.input'] is req.body
        return 'ok'
    env = make_environ('/b', method, stream=stream, content_length=(None if cl < 0 else cl))
    if case.get('ctype'):
        env['CONTENT_TYPE'] = case['ctype']
    if case.get('cl_text') is not None:
        env['CONTENT_LENGTH'] = case['cl_text']
    res = serve(app, env)
    if res.code != 200:
        return fail('K3.status', status=res.status, errors=res.errors[-400:])
    if seen.get('first') != exp or seen.get('second') != exp:
        return fail('K3.exact', expected=exp, first=seen.get('first'), second=seen.get('second'))
    if not seen.get('input_is_copy'):
        return fail('K3.input_replaced')
    if stream.consumed > max(cl, 0):
        return fail('K3.read_beyond_content_length', consumed=stream.consumed, cl=cl)
    return None


def run_copy(case, stream, exp):
    """K5: the body seen through Request.copy() (after / instead of an access through the original)"""
    import ombott
    from ombott.request_pkg.request import Request
    from ombott.request_pkg.errors import RequestError
    cl, buff = case['cl'], case['buff']
    cfg = {'max_memfile_size': buff, 'max_body_size': case['max_body']}
    env = make_environ('/b', 'POST', stream=stream, content_length=cl)
    outcomes = []

    def access(name, req):
        try:
            b = req.body
            outcomes.append((name, 'ok', b.read()))
        except ombott.HTTPError as e:
            outcomes.append((name, 'refused', e.status_code))
        except RequestError as e:
            outcomes.append((name, 'refused', type(e).__name__))

    def play(req):
        if case['order'] == 'orig-first':
            access('original', req)
            c = req.copy()
            access('copy', c)
            access('copy of copy', c.copy())
            access('copy again', c)
            access('original again', req)
        else:
            c = req.copy()
            access('copy', c)
            access('copy of copy', c.copy())
            access('second copy', c.copy())
        return 'ok'

    if case['level'] == 'req':
        try:
            play(Request(env, config=cfg))
        except Exception as e:  # noqa - recorded
            return fail('K5.exception', exc=repr(e), outcomes=outcomes)
    else:
        app = ombott.Ombott(cfg)
        app.route('/b', method='POST', callback=lambda: play(app.request))
        res = serve(app, env)
        if res.code != 200:
            return fail('K5.status', status=res.status, errors=res.errors[-400:], outcomes=outcomes)
    first = outcomes[0]
    for name, what, val in outcomes:
        if what == 'ok' and val != exp:
            return fail('K5.original' if name.startswith('original') else 'K5.copy_exact', who=name, expected=exp, observed=val,
                        outcomes=outcomes)
        if what == 'refused' and first[1] == 'ok':
            return fail('K5.copy_refused', who=name, outcomes=outcomes)
        if what == 'refused' and not (case['max_body'] is not None and len(exp) > case['max_body']):
            return fail('K5.refused_without_reason', who=name, outcomes=outcomes)
    if stream.consumed > max(cl, 0):
        return fail('K5.read_beyond_content_length', consumed=stream.consumed, cl=cl, outcomes=outcomes)
    return None


def run_swap(case, stream, exp):
    """K6: the server stream is replaced (request['wsgi.input'] = new stream of the same length) after the body was
    presented; the body presented afterwards is the first Content-Length bytes of the NEW stream"""
    import ombott
    from ombott.request_pkg.request import Request
    cl, buff = case['cl'], case['buff']
    stream2 = FragStream(case['data2'], case['script2'], case['tail2'] or None)
    exp2 = expected(case['data2'], cl)
    cfg = {'max_memfile_size': buff}
    env = make_environ('/b', 'POST', stream=stream, content_length=cl)
    seen = {}

    def play(req):
        seen['before'] = [req.body.read() for _ in range(case['reads_before'])]
        req['wsgi.input'] = stream2
        if case['set_cl']:
            req['CONTENT_LENGTH'] = str(cl)   # "accordingly": the same length
        seen['after'] = [req.body.read(), req.body.read()]
        seen['input_is_copy'] = req.environ['wsgi.input'] is req.body
        return 'ok'

    if case['level'] == 'req':
        try:
            play(Request(env, config=cfg))
        except Exception as e:  # noqa - recorded
            return fail('K6.exception', exc=repr(e), seen=seen)
    else:
        app = ombott.Ombott(cfg)
        app.route('/b', method='POST', callback=lambda: play(app.request))
        res = serve(app, env)
        if res.code != 200:
            return fail('K6.status', status=res.status, errors=res.errors[-400:], seen=seen)
    if any(b != exp for b in seen['before']):
        return fail('K6.before', expected=exp, observed=seen['before'])
    if any(b != exp2 for b in seen['after']):
        return fail('K6.after_swap_exact', expected=exp2, observed=seen['after'], replaced_stream_body=exp)
    if not seen['input_is_copy']:
        return fail('K6.input_replaced')
    if stream.consumed > max(cl, 0) or stream2.consumed > max(cl, 0):
        return fail('K6.read_beyond_content_length', consumed_first=stream.consumed, consumed_second=stream2.consumed, cl=cl)
    return None
