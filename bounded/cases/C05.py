"""C05 bounded stand-in / replay harness: chunked transfer decoding is exact and rejects every truncation.

Contract checked at run time on the REAL functions (`_iter_chunked`, `_body_read(chunked=True)`, and
`Request.body` inside a handler reached through `Ombott.__call__` with `HTTP_TRANSFER_ENCODING: chunked`):

  X1 exception frame   the unit functions raise nothing but BodyParsingError; end to end the response is 200
                       or a 4xx (no 5xx, no escaping exception) -- "no framing garbage causes anything but
                       acceptance or a client error".
  X2 exact             a legal chunking (spec-side encoder) is accepted and the body is the concatenation of
                       the payloads, for every fragmentation of the reads.
                       Stated precondition of exactness (DESIGN C05/O4, global assumption "a chunk-size line fits
                       in max_memfile_size bytes"): every size line incl. its CRLF fits in buff_size.  For legal
                       encodings with a longer size line only "exact body or client error" is demanded.
  X3 reject            every strict prefix cut before the end of the zero-size line, and a chunk whose data is
                       not followed by CRLF, is rejected (BodyParsingError / 4xx): never a body presented.
                       Cuts after the zero-size line (inside trailers / final CRLF): exact body or client error.
  X4 corruption        every single-byte substitution in a framing byte: outcome is acceptance or a client error
                       (X1) and is judged by the independent reference decoder /verif/spec/chunked_spec.py:
                       reference 'truncated' / 'no_crlf' -> must be rejected; reference 'legal' -> if accepted the
                       body must be the reference body (and must be accepted when the size lines fit the buffer);
                       reference 'garbage' (malformed size line) -> anything in {accept, client error}.
  X5 small scope       every byte string up to a length over {0,1,a,CR,LF,;} as the wire, judged as in X4.
  TE spellings         "a chunked request" is one whose Transfer-Encoding names `chunked` as the final coding; the
                       header value is a case-insensitive comma list with optional white space (RFC 7230 3.3.1 / 7).
                       End-to-end cases (X1/X2/X3/X6, same demands) are therefore repeated with the header spelled in
                       every way listed in TE_SPELLINGS (case key `te`; absent = the plain 'chunked').
  X7 copies            the body reached through Request.copy() is still "the body presented to the application" (case key
                       `access`): 'copy-after' = the handler accesses request.body, then request.copy().body, the body of a
                       copy of that copy, the copy again and the original again; 'copy-first' = the copy is taken before
                       anything was accessed and only the copy, its copy and a second copy are read.  A refusal is swallowed
                       by the handler before it asks the next object.  All of them must show the SAME outcome (the same
                       bytes, or a client error each: X7.copy_differs) and that outcome is judged by X1/X2/X3 as before --
                       a copy never presents a re-decoded / shifted / mid-stream body and never turns a refusal into a body.
"""
import itertools
import random

from bounded.common import FragStream, make_environ, serve, fail
from spec import chunked_spec as cs

BOUND = ('legal encodings: payload pieces over {a,CR,LF,0,;} (all payloads of length <=2 (quick) / <=3 (thorough) with all '
         'their partitions + a fixed adversarial list incl. chunks larger than the buffer) x size spelling {x, X, 02x, 04X} x '
         'chunk-ext {none, ;x, ;a=b, ;a="q;r"} x zero spelling {0, 000} x trailers {none, one field, two fields} x buffer '
         '{4,5,16,64} x read fragmentation cycles {full, 1, 2, 3, (2,1), (full,1), (full,full,2,5,1)} x level {iter, read}; '
         'a subset of them end to end through Request.body; for a core set of encodings EVERY strict prefix and EVERY '
         'single-byte substitution of every framing byte by one of 12 bytes; all byte strings of length <=5 (quick) / <=6 '
         '(thorough) over a 6-letter alphabet as wires; seeded random larger encodings. End to end x Transfer-Encoding '
         'spelling: the core encodings with size spelling x, chunk-ext {none, ;x} (legal wire, EVERY strict prefix, every '
         'no-CRLF variant; buffer 16, full reads and 1-byte reads for the legal wire) x the header value in {chunked, '
         'Chunked, CHUNKED, chUNked, "gzip,chunked", "gzip, chunked", "gzip , chunked", "gzip,<TAB>chunked", '
         '"x-custom, Chunked", "gzip, deflate, chunked", "GZIP,  CHUNKED", "identity,chunked"} (chunked always the final '
         'coding); seeded random larger encodings with a random spelling. Request.copy() (X7): the core encodings with size '
         'spelling x, chunk-ext {none, ;x} plus two payloads that themselves look like a chunked encoding: legal wire (buffer 5 and '
         '16, full and 1-byte reads), EVERY strict prefix, every no-CRLF variant x access {original then copy then copy of copy '
         'then both again; copy taken before any access, only copies read}. Exhaustive over that listed space '
         'except the seeded random part.')
NONTRIVIAL_RULE = ('distinct (kind, level, encoding parameters, cut/substitution, buffer, fragmentation); non-trivial = the wire '
                   'holds at least one non-empty chunk, or (small-scope strings) at least one CRLF')

SUBST = [b'\r', b'\n', b'0', b'1', b'2', b'a', b'F', b'G', b';', b' ', b'-', b'\x00']
CYCLES = [[], [1], [2], [3], [2, 1], [0, 1], [0, 0, 2, 5, 1]]
SMALL_ALPHA = [b'0', b'1', b'a', b'\r', b'\n', b';']
# legal spellings of a Transfer-Encoding value whose final coding is chunked (token case-insensitive, OWS around commas)
TE_SPELLINGS = ['chunked', 'Chunked', 'CHUNKED', 'chUNked', 'gzip,chunked', 'gzip, chunked', 'gzip , chunked',
                'gzip,\tchunked', 'x-custom, Chunked', 'gzip, deflate, chunked', 'GZIP,  CHUNKED', 'identity,chunked']


def exhaustive(tier):
    return False   # the listed finite space is enumerated completely, but a seeded random part is added


def nontrivial(case):
    if case['kind'] == 'wire':
        return b'\r\n' in case['wire']
    return len(case['pieces']) > 0


def _compositions(b):
    n = len(b)
    if n == 0:
        yield []
        return
    for mask in range(1 << (n - 1)):
        out, start = [], 0
        for i in range(1, n):
            if mask >> (i - 1) & 1:
                out.append(b[start:i])
                start = i
        out.append(b[start:])
        yield out


ADVERSARIAL = [
    [b'abcdef'], [b'ab', b'cdefg'], [b'0\r\n\r\n'], [b'a\r\n0\r\n\r\n', b'0'], [b'\r\n', b'\r\n'], [b';a\r', b'\n0'],
    [b'abcdefghijklmnopq'], [b'0123456789abcdef', b'x'], [b'ab\r\n0\r'], [b'a' * 33, b'\r', b'b' * 16],
]


def _encodings(tier, core):
    """parameter dicts of legal encodings (deterministic order)."""
    maxlen = 2 if tier == 'quick' else 3
    alpha = [b'a', b'\r', b'\n', b'0', b';']
    piece_lists = [[]]
    for n in range(1, maxlen + 1):
        for t in itertools.product(alpha, repeat=n):
            piece_lists.extend(_compositions(b''.join(t)))
    piece_lists.extend(ADVERSARIAL)
    if core:
        # encodings whose every prefix / framing corruption is enumerated
        pl = [[], [b'a'], [b'ab'], [b'a', b'b'], [b'\r\n'], [b'0\r\n'], [b'abc', b'\r\n'], [b'abcdef'], [b'ab\r\n0\r'],
              [b'0\r\n\r\n', b';'], [b'abcdefghijklmnopq']]
        if tier != 'quick':
            pl += [[b'a', b'\r', b'\n'], [b'0', b'0'], [b'\n', b'0\r'], [b'abcdefg', b'hi'], [b'0123456789abcdef', b'x']]
        fmts = ['{:x}', '{:X}', '{:02x}']
        exts = ['', ';x', ';a=b']
        tails = [('0', b''), ('000', b''), ('0', b'X-T: 1\r\n')]
        for pieces in pl:
            for fmt in fmts:
                for ext in exts:
                    for zero, trailer in tails:
                        yield dict(pieces=pieces, fmt=fmt, ext=ext, zero=zero, trailer=trailer)
        return
    fmts = ['{:x}', '{:X}', '{:02x}', '{:04X}']
    exts = ['', ';x', ';a=b', ';a="q;r"']
    tails = [('0', b''), ('000', b''), ('0', b'X-T: 1\r\n'), ('0', b'A: b\r\nC: 0\r\n')]
    for pieces in piece_lists:
        for fmt in fmts:
            for ext in exts:
                for zero, trailer in tails:
                    yield dict(pieces=pieces, fmt=fmt, ext=ext, zero=zero, trailer=trailer)


def gen_cases(tier, seed):
    quick = tier == 'quick'
    # 1. legal encodings, unit level, full product with buffers and fragmentation
    buffs = [4, 5, 16, 64]
    for i, enc in enumerate(_encodings(tier, core=False)):
        for buff in buffs:
            for cyc in CYCLES:
                for level in ('iter', 'read'):
                    yield dict(kind='legal', level=level, buff=buff, cycle=cyc, **enc)
        # end to end for a deterministic subset
        if i % (7 if quick else 3) == 0:
            for buff in (5, 16):
                for cyc in ([], [1], [2], [0, 0, 2, 5, 1]):
                    yield dict(kind='legal', level='app', buff=buff, cycle=cyc, **enc)
    # 2. core encodings: every strict prefix, every framing substitution
    dbuffs = [5, 16] if quick else [4, 5, 16]
    dcycles = [[], [1], [2]] if quick else [[], [1], [2], [2, 1], [0, 0, 2, 5, 1]]
    for j, enc in enumerate(_encodings(tier, core=True)):
        e = cs.encode(enc['pieces'], enc['fmt'], enc['ext'], enc['zero'], None, enc['trailer'])
        n = len(e['wire'])
        for cut in range(0, n):
            for buff in dbuffs:
                for cyc in dcycles:
                    yield dict(kind='prefix', level='iter', buff=buff, cycle=cyc, cut=cut, **enc)
            if cut % 3 == j % 3:
                yield dict(kind='prefix', level='app', buff=16, cycle=[2] if cut % 2 else [], cut=cut, **enc)
                yield dict(kind='prefix', level='read', buff=5, cycle=[1] if cut % 2 else [], cut=cut, **enc)
        for pos in e['framing']:
            for sub in SUBST:
                if e['wire'][pos:pos + 1] == sub:
                    continue
                for buff in dbuffs:
                    for cyc in dcycles:
                        yield dict(kind='corrupt', level='iter', buff=buff, cycle=cyc, pos=pos, sub=sub, **enc)
                if (pos + j) % 4 == 0:
                    yield dict(kind='corrupt', level='app', buff=16, cycle=[], pos=pos, sub=sub, **enc)
        # a chunk whose data is not followed by CRLF: both separator bytes replaced / one dropped
        for k in range(len(enc['pieces'])):
            for how in ('XY', 'drop_cr', 'drop_lf', 'drop_both', 'swap'):
                for buff in dbuffs:
                    for cyc in dcycles:
                        for level in ('iter', 'app'):
                            yield dict(kind='nocrlf', level=level, buff=buff, cycle=cyc, k=k, how=how, **enc)
    # 3. small scope: all byte strings over a 6-letter alphabet as the wire
    maxw = 5 if quick else 6
    for n in range(0, maxw + 1):
        for t in itertools.product(SMALL_ALPHA, repeat=n):
            w = b''.join(t)
            yield dict(kind='wire', level='iter', buff=4, cycle=[], wire=w)
            yield dict(kind='wire', level='iter', buff=16, cycle=[1], wire=w)
            if n <= 4:
                yield dict(kind='wire', level='app', buff=16, cycle=[], wire=w)
    # 4. seeded random larger encodings
    rnd = random.Random(seed)
    for _ in range(400 if quick else 6000):
        pieces = [bytes(rnd.choice(b'a\r\n0;\xffZ') for _ in range(rnd.choice([1, 2, 3, 15, 16, 17, 40, 300])))
                  for _ in range(rnd.randrange(0, 5))]
        enc = dict(pieces=pieces, fmt=rnd.choice(['{:x}', '{:X}', '{:03x}']), ext=rnd.choice(['', ';x', ';name=val']),
                   zero=rnd.choice(['0', '00']), trailer=rnd.choice([b'', b'T: v\r\n']))
        cyc = [rnd.choice([0, 0, 1, 2, 3, 7, 20]) for _ in range(rnd.randrange(0, 6))]
        buff = rnd.choice([8, 16, 17, 64, 1000])
        level = rnd.choice(['iter', 'read', 'app'])
        yield dict(kind='legal', level=level, buff=buff, cycle=cyc, **enc)
        e = cs.encode(pieces, enc['fmt'], enc['ext'], enc['zero'], None, enc['trailer'])
        yield dict(kind='prefix', level=level, buff=buff, cycle=cyc, cut=rnd.randrange(0, len(e['wire'])), **enc)
        yield dict(kind='corrupt', level=level, buff=buff, cycle=cyc, pos=rnd.choice(e['framing']),
                   sub=bytes([rnd.randrange(256)]), **enc)


    # 5. end to end x spelling of the Transfer-Encoding header (chunked as the final coding)
    for j, enc in enumerate(_encodings(tier, core=True)):
        if enc['fmt'] != '{:x}' or enc['ext'] not in ('', ';x'):
            continue
        e = cs.encode(enc['pieces'], enc['fmt'], enc['ext'], enc['zero'], None, enc['trailer'])
        n = len(e['wire'])
        for te in TE_SPELLINGS[1:]:
            for cyc in ([], [1]):
                yield dict(kind='legal', level='app', buff=16, cycle=cyc, te=te, **enc)
            for cut in range(0, n):
                yield dict(kind='prefix', level='app', buff=16, cycle=[], cut=cut, te=te, **enc)
            for k in range(len(enc['pieces'])):
                for how in ('XY', 'drop_cr', 'drop_lf', 'drop_both', 'swap'):
                    yield dict(kind='nocrlf', level='app', buff=16, cycle=[], k=k, how=how, te=te, **enc)
    # 6. the body through Request.copy(): after the original was accessed (also when it was refused) / instead of it
    for c in gen_copy_cases(tier):
        yield c
    rnd = random.Random(seed + 5)
    for _ in range(300 if quick else 4000):
        pieces = [bytes(rnd.choice(b'a\r\n0;\xffZ') for _ in range(rnd.choice([1, 2, 3, 15, 16, 17, 40, 300])))
                  for _ in range(rnd.randrange(1, 5))]
        enc = dict(pieces=pieces, fmt=rnd.choice(['{:x}', '{:X}', '{:03x}']), ext=rnd.choice(['', ';x', ';name=val']),
                   zero=rnd.choice(['0', '00']), trailer=rnd.choice([b'', b'T: v\r\n']))
        cyc = [rnd.choice([0, 0, 1, 2, 3, 7, 20]) for _ in range(rnd.randrange(0, 6))]
        buff = rnd.choice([16, 17, 64, 1000])
        te = rnd.choice(TE_SPELLINGS)
        yield dict(kind='legal', level='app', buff=buff, cycle=cyc, te=te, **enc)
        e = cs.encode(pieces, enc['fmt'], enc['ext'], enc['zero'], None, enc['trailer'])
        yield dict(kind='prefix', level='app', buff=buff, cycle=cyc, cut=rnd.randrange(0, len(e['wire'])), te=te, **enc)


LOOKALIKE = [[b'3\r\nabc\r\n0\r\n\r\n'], [b'1\r\nZ\r\n', b'0\r\n\r\n'], [b'5\r\nhello\r\n0\r\n\r\n', b'2\r\nab\r\n']]


def gen_copy_cases(tier):
    encs = [e for e in _encodings(tier, core=True) if e['fmt'] == '{:x}' and e['ext'] in ('', ';x')]
    for pieces in LOOKALIKE:
        for ext in ('', ';x'):
            encs.append(dict(pieces=pieces, fmt='{:x}', ext=ext, zero='0', trailer=b''))
    for enc in encs:
        e = cs.encode(enc['pieces'], enc['fmt'], enc['ext'], enc['zero'], None, enc['trailer'])
        n = len(e['wire'])
        for access in ('copy-after', 'copy-first'):
            for buff in (5, 16):
                for cyc in ([], [1]):
                    yield dict(kind='legal', level='app', buff=buff, cycle=cyc, access=access, **enc)
            for cut in range(0, n):
                yield dict(kind='prefix', level='app', buff=16, cycle=[], cut=cut, access=access, **enc)
            for k in range(len(enc['pieces'])):
                for how in ('XY', 'drop_cr', 'drop_lf', 'drop_both', 'swap'):
                    yield dict(kind='nocrlf', level='app', buff=16, cycle=[], k=k, how=how, access=access, **enc)


# ---------------------------------------------------------------------------------------------------------

def _wire_and_demand(case):
    """-> (wire, demand, expected_body, info).  demand in 'exact' | 'exact_or_reject' | 'reject' | 'any'."""
    kind, buff = case['kind'], case['buff']
    if kind == 'wire':
        wire = case['wire']
        return (wire,) + _by_reference(wire, buff)
    e = cs.encode(case['pieces'], case['fmt'], case['ext'], case['zero'], None, case['trailer'])
    wire, payload = e['wire'], e['payload']
    fits = max(e['lines']) <= buff
    ref = cs.decode(wire)
    # self-check of the spec pair: the reference decoder must agree with the encoder on every legal encoding
    assert ref.kind == 'legal' and ref.body == payload and ref.end == e['zero_end'] and ref.lines == e['lines'], \
        ('spec encoder/decoder disagree', wire, ref.as_dict())
    if kind == 'legal':
        return wire, ('exact' if fits else 'exact_or_reject'), payload, dict(lines=e['lines'])
    if kind == 'prefix':
        cut = case['cut']
        w = wire[:cut]
        if cut < e['zero_end']:
            assert cs.decode(w).kind == 'truncated', ('reference does not call a strict prefix truncated', w)
            return w, 'reject', None, dict(zero_end=e['zero_end'])
        return w, ('exact' if fits else 'exact_or_reject'), payload, dict(zero_end=e['zero_end'])
    if kind == 'nocrlf':
        # the CRLF after the data of chunk k
        off = 0
        for i, p in enumerate(case['pieces']):
            off += e['lines'][i] + len(p)
            if i == case['k']:
                break
            off += 2
        assert wire[off:off + 2] == b'\r\n'
        how = case['how']
        rep = {'XY': b'XY', 'drop_cr': b'\n', 'drop_lf': b'\r', 'drop_both': b'', 'swap': b'\n\r'}[how]
        w = wire[:off] + rep + wire[off + 2:]
        ref = cs.decode(w)
        # by construction the data is not followed by CRLF -- unless what follows happens to start with CRLF
        # (cannot, the next byte is a hex digit) ; the reference must say so
        assert ref.kind in ('no_crlf', 'truncated'), ('reference accepts a chunk without CRLF', w, ref.as_dict())
        return w, 'reject', None, dict(ref=ref.kind)
    if kind == 'corrupt':
        pos = case['pos']
        w = wire[:pos] + case['sub'] + wire[pos + 1:]
        return (w,) + _by_reference(w, buff)
    raise AssertionError(kind)


def _by_reference(wire, buff):
    ref = cs.decode(wire)
    if ref.kind in ('truncated', 'no_crlf'):
        return 'reject', None, dict(ref=ref.kind, why=ref.why)
    if ref.kind == 'legal':
        fits = max(ref.lines) <= buff
        return ('exact' if fits else 'exact_or_reject'), ref.body, dict(ref='legal', lines=ref.lines)
    return 'any', None, dict(ref='garbage', why=ref.why)


def _short_read(stream):
    """some read was answered with fewer bytes than asked while data remained (a genuine short read)."""
    pos = 0
    for asked, answered in zip(stream.asked, stream.answered):
        pos += answered
        if answered < asked and pos < len(stream.data):
            return True
    return False


def run_case(case):
    from ombott.request_pkg import body_mixin
    from ombott.request_pkg.errors import BodyParsingError
    wire, demand, exp, info = _wire_and_demand(case)
    buff = case['buff']
    cyc = case['cycle']
    nreads = len(wire) + 8
    script = (cyc * (nreads // len(cyc) + 1))[:nreads] if cyc else []
    stream = FragStream(wire, script, None)
    level = case['level']

    accepted = None     # bytes if a body was presented as complete
    if level in ('iter', 'read'):
        try:
            if level == 'iter':
                parts = []
                for part in body_mixin._iter_chunked(stream.read, buff):
                    parts.append(part)
                accepted = b''.join(parts)
            else:
                body = body_mixin._body_read(stream.read, buff, chunked=True)
                body.seek(0)
                accepted = body.read()
                body.close()
        except BodyParsingError:
            accepted = None
        except Exception as e:  # noqa - any other exception type breaks the frame
            return fail('X1.exception_type', exc=repr(e), wire=wire, demand=demand, short_read=_short_read(stream), **info)
        status = None
    else:
        import ombott
        app = ombott.Ombott({'max_memfile_size': buff})
        seen = {}

        @app.route('/b', method='POST')
        def h():
            # the body is accessed twice: a refusal must not turn into a (partial / shifted) body on a later access
            outcomes = []
            req = app.request
            if case.get('access') == 'copy-after':
                objs = [lambda: req, lambda: req.copy(), lambda: req.copy().copy(), lambda: req.copy(), lambda: req]
            elif case.get('access') == 'copy-first':
                c = req.copy()
                objs = [lambda: c, lambda: c.copy(), lambda: c.copy(), lambda: c]
            else:
                objs = [lambda: req, lambda: req]
            for get in objs:
                try:
                    outcomes.append(('ok', get().body.read()))
                except ombott.HTTPError as e:
                    outcomes.append(('err', e.status_code))
            seen['outcomes'] = outcomes
            if outcomes[0][0] == 'err':
                raise ombott.HTTPError(outcomes[0][1], 'refused')
            seen['body'] = outcomes[0][1]
            return 'ok'
        te = case.get('te')
        if te is None:
            env = make_environ('/b', 'POST', stream=stream, chunked=True, content_length=None)
        else:
            env = make_environ('/b', 'POST', stream=stream, content_length=None, headers={'Transfer-Encoding': te})
            info = dict(info, te=te)
        res = serve(app, env)
        status = res.status
        oc = seen.get('outcomes') or []
        if case.get('access') and any(o != oc[0] for o in oc):
            return fail('X7.copy_differs', access=case['access'], outcomes=oc, wire=wire, status=status,
                        short_read=_short_read(stream), **info)
        if len(oc) == 2 and oc[0] != oc[1]:
            return fail('X6.second_access_differs', outcomes=oc, wire=wire, status=status, short_read=_short_read(stream), **info)
        if res.exc is not None:
            return fail('X1.escaped', exc=repr(res.exc), wire=wire, demand=demand, short_read=_short_read(stream), **info)
        code = res.code
        if code == 200:
            if 'body' not in seen:
                return fail('X1.status', status=status, note='200 without the handler reading a body', wire=wire)
            accepted = seen['body']
        elif code is not None and 400 <= code < 500:
            accepted = None
            if res.calls != 1:
                return fail('X1.start_response_calls', calls=res.calls, status=status, wire=wire)
        else:
            return fail('X1.status', status=status, errors=res.errors[-600:], wire=wire, demand=demand,
                        short_read=_short_read(stream), **info)

    sr = _short_read(stream)
    if demand == 'any':
        return None
    if demand == 'reject':
        if accepted is not None:
            return fail('X3.accepted_incomplete' if case['kind'] in ('prefix', 'nocrlf') else 'X4.accepted_incomplete',
                        observed=accepted, wire=wire, status=status, short_read=sr, **info)
        return None
    # exact / exact_or_reject
    if accepted is None:
        if demand == 'exact':
            return fail('X2.legal_rejected' if case['kind'] in ('legal', 'prefix') else 'X4.legal_rejected',
                        expected=exp, wire=wire, status=status, short_read=sr, **info)
        return None
    if accepted != exp:
        return fail('X2.exact' if case['kind'] in ('legal', 'prefix') else 'X4.exact',
                    expected=exp, observed=accepted, wire=wire, status=status, short_read=sr, **info)
    return None


# recognisers of known defect classes (labels only)
FINDINGS = {
    # D2: `_iter_chunked` accounts with the size asked (`rest_len -= part_size`) and reads the CRLF after the data
    # with one `read(2)`: wrong as soon as a read is answered with fewer bytes than asked while data remains.
    'D2-short-read-accounting': lambda case, failure: (
        failure.get('short_read') is True
        and failure.get('clause') in ('X2.legal_rejected', 'X2.exact', 'X4.legal_rejected', 'X4.exact',
                                      'X3.accepted_incomplete', 'X4.accepted_incomplete')),
}
