"""C19 bounded contract check: building a URL from matched parameters leads back to the same match.

For one rule on a router holding only that rule, and every generated request path the REAL router matches
(`RadiRouter.resolve`), the parameter assignment of that match (named values from the real answer, anonymous
values positionally) is handed to the REAL `Route.url`:

  K1.url_raises   url() raises although the assignment was produced by matching a path
  K2.literals     the literal parts of the rule do not appear verbatim and in order in the built URL
                  (the leading '/' of the rule is optional in the URL; checked with an anchored scan, not find)
  K3.no_match     the built URL is not matched by the rule again
  K3.values       it is matched, but with other parameter values (type-strict; anonymous ones included)

Paths on which the real router and the reference matcher of /verif/spec/route_spec.py disagree about the match
itself are property C01's business and are skipped here (they do not produce an assignment to start from).
"""
import random
import re

from spec import route_spec as S
from bounded.cases import _router_common as C
from bounded.common import fail

BOUND = ('single-rule routers: every rule of the exhaustive segment universe of C01 (17 segment forms incl. adjacent '
         'wildcards, in-segment literals, anonymous wildcards, int/float/re/path filters; <=3 segments) and of the '
         '68-rule hand pool, plus 300 (thorough 6000) seeded random rules, each in the 3 syntax flavours x request '
         'paths: rule-guided (each wildcard filled from a value pool incl. empty text, CR, non-ASCII, signs, leading '
         'zeros, long/tiny/huge numerals, values containing the following literal; then perturbed; 80..150 per rule '
         "quick, 400 thorough) and all strings of length <=3 (3-segment rules quick: <=2, every 4th <=3; thorough: <=4) "
         "over {a,b,/,1,-,.,e-acute,CR} behind a leading '/'; every path the real router matches is round-tripped")
NONTRIVIAL_RULE = ('distinct (rule, flavour, path source); non-trivial = the rule has a wildcard and matches at least one generated path; one case round-trips every '
                   'matching path among 100..5000 generated ones')

EXTRA = {
    'float': ['10000000000000000000000', '0.00000001', '123456789012345678', '0.1000000000000000055', '-0.0', '00.5',
              '1.50', '-12.25', '100000000000000000', '0.0001', '0.00001', '9999999999999999.5'],
    'int': ['007', '-007', '123456789012345678901234567890', '0', '-0', '10'],
    'path': ['a/b/b', 'b', 'ab', '/b', 'a//', 'bb', 'a/b/', 'b/b/b', 'a.b', 'é'],
    None: ['b', 'bb', 'a.b', '-1', '1.5', 'aé', 'é\r'],
    're': ['aab', 'bba', 'aaa'],
}
EXTRA_THOROUGH = {'float': ['1' + '0' * 400, '0.' + '0' * 330 + '1', '-1' + '0' * 30]}


def exhaustive(tier):
    return False


def nontrivial(case):
    """The rule has a wildcard and at least one of the case's rule-guided paths is matched (so at least one
    round trip really happens; e.g. `/a<x>b` can never match: the plain wildcard runs to the next '/')."""
    rule = case['rule']
    if not C.rule_has_wildcard(rule):
        return False
    for src in case['paths']:
        if src[0] == 'guided':
            for pth in C.guided_paths(rule, random.Random(src[1]), min(src[2], 60)):
                if S.match(rule, pth) is not None:
                    return True
    return False


def gen_cases(tier, seed):
    quick = tier == 'quick'
    small = C.rule_pool() + C.universe_rules(2)
    # literal text that would mean something to a formatting mini-language (percent-encoded octets, %s, %%, braces kept out
    # because '{' opens a wildcard in rule syntax): literals must come back verbatim
    small += [
        [['L', '/caf%C3%A9/'], ['W', 'x', None, None]],
        [['L', '/a%20b/'], ['W', 'n', 'int', None], ['L', '/c']],
        [['L', '/x%%y/'], ['W', 'v', None, None]],
        [['L', '/fmt%s/'], ['W', 'u', None, None], ['L', '/%d']],
        [['L', '/'], ['W', 'p', 'int', None], ['L', '%/of/'], ['W', 'w', None, None]],
    ]
    rnd = random.Random(seed)
    for _ in range(300 if quick else 6000):
        small.append(C.random_rule(rnd))
    k = 0
    for rule in small:
        seen_text = set()
        has_wild = C.rule_has_wildcard(rule)
        for fl in S.FLAVOURS:
            text = S.render(rule, fl)
            if text in seen_text:
                continue
            seen_text.add(text)
            k += 1
            src = [['guided', k, 150 if quick else 400, 0 if quick else 1]]
            if has_wild:
                src.append(['all', 3 if quick else 4, 0, 1])
            yield dict(rule=rule, flavour=fl, paths=src)
    # three-segment universe
    for rule in C.universe_rules(3):
        if sum(seg[1].count('/') for seg in rule if S.is_lit(seg)) < 3 or not C.rule_has_wildcard(rule):
            continue                      # shorter ones are in `small`
        k += 1
        seen_text = set()
        for fl in S.FLAVOURS:
            text = S.render(rule, fl)
            if text in seen_text:
                continue
            seen_text.add(text)
            if quick:
                yield dict(rule=rule, flavour=fl, paths=[['guided', k, 80, 0], ['all', 3 if k % 4 == 0 else 2, 0, 1]])
            else:
                yield dict(rule=rule, flavour=fl, paths=[['guided', k, 400, 1], ['all', 4, 0, 1]])


def _paths(case):
    rule = case['rule']
    for src in case['paths']:
        if src[0] == 'all':
            for pth in C.all_paths(src[1], src[2], src[3]):
                yield pth
        elif src[0] == 'guided':
            extra = dict(EXTRA)
            if src[3]:
                extra['float'] = EXTRA['float'] + EXTRA_THOROUGH['float']
            for pth in C.guided_paths(rule, random.Random(src[1]), src[2], extra):
                yield pth
        elif src[0] == 'list':
            for pth in src[1]:
                yield pth
        else:
            raise AssertionError(src[0])


def _literal_scan(rule, url):
    """Anchored check of 'literal parts appear verbatim and in order': the URL must be
    lit0 <anything> lit1 <anything> ... with the first literal at the start and, if the rule ends with a
    literal, that literal at the end (leading '/' optional)."""
    parts = []
    for k, seg in enumerate(rule):
        if S.is_lit(seg):
            text = seg[1]
            parts.append(('/?' + re.escape(text[1:])) if k == 0 else re.escape(text))
        else:
            parts.append('.*')
    return re.fullmatch(''.join(parts), url, re.S) is not None


def _float_repr_not_decimal(values):
    return any(isinstance(v, float) and re.fullmatch(r'-?\d+(\.\d+)?', str(v)) is None for v in values)


def _diag(rule, m):
    """Facts about the assignment that the FINDINGS recognisers look at."""
    d = {}
    d['float_repr_not_decimal'] = _float_repr_not_decimal(m['values'])
    d['float_infinite'] = any(isinstance(v, float) and v in (float('inf'), float('-inf')) for v in m['values'])
    # a path wildcard followed by a literal / a filtered wildcard that captured the empty text
    # a path wildcard followed by a literal whose captured value does not itself contain that literal (the
    # look-ahead pattern `.+(?=literal)` then cannot match the bare value)
    flag = False
    w = 0
    for k, seg in enumerate(rule):
        if S.is_lit(seg):
            continue
        if seg[2] == 'path' and k + 1 < len(rule) and m['texts'][w].find(rule[k + 1][1], 1) < 0:
            flag = True
        w += 1
    d['path_before_literal'] = flag
    wilds = [seg for seg in rule if not S.is_lit(seg)]
    d['empty_filtered_capture'] = any(seg[2] is not None and t == '' for seg, t in zip(wilds, m['texts']))
    return d


def run_case(case):
    from ombott.router.radirouter import RadiRouter
    rule, fl = case['rule'], case['flavour']
    text = S.render(rule, fl)
    router = RadiRouter()
    route = router.add(text, 'GET', C.make_handler(0))
    names = S.wild_names(rule)
    first_known = None
    done = set()
    for path in _paths(case):
        if path in done:
            continue
        done.add(path)
        obs = C.observe_resolve(router, path, 'GET')
        m = S.match(rule, path)
        if obs[0] != 'ok' or m is None or not C.same_params(obs[2], m['params']):
            continue                      # no assignment produced / C01's business
        kwargs = dict(obs[2])
        args = [v for nm, v in zip(names, m['values']) if nm is None]
        failure = None

        def out(clause, **kw):
            kw.update(_diag(rule, m))
            return fail(clause, rule=text, path=path, args=args, kwargs=kwargs, **kw)
        try:
            url = route.url(*args, **kwargs)
        except Exception as e:  # noqa
            failure = out('K1.url_raises', error='%s: %s' % (type(e).__name__, str(e)[:200]))
        else:
            if not isinstance(url, str) or not S.literals_in_order(rule, url) or not _literal_scan(rule, url):
                failure = out('K2.literals', url=url, literals=S.literals(rule))
            else:
                back = C.observe_resolve(router, url, 'GET')
                m2 = S.match(rule, url)
                if back[0] != 'ok':
                    failure = out('K3.no_match', url=url, observed=list(back))
                elif not C.same_params(back[2], kwargs):
                    failure = out('K3.values', url=url, observed=back[2])
                elif m2 is not None and C.same_params(back[2], m2['params']):
                    # anonymous values are not visible in the router's answer: read them off the reference scan
                    again = [v for nm, v in zip(names, m2['values']) if nm is None]
                    if len(again) != len(args) or not all(C.same_value(a, b) for a, b in zip(again, args)):
                        failure = out('K3.values', url=url, observed_anonymous=again)
        if failure is not None:
            if not any(pred(case, failure) for pred in FINDINGS.values()):
                return failure
            if first_known is None:
                first_known = failure
    return first_known


# ----------------------------------------------------------------------------- known defect classes (D16 + one more)
def _path_then_literal(case, failure):
    """A `path` wildcard followed by a literal: url() applies the look-ahead pattern to the bare value and its
    self-check (`assert f_in(prt)[1]`) fails."""
    return (failure.get('clause') == 'K1.url_raises' and failure.get('error', '').startswith('AssertionError')
            and failure.get('path_before_literal') is True)


def _float_exponent(case, failure):
    """A float value whose str() is not a plain decimal: exponent notation (1e+22, 1e-05) gives a URL the rule
    does not match; 'inf' (a numeral beyond the float range was matched) does not even pass url()'s self-check."""
    if failure.get('float_repr_not_decimal') is not True:
        return False
    if failure.get('clause') in ('K3.no_match', 'K3.values'):
        return True
    return (failure.get('clause') == 'K1.url_raises' and failure.get('error', '').startswith('AssertionError')
            and failure.get('float_infinite') is True and not failure.get('path_before_literal')
            and not failure.get('empty_filtered_capture'))


def _empty_capture(case, failure):
    """A filtered wildcard (re that can match the empty text) captured '': url()'s self-check demands a
    non-empty match and raises AssertionError."""
    return (failure.get('clause') == 'K1.url_raises' and failure.get('error', '').startswith('AssertionError')
            and failure.get('empty_filtered_capture') is True and not failure.get('path_before_literal'))


FINDINGS = {
    'C19-path-filter-with-trailing-literal': _path_then_literal,
    'C19-float-repr-with-exponent': _float_exponent,
    'C19-empty-filtered-capture-asserts': _empty_capture,
}
