"""C11 bounded stand-in / replay harness: the router after any edit history equals a freshly built router.

A case is a small *universe* (route rules, hook rules, names, removal prefixes - segment lists of spec/route_spec.py), an
alphabet of edit operations over it, a history prefix and a depth d.  run_case applies the prefix to a real application
and then explores EVERY continuation of length <= d over the alphabet, breadth first, merging histories that lead to the
same (real router state, model state).  Beside the real router a model of what the statement says survives is kept:

    add rule/method(s)/handler [name] [overwrite] accepted -> route exists, every METHOD of the call -> handler, name -> route
                                                 refused  -> nothing changes, no method of the call's list is registered
                                                             (duplicate method without overwrite,
                                                             name held by another route without overwrite, filter clash)
    remove(rule) / remove(name=) / remove('prefix*')  -> the route(s) and every name pointing to them are gone
    add hook / remove hook                        -> hook present / gone ("prefix*" removal leaves the fate of hooks under
                                                     the prefix unspecified: those are ignored until re-installed/removed)

After every operation (clauses are sentences of the property statement):
    K0.outcome      the operation is accepted/refused as it is on a router freshly built from the model
    K1.resolve      for all probe paths x {GET, POST}: resolve() on the edited router == resolve() on a router freshly
                    built from the surviving routes and hooks (404/405+Allow/handler, parameters, collected hooks+positions)
    K2.by_name      router[name] agrees with the fresh router for every name of the universe
    K3.by_rule      router[{rule}] and router.routes agree with the fresh router for every rule of the universe
    K4.hook_index   get_hook(rule) answers for exactly the surviving hooks
    K5.hooks_fired  through Ombott.__call__: the hooks that fire for a served path are exactly
                    spec.hook_calls(matched rule, path, surviving hooks): rule-extends, outermost first, matched prefix;
                    all of them before the handler, the handler once
    K6.handler_kwargs  through Ombott.__call__: the handler of a surviving route receives exactly the parameters of its own
                    rule (names as the route's rule spells them, values by spec.match) - a hook installed on, replaced on
                    or removed from the same pattern under OTHER wildcard names leaves the route intact
K1.resolve compares handler, the parameter dict (names, value types, values) and the collected hooks+positions; the fresh
router is built twice (hooks after / before the routes) and the edited router must agree with both builds.
Random walks (length 40) over a larger universe are checked after every step; a walk restarts from an empty router after
a failure so that known defects do not end it.
"""
import random

from spec import route_spec as S
from bounded.common import fail, make_environ, serve
from bounded.cases import _router_common as RC

R, W = RC.R, RC.W

BOUND = ('7 universes (quick; thorough adds an 8th): literal split/merge nodes /ab,/abc,/abd; wildcard siblings /a/:x,/a/:x/b,/a/b '
         'with the filter-clashing /a/<n:int>; hook-only prefixes /h,/q/r,/ over /h/a,/h/b,/h/a/c; two names over three '
         'rules; root + path filter; (in-segment wildcards + int) - each 3-4 route rules, 1-4 hook rules incl. prefix-only, '
         'mid-segment and root ones, 0-2 names, 1-2 removal prefixes, alphabets of 14-17 operations {add, add overwrite, '
         'refused add (dup / name / filter), remove(rule), remove(name), remove(prefix*), add hook, replace hook, remove '
         'hook}: ALL histories of length <= 4 (thorough <= 5) explored breadth first with merging on (real tree + indexes, '
         'model) state, every reached state checked on <= 40 probe paths x {GET,POST} + lookups + hooks fired through '
         '__call__; plus 80 (thorough 2500) seeded random walks of length 40 over the 8-rule / 3-hook / 2-name / 3-prefix '
         'universe of DESIGN.md, checked after every step, restarting after a failure; plus MULTI-METHOD registrations (one '
         'call with a list of 2-3 methods over GET/POST/PUT, refused as a whole when its first, middle or last method is '
         'taken; with overwrite; with a name): a universe /item,/item/:x,/other of 18 operations explored like the others, '
         'and 40 (thorough 1200) random walks over the DESIGN.md universe with 10 single/multi-method adds per rule; plus HOOK '
         'RULES THAT RENAME THE WILDCARDS of a route pattern (/users/:id vs hook /users/:uid, /users/:id/posts/:pid vs hook '
         '/users/:u/posts/: (anonymous), <n:int> vs <k:int>, a:x/:y vs hook a:y/:x, <p:path> vs <q:path>, :x/b vs :w/b): two '
         'universes of 18 / 16 operations, quick: all histories of length <= 3 and of length <= 4 behind an add+hook/unhook '
         'pair (thorough: <= 5 like the others), and 60 (thorough 1500) random walks over the DESIGN.md universe with the '
         'hook rules /a/:u, /a/:v/b, /a/b; every fresh router is built twice (hooks after / before the routes) and, through '
         '__call__, the kwargs handed to the handler are compared with the independent matcher on the route\'s own rule')
NONTRIVIAL_RULE = 'distinct (universe, prefix, depth) or walk; every case replays at least one edit and checks >= 1 state'


def exhaustive(tier):
    return True


def nontrivial(case):
    return bool(case.get('prefix')) or case.get('depth', 0) > 0 or bool(case.get('walk'))


# ----------------------------------------------------------------------------- universes
def _universes():
    x, n, p = W('x'), W('n', 'int'), W('p', 'path')
    # m: one method name, or a list of method names registered by ONE call (refused as a whole if any of them is taken)
    A = lambda ri, m='GET', ow=0, name=None: ['add', ri, m, 'r%d.%s%s' % (ri, m if isinstance(m, str) else '+'.join(m), '!' if ow else ''), ow, name]  # noqa
    U = {}
    U['split'] = dict(
        rules=[R('/ab'), R('/abc'), R('/abd')],
        hooks=[R('/ab'), R('/a'), R('/abc/d')],
        names=['n1'], prefixes=[[R('/ab'), 'colon'], [R('/abc'), 'colon']],
        ops=[A(0), A(1), A(2), ['rm', 0], ['rm', 1], ['rm', 2], ['hook', 0, 'H0'], ['unhook', 0], ['hook', 1, 'H1'],
             ['unhook', 1], ['hook', 2, 'H2'], ['unhook', 2], ['rmprefix', 0], ['rmprefix', 1], A(1, 'GET', 1), A(0, 'POST', 0, 'n1'),
             ['rmname', 'n1']])
    U['wild'] = dict(
        rules=[R('/a/', x), R('/a/', x, '/b'), R('/a/b'), R('/a/', n)],
        hooks=[R('/a/', x), R('/a/'), R('/a/', x, '/b')],
        names=[], prefixes=[[R('/a/', x), 'angle'], [R('/a/'), 'colon']],
        ops=[A(0), A(1), A(2), A(3), ['rm', 0], ['rm', 1], ['rm', 2], ['rm', 3], ['hook', 0, 'H0'], ['unhook', 0],
             ['hook', 1, 'H1'], ['unhook', 1], ['hook', 2, 'H2'], ['unhook', 2], ['rmprefix', 0], ['rmprefix', 1]])
    U['hookonly'] = dict(
        rules=[R('/h/a'), R('/h/b'), R('/h/a/c')],
        hooks=[R('/h'), R('/h/a'), R('/q/r'), R('/')],
        names=[], prefixes=[[R('/h/a'), 'colon']],
        ops=[A(0), A(1), A(2), ['rm', 0], ['rm', 1], ['rm', 2], ['hook', 0, 'H0'], ['unhook', 0], ['hook', 1, 'H1'],
             ['unhook', 1], ['hook', 2, 'H2'], ['unhook', 2], ['hook', 3, 'H3'], ['unhook', 3], ['rmprefix', 0],
             ['hook', 0, 'H0b']])
    U['names'] = dict(
        rules=[R('/a'), R('/b'), R('/a/', x)],
        hooks=[R('/a')],
        names=['n1', 'n2'], prefixes=[[R('/a'), 'colon']],
        ops=[A(0, 'GET', 0, 'n1'), A(0, 'POST', 0, 'n2'), A(1, 'GET', 0, 'n1'), A(1, 'GET', 1, 'n1'), A(2, 'GET', 0, 'n2'),
             A(0), ['rmname', 'n1'], ['rmname', 'n2'], ['rm', 0], ['rm', 1], ['rm', 2], ['rmprefix', 0],
             ['hook', 0, 'H0'], ['unhook', 0]])
    U['root'] = dict(
        rules=[R('/'), R('/', p), R('/a')],
        hooks=[R('/'), R('/a')],
        names=['n1'], prefixes=[[R('/'), 'colon'], [R('/a'), 'colon']],
        ops=[A(0), A(1), A(2), ['rm', 0], ['rm', 1], ['rm', 2], ['hook', 0, 'H0'], ['unhook', 0], ['hook', 1, 'H1'],
             ['unhook', 1], ['rmprefix', 0], ['rmprefix', 1], A(0, 'GET', 1, 'n1'), ['rmname', 'n1']])
    U['inseg'] = dict(
        rules=[R('/a', x), R('/a', x, '/b'), R('/ab'), R('/a/', n, '/c')],
        hooks=[R('/a', x), R('/a'), R('/a/', n)],
        names=[], prefixes=[[R('/a'), 'colon'], [R('/a/', n, '/'), 'angle']],
        ops=[A(0), A(1), A(2), A(3), ['rm', 0], ['rm', 1], ['rm', 2], ['rm', 3], ['hook', 0, 'H0'], ['unhook', 0],
             ['hook', 1, 'H1'], ['unhook', 1], ['hook', 2, 'H2'], ['unhook', 2], ['rmprefix', 0], ['rmprefix', 1]])
    # a filtered wildcard node whose children are literals that start right after the wildcard (no '/' between):
    # removing one of them must not merge the wildcard node with the child that is left
    U['paramkids'] = dict(
        rules=[R('/f/', n, '.j'), R('/f/', n, '/e'), R('/f/', n), R('/f/', n, '.k')],
        hooks=[R('/f/', n)],
        names=[], prefixes=[[R('/f/', n, '.'), 'angle']],
        ops=[A(0), A(1), A(2), A(3), ['rm', 0], ['rm', 1], ['rm', 2], ['rm', 3], ['hook', 0, 'H0'], ['unhook', 0], ['rmprefix', 0]])
    # registrations of SEVERAL methods by one call: such a call is refused as a whole when any method of its list (the
    # first, a middle or the last one) is already taken - a refused call must leave no method of its list behind
    G, P, T = 'GET', 'POST', 'PUT'
    U['multi'] = dict(
        rules=[R('/item'), R('/item/', x), R('/other')],
        hooks=[R('/item')],
        names=['n1'], prefixes=[[R('/item/'), 'colon']],
        ops=[A(0, G), A(0, P), A(0, T), A(0, [P, G]), A(0, [G, P]), A(0, [T, P, G]), A(0, [P, T]), A(0, [P, G], 1),
             A(1, [G, P]), A(1, P), A(1, [T, P], 0, 'n1'), A(2, [P, G], 0, 'n1'), A(2, G),
             ['rm', 0], ['rm', 1], ['rmname', 'n1'], ['rmprefix', 0], ['hook', 0, 'H0']])
    # hook rules that spell the wildcards of a route's pattern with OTHER names (and anonymously): installing / replacing /
    # removing such a hook must leave the parameter names of the route alone - "survivors are intact"
    i_, pid, uid, u_, k_ = W('id'), W('pid'), W('uid'), W('u'), W('k', 'int')
    U['hooknames'] = dict(
        rules=[R('/users'), R('/users/', i_), R('/users/', i_, '/posts/', pid), R('/f/', n)],
        hooks=[R('/users/', uid), R('/users/', u_, '/posts/', W(None)), R('/f/', k_), R('/users')],
        names=['n1'], prefixes=[[R('/users/'), 'colon']],
        ops=[A(0), A(1), A(1, 'POST', 0, 'n1'), A(2), A(3), ['rm', 1], ['rm', 2], ['rm', 3], ['hook', 0, 'H0'], ['hook', 0, 'H0b'],
             ['unhook', 0], ['hook', 1, 'H1'], ['unhook', 1], ['hook', 2, 'H2'], ['unhook', 2], ['hook', 3, 'H3'],
             ['rmprefix', 0], A(1, 'GET', 1)])
    # the same on in-segment wildcards, two wildcards in one rule renamed crosswise (x<->y) and a path filter
    y = W('y')
    U['hooknames2'] = dict(
        rules=[R('/a', x, '/', y), R('/a', x), R('/d/', p), R('/', x, '/b')],
        hooks=[R('/a', y, '/', x), R('/a', W('z')), R('/d/', W('q', 'path')), R('/', W('w'), '/b')],
        names=[], prefixes=[[R('/a'), 'colon']],
        ops=[A(0), A(1), A(2), A(3), ['rm', 0], ['rm', 1], ['rm', 2], ['hook', 0, 'H0'], ['unhook', 0], ['hook', 1, 'H1'],
             ['unhook', 1], ['hook', 2, 'H2'], ['unhook', 2], ['hook', 3, 'H3'], ['unhook', 3], ['rmprefix', 0]])
    # the universe of DESIGN.md (random walks)
    rules8 = [R('/ab'), R('/abc'), R('/abd'), R('/a/', x), R('/a/', x, '/b'), R('/a/', n), R('/a/b'), R('/')]
    ops = []
    for ri in range(8):
        ops += [A(ri), A(ri, 'POST'), A(ri, 'GET', 1), A(ri, 'GET', 0, 'n1'), A(ri, 'POST', 1, 'n2'), ['rm', ri], ['rm', ri]]
    for hi in range(3):
        ops += [['hook', hi, 'H%d' % hi], ['hook', hi, 'H%db' % hi], ['unhook', hi], ['unhook', hi]]
    ops += [['rmname', 'n1'], ['rmname', 'n2'], ['rmprefix', 0], ['rmprefix', 1], ['rmprefix', 2]]
    U['design8'] = dict(
        rules=rules8, hooks=[R('/ab'), R('/a/', x), R('/a')], names=['n1', 'n2'],
        prefixes=[[R('/ab'), 'colon'], [R('/a/'), 'colon'], [R('/a/', x, '/'), 'colon']], ops=ops)
    # the same universe with multi-method registrations (a second set of random walks)
    mops = []
    for ri in range(8):
        mops += [A(ri), A(ri, P), A(ri, T), A(ri, [P, G]), A(ri, [G, T]), A(ri, [T, P, G]), A(ri, [P, T], 0, 'n1'),
                 A(ri, [G, P], 1, 'n2'), ['rm', ri], ['rm', ri]]
    for hi in range(3):
        mops += [['hook', hi, 'H%d' % hi], ['unhook', hi]]
    mops += [['rmname', 'n1'], ['rmname', 'n2'], ['rmprefix', 0], ['rmprefix', 1], ['rmprefix', 2]]
    U['design8m'] = dict(U['design8'], ops=mops)
    # ... and with hook rules that rename the wildcards of the route patterns (a third set of random walks)
    hops = list(ops)
    for hi in range(3, 5):
        hops += [['hook', hi, 'H%d' % hi], ['hook', hi, 'H%db' % hi], ['unhook', hi], ['unhook', hi]]
    U['design8h'] = dict(U['design8'], ops=hops,
                         hooks=[R('/ab'), R('/a/', W('u')), R('/a'), R('/a/', W('v'), '/b'), R('/a/b')])
    for u in U.values():
        u['rules'] = [[r, 'colon'] for r in u['rules']]
        u['hooks'] = [[r, 'colon'] for r in u['hooks']]
        u['probes'] = _probes(u)
    return U


def _fill(rule):
    """Concrete paths for a rule: wildcards replaced by a few values."""
    outs = ['']
    for seg in rule:
        if S.is_lit(seg):
            outs = [o + seg[1] for o in outs]
        else:
            vals = {'int': ['7', '-1'], 'path': ['v', 'v/w'], None: ['v', 'b', '7']}.get(seg[2], ['a'])
            outs = [o + v for o in outs for v in vals]
    return outs


def _probes(u):
    base = []
    for r, _f in u['rules'] + u['hooks'] + u['prefixes']:
        for pth in _fill(r):
            if pth not in base:
                base.append(pth)
    out = ['/', '/zz', '/a']
    for b in base:                       # every rule-derived path first, then the perturbations
        if b not in out:
            out.append(b)
    for b in base:
        for q in (b + '/v', b + 'c', b[:-1], b + '/'):
            if q.startswith('/') and q not in out:
                out.append(q)
    return out[:40]


UNIVERSES = _universes()


def _mkcase(uname, prefix, depth):
    u = UNIVERSES[uname]
    return dict(kind='bfs', universe=uname, rules=u['rules'], hooks=u['hooks'], names=u['names'], prefixes=u['prefixes'],
                ops=u['ops'], probes=u['probes'], prefix=prefix, depth=depth)


def gen_cases(tier, seed):
    cases = []
    scen = ['split', 'wild', 'hookonly', 'names', 'root', 'paramkids', 'inseg', 'multi', 'hooknames', 'hooknames2']
    for uname in scen:
        ops = UNIVERSES[uname]['ops']
        if tier == 'quick' and uname == 'inseg':
            continue
        if tier == 'quick' and uname.startswith('hooknames'):
            # all histories of length <= 3; of length <= 4 behind a route registration and a hook op (in either order)
            for o1 in ops:
                for o2 in ops:
                    mixed = {o1[0], o2[0]} in ({'add', 'hook'}, {'add', 'unhook'})
                    cases.append(_mkcase(uname, [o1, o2], 2 if mixed else 1))
        elif tier == 'quick':
            for o1 in ops:
                for o2 in ops:
                    cases.append(_mkcase(uname, [o1, o2], 2))
        else:
            for o1 in ops:
                for o2 in ops:
                    cases.append(_mkcase(uname, [o1, o2], 3))
    rnd = random.Random(seed * 104729 + 11)
    u = UNIVERSES['design8']
    for _ in range(80 if tier == 'quick' else 2500):
        walk = [rnd.choice(u['ops']) for _k in range(40)]
        cases.append(dict(kind='walk', universe='design8', rules=u['rules'], hooks=u['hooks'], names=u['names'],
                          prefixes=u['prefixes'], probes=u['probes'], walk=walk))
    u = UNIVERSES['design8m']
    for _ in range(40 if tier == 'quick' else 1200):
        walk = [rnd.choice(u['ops']) for _k in range(40)]
        cases.append(dict(kind='walk', universe='design8m', rules=u['rules'], hooks=u['hooks'], names=u['names'],
                          prefixes=u['prefixes'], probes=u['probes'], walk=walk))
    u = UNIVERSES['design8h']
    for _ in range(60 if tier == 'quick' else 1500):
        walk = [rnd.choice(u['ops']) for _k in range(40)]
        cases.append(dict(kind='walk', universe='design8h', rules=u['rules'], hooks=u['hooks'], names=u['names'],
                          prefixes=u['prefixes'], probes=u['probes'], walk=walk))
    random.Random(4242).shuffle(cases)
    return cases


# ----------------------------------------------------------------------------- the model (what the statement says survives)
def _mlist(m):
    return [m] if isinstance(m, str) else list(m)


class Model:
    def __init__(self, case):
        self.rules = [r for r, _f in case['rules']]
        self.hrules = [r for r, _f in case['hooks']]
        self.prules = [r for r, _f in case['prefixes']]
        self.rkeys = [S.tokens(r) for r in self.rules]
        self.hkeys = [S.tokens(r) for r in self.hrules]
        self.routes = {}      # key -> [first rule index, {METHOD: hid}]
        self.names = {}       # name -> key
        self.hooks = {}       # hook index -> hook id
        self.unspec = set()   # hook indexes whose fate a prefix* removal left unspecified

    def canon(self):
        return (tuple(sorted((self.rkeys.index(k), v[0], tuple(sorted(v[1].items()))) for k, v in self.routes.items())),
                tuple(sorted(self.names.items())), tuple(sorted(self.hooks.items())), tuple(sorted(self.unspec)))

    def _live(self, with_unspec=False):
        out = [self.rules[v[0]] for v in self.routes.values()] + [self.hrules[h] for h in self.hooks]
        if with_unspec:
            out += [self.hrules[h] for h in self.unspec]
        return out

    def predict(self, op):
        """('accept'|'refuse'|'either'|'noop', reason)."""
        kind = op[0]
        if kind in ('add', 'hook'):
            rule = self.rules[op[1]] if kind == 'add' else self.hrules[op[1]]
            if any(S.filter_conflict(rule, q) for q in self._live()):
                return 'refuse', 'filter'
            maybe = any(S.filter_conflict(rule, self.hrules[h]) for h in self.unspec)
            if kind == 'hook':
                return ('either', 'filter-vs-unspecified-hook') if maybe else ('accept', '')
            _, ri, m, _hid, ow, name = op
            cur = self.routes.get(self.rkeys[ri])
            if cur and not ow and any(mm in cur[1] for mm in _mlist(m)):
                return 'refuse', 'dup'
            if name and not ow and name in self.names and self.names[name] != self.rkeys[ri]:
                return 'refuse', 'name'
            return ('either', 'filter-vs-unspecified-hook') if maybe else ('accept', '')
        if kind == 'rm':
            return ('accept', '') if self.rkeys[op[1]] in self.routes else ('noop', '')
        if kind == 'rmname':
            return ('accept', '') if op[1] in self.names else ('noop', '')
        if kind == 'unhook':
            return ('accept', '') if op[1] in self.hooks else ('noop', '')
        return 'accept', ''

    def _drop_route(self, key):
        self.routes.pop(key, None)
        for nm in [nm for nm, k in self.names.items() if k == key]:
            del self.names[nm]

    def apply(self, op):
        kind = op[0]
        if kind == 'add':
            _, ri, m, hid, _ow, name = op
            key = self.rkeys[ri]
            for mm in _mlist(m):
                self.routes.setdefault(key, [ri, {}])[1][mm] = hid
            if name:
                self.names[name] = key
        elif kind == 'rm':
            self._drop_route(self.rkeys[op[1]])
        elif kind == 'rmname':
            if op[1] in self.names:
                self._drop_route(self.names[op[1]])
        elif kind == 'rmprefix':
            ps = S.shape(self.prules[op[1]])
            for key in [k for k, v in self.routes.items() if S.shape(self.rules[v[0]])[:len(ps)] == ps]:
                self._drop_route(key)
            for hi in range(len(self.hrules)):
                if S.shape(self.hrules[hi])[:len(ps)] == ps and (hi in self.hooks or hi in self.unspec):
                    self.hooks.pop(hi, None)
                    self.unspec.add(hi)
        elif kind == 'hook':
            self.hooks[op[1]] = op[2]
            self.unspec.discard(op[1])
        elif kind == 'unhook':
            self.hooks.pop(op[1], None)
            self.unspec.discard(op[1])


# ----------------------------------------------------------------------------- the real side
class World:
    """Everything needed to run histories of one case on real routers."""

    def __init__(self, case):
        self.case = case
        self.rtext = [S.render(r, f) for r, f in case['rules']]
        self.htext = [S.render(r, f) for r, f in case['hooks']]
        self.ptext = [S.render(r, f) + '*' for r, f in case['prefixes']]
        self.log = []
        self._handlers = {}
        self._hookfns = {}
        self.fresh_cache = {}

    def handler(self, hid):
        h = self._handlers.get(hid)
        if h is None:
            log = self.log

            def h(**kw):
                log.append(('h', hid, kw))
                return 'ok'
            h.hid = hid
            self._handlers[hid] = h
        return h

    def hookfn(self, hkid):
        f = self._hookfns.get(hkid)
        if f is None:
            log = self.log

            def f(prefix):
                log.append(('hook', hkid, prefix))
            f.hid = hkid
            self._hookfns[hkid] = f
        return f

    def do(self, app, op):
        """Apply op through the application's API.  None if accepted, else the error text."""
        kind = op[0]
        try:
            if kind == 'add':
                _, ri, m, hid, ow, name = op
                app.add_route(self.rtext[ri], m if isinstance(m, str) else list(m), self.handler(hid), name, overwrite=bool(ow))
            elif kind == 'rm':
                app.remove_route(self.rtext[op[1]])
            elif kind == 'rmname':
                app.remove_route(name=op[1])
            elif kind == 'rmprefix':
                app.remove_route(self.ptext[op[1]])
            elif kind == 'hook':
                app.on_route(self.htext[op[1]], self.hookfn(op[2]))
            elif kind == 'unhook':
                app.remove_route_hook(self.htext[op[1]])
            else:
                raise AssertionError(op)
        except AssertionError:
            raise
        except Exception as e:  # noqa - the contract decides
            return '%s: %s' % (type(e).__name__, str(e)[:160])
        return None

    def fresh(self, model, hooks_first=False):
        """A router freshly built from the surviving routes, names and hooks (universe order; the statement does not say
        whether a fresh build installs the hooks after or before the routes, so both builds are references)."""
        from ombott.router.radirouter import RadiRouter
        r = RadiRouter()
        if hooks_first:
            for hi in sorted(model.hooks):
                r.add_hook(self.htext[hi], self.hookfn(model.hooks[hi]))
        for key in sorted(model.routes, key=model.rkeys.index):
            ri, table = model.routes[key]
            for m, hid in table.items():
                r.add(self.rtext[ri], m, self.handler(hid))
        for nm, key in sorted(model.names.items()):
            r.add(self.rtext[model.routes[key][0]], [], self.handler('-'), nm, overwrite=True)
        if not hooks_first:
            for hi in sorted(model.hooks):
                r.add_hook(self.htext[hi], self.hookfn(model.hooks[hi]))
        return r


def _hk_index(hkid):
    try:
        return int(hkid[1:].rstrip('b'))
    except Exception:  # noqa
        return -1


def _route_repr(route):
    if route is None:
        return None
    try:
        return (route.rule, tuple(sorted((m, getattr(rm.handler, 'hid', '?')) for m, rm in route.methods.items())))
    except Exception as e:  # noqa
        return ('exc', type(e).__name__)


def _observe(router, path, verb, unspec):
    try:
        end_point, err = router.resolve(path, S.candidates_for(verb))
    except Exception as e:  # noqa
        return ('exc', '%s: %s' % (type(e).__name__, str(e)[:80]))
    if end_point:
        meth, params, hooks = end_point
        hk = []
        for pos, slot in (hooks or []):
            f = slot[0] if slot else None
            if f is None:
                continue
            hid = getattr(f, 'hid', '?')
            if _hk_index(hid) in unspec:
                continue
            hk.append((pos, hid))
        return ('ok', getattr(meth.handler, 'hid', '?'), tuple(sorted((k, type(v).__name__, v) for k, v in params.items())),
                tuple(hk))
    if err[0] == 404:
        return ('404',)
    if err[0] == 405:
        return ('405', err[2])
    return ('exc', 'unexpected error tuple')


def _lookup(router, key):
    try:
        return _route_repr(router[key])
    except Exception as e:  # noqa
        return ('exc', type(e).__name__)


def _hook_lookup(router, text):
    try:
        slot = router.get_hook(text)
    except KeyError:
        return None
    except Exception as e:  # noqa
        return ('exc', type(e).__name__)
    f = slot[0] if slot else None
    return getattr(f, 'hid', '?') if f is not None else None


def _fresh_view(world, model):
    """What a router freshly built from the model answers (depends on the model state only: cached per case)."""
    key = model.canon()
    view = world.fresh_cache.get(key)
    if view is None:
        case = world.case
        F = world.fresh(model)
        view = dict(
            obs=[[_observe(F, path, verb, model.unspec) for verb in ('GET', 'POST')] for path in case['probes']],
            names=[_lookup(F, nm) for nm in case['names']],
            rules=[_lookup(F, {text}) for text in world.rtext],
            index=sorted((p, _route_repr(r)) for p, r in F.routes.items()))
        if model.hooks and model.routes:
            F2 = world.fresh(model, hooks_first=True)
            view['obs_hooks_first'] = [[_observe(F2, path, verb, model.unspec) for verb in ('GET', 'POST')]
                                       for path in case['probes']]
        world.fresh_cache[key] = view
    return view


def check_state(world, app, model):
    """All clauses on one reached state.  None or (clause, details)."""
    case = world.case
    E = app.router
    view = _fresh_view(world, model)
    unspec = model.unspec
    served = []
    obs2 = view.get('obs_hooks_first')
    for pi, path in enumerate(case['probes']):
        for vi, verb in enumerate(('GET', 'POST')):
            oe = _observe(E, path, verb, unspec)
            of = view['obs'][pi][vi]
            if oe != of:
                det = dict(path=path, verb=verb, edited=oe, fresh=of)
                if oe[0] == 'ok' and of[0] == 'ok' and oe[:3] == of[:3]:
                    he, hf = [h for _p, h in oe[3]], [h for _p, h in of[3]]
                    det['hook_extra'] = [h for h in he if h not in hf]
                    det['hook_missing'] = [h for h in hf if h not in he]
                return 'K1.resolve', det
            if obs2 is not None and oe != obs2[pi][vi]:
                return 'K1.resolve', dict(path=path, verb=verb, edited=oe, fresh=obs2[pi][vi],
                                          fresh_build='hooks installed before the routes')
            if oe[0] == 'ok' and (not served or served[-1][0] != path):
                served.append((path, verb, oe[1]))
    for ni, nm in enumerate(case['names']):
        le, lf = _lookup(E, nm), view['names'][ni]
        if le != lf:
            return 'K2.by_name', dict(name=nm, edited=le, fresh=lf)
    for ri, text in enumerate(world.rtext):
        le, lf = _lookup(E, {text}), view['rules'][ri]
        if le != lf:
            return 'K3.by_rule', dict(rule=text, edited=le, fresh=lf)
    ie = sorted((p, _route_repr(r)) for p, r in E.routes.items())
    if ie != view['index']:
        return 'K3.by_rule', dict(index='router.routes', edited=ie, fresh=view['index'])
    for hi, text in enumerate(world.htext):
        if hi in unspec:
            continue
        he = _hook_lookup(E, text)
        if he != model.hooks.get(hi):
            return 'K4.hook_index', dict(hook_rule=text, edited=he, expected=model.hooks.get(hi))
    # hooks fired through the application, against the statement's own oracle
    definite = [(model.hrules[hi], hkid) for hi, hkid in sorted(model.hooks.items())]
    for path, verb, hid in served:
        del world.log[:]
        res = serve(app, make_environ(path, verb))
        log = list(world.log)
        ri = int(hid[1:hid.index('.')])
        rule = model.rules[ri]
        if S.match(rule, path) is None:
            continue                                   # selection itself is C01's subject
        exp = [list(c) for c in S.hook_calls(rule, path, definite)]
        fired = [[e[1], e[2]] for e in log if e[0] == 'hook' and _hk_index(e[1]) not in unspec]
        handled = [i for i, e in enumerate(log) if e[0] == 'h']
        det = dict(path=path, verb=verb, matched_rule=world.rtext[ri], expected=exp, fired=fired, status=res.status)
        if fired != exp:
            det['hook_extra'] = [h for h, _p in fired if h not in [x[0] for x in exp]]
            det['hook_missing'] = [h for h, _p in exp if h not in [x[0] for x in fired]]
            return 'K5.hooks_fired', det
        if res.code != 200 or len(handled) != 1 or handled[0] != len(log) - 1 or log[-1][1] != hid:
            det['log'] = [list(e[:2]) for e in log]
            return 'K5.hooks_fired', det
        # a surviving route is intact: its handler is called with the parameters of ITS OWN rule (names and values by the
        # independent matcher), whatever hooks were installed on / removed from the same pattern in the meantime
        want = S.match(rule, path)['params']
        got = log[-1][2]
        if not RC.same_params(got, want):
            return 'K6.handler_kwargs', dict(path=path, verb=verb, matched_rule=world.rtext[ri], expected=want, observed=got,
                                             hooks=[world.htext[hi] for hi in sorted(model.hooks)])
    return None


def _canon_real(router):
    """Hashable picture of the complete router state (tree + indexes); used only to merge equal states."""
    try:
        from ombott.router import radidict as RD
        from ombott.router.filter_factory import FilterFactory
        fnames = {id(v[0]): k for k, v in FilterFactory._filter_cache.items()}
        ids = {}

        def rid(route):
            if route is None:
                return None
            return (ids.setdefault(id(route), len(ids)), _route_repr(route), tuple(route.params))

        def node(nd):
            hooks = nd[RD.HOOKS]
            return (nd[RD.KEY], nd[RD.IDX] or '', tuple(nd[RD.PARAMS] or ()), fnames.get(id(nd[RD.FILTER]), nd[RD.FILTER] and id(nd[RD.FILTER])),
                    bool(nd[RD.IS_EXCLUSIVE]),
                    None if hooks is None else tuple(getattr(h, 'hid', None) if h else None for h in hooks),
                    rid(nd[RD.DATA]), tuple(node(c) for c in nd[RD.OFFSET:]))
        tree = node(router.radidict.root)
        return (tree, tuple((p, rid(r)) for p, r in sorted(router.routes.items())),
                tuple((n, rid(r)) for n, r in sorted(router.named_routes.items())),
                tuple((p, tuple(getattr(h, 'hid', None) if h else None for h in hs)) for p, hs in sorted(router.hooks.items())))
    except Exception:  # noqa - unknown internals: no merging
        return None


# ----------------------------------------------------------------------------- histories
def _step(world, app, model, op):
    """Apply one op on both sides.  None or (clause, details)."""
    pred, reason = model.predict(op)
    err = world.do(app, op)
    if pred == 'accept':
        if err is not None:
            return 'K0.outcome', dict(op=op, expected='accepted (a fresh router accepts it)', observed=err)
        model.apply(op)
    elif pred == 'refuse':
        if err is None:
            # statement silent on *whether* this must be refused; what counts is agreement with a fresh router
            F = world.fresh(model)
            import ombott
            shadow = ombott.Ombott()
            shadow.router = F
            if world.do(shadow, op) is not None:
                return 'K0.outcome', dict(op=op, expected='refused (%s), as a fresh router does' % reason, observed='accepted')
            model.apply(op)
    elif pred == 'either':
        if err is None:
            model.apply(op)
    else:   # noop: removing what is not there may raise or not; nothing may change
        pass
    return None


def _replay(world, seq, check_last=True):
    import ombott
    app = ombott.Ombott()
    model = Model(world.case)
    for i, op in enumerate(seq):
        f = _step(world, app, model, op)
        if f:
            return app, model, f
    if check_last:
        return app, model, check_state(world, app, model)
    return app, model, None


def _mkfail(case, seq, clause, det, extra=None):
    d = dict(det)
    d['seq'] = [list(o) for o in seq]
    d['class'] = classify(case, d, clause)
    if extra:
        d.update(extra)
    return fail(clause, **d)


def run_case(case):
    world = World(case)
    if case['kind'] == 'walk':
        return _run_walk(world, case)
    failures = []
    prefix = [list(o) for o in case['prefix']]
    # the prefix, state by state
    for k in range(1, len(prefix) + 1):
        app, model, f = _replay(world, prefix[:k])
        if f:
            return _mkfail(case, prefix[:k], f[0], f[1])
    if not prefix:
        app, model, f = _replay(world, [])
    seen = {(_canon_real(app.router), model.canon())}
    frontier = [prefix]
    nstates = 1
    for _level in range(case['depth']):
        nxt = []
        for seq in frontier:
            for op in case['ops']:
                seq2 = seq + [list(op)]
                app, model, f = _replay(world, seq2, check_last=False)
                if f is None:
                    cr = _canon_real(app.router)
                    key = (cr, model.canon()) if cr is not None else ('seq', repr(seq2))
                    if key in seen:
                        continue
                    seen.add(key)
                    nstates += 1
                    f = check_state(world, app, model)
                if f:
                    failures.append((seq2, f[0], f[1]))
                else:
                    nxt.append(seq2)
        frontier = nxt
    return _pick(case, failures, nstates)


def _pick(case, failures, nstates):
    if not failures:
        return None
    fs = [_mkfail(case, seq, clause, det) for seq, clause, det in failures]
    unknown = [f for f in fs if f['class'] == 'unclassified']
    primary = (unknown or fs)[0]
    classes = {}
    for f in fs:
        k = '%s/%s' % (f['clause'], f['class'])
        classes[k] = classes.get(k, 0) + 1
    primary['failing_states'] = len(fs)
    primary['states_checked'] = nstates
    primary['classes_in_case'] = classes
    return primary


def _run_walk(world, case):
    import ombott
    failures = []
    app, model, seg = ombott.Ombott(), Model(case), []
    n = 0
    for op in case['walk']:
        seg.append(list(op))
        f = _step(world, app, model, op)
        if f is None:
            f = check_state(world, app, model)
            n += 1
        if f:
            failures.append(_shrink(world, list(seg), f))
            app, model, seg = ombott.Ombott(), Model(case), []
    return _pick(case, failures, n)


def _shrink(world, seq, f):
    """Greedy one-op deletion keeping the last op and the failing clause (deterministic; only shortens the report)."""
    clause = f[0]
    i = len(seq) - 2
    while i >= 0 and len(seq) > 1:
        cand = seq[:i] + seq[i + 1:]
        _app, _model, g = _replay(world, cand)
        if g and g[0] == clause:
            seq, f = cand, g
        i -= 1
    return seq, f[0], f[1]


# ----------------------------------------------------------------------------- triage of known defect classes
def classify(case, det, clause):
    """Names the known defect class of a failure from the clause and the distinguishing feature of the history that
    produced it (pure function of case + failure details); 'unclassified' otherwise."""
    try:
        seq = det.get('seq') or []
        if not seq:
            return 'unclassified'
        model = Model(case)
        stale = set()      # hooks removed while their node carried no route (D13a trigger), until re-installed... and after
        lost = set()       # hooks alive in the model whose node a later removal at/below their rule may have pruned (D13b)
        last = lpred = lroutes = None
        for op in seq:
            pred = model.predict(op)
            routes = {k: v[0] for k, v in model.routes.items()}
            names = dict(model.names)
            if op[0] == 'unhook' and (op[1] in model.hooks or op[1] in model.unspec) and model.hkeys[op[1]] not in routes:
                stale.add(op[1])
            if op[0] in ('rm', 'rmname', 'rmprefix', 'unhook'):
                for hi in model.hooks:
                    if _removal_touches(model, op, routes, names, hi):
                        lost.add(hi)
            if op[0] == 'hook':
                lost.discard(op[1])
            last, lpred, lroutes = op, pred, routes
            if pred[0] in ('accept', 'either'):
                model.apply(op)
        extra = {_hk_index(h) for h in det.get('hook_extra') or []}
        missing = {_hk_index(h) for h in det.get('hook_missing') or []}
        if clause in ('K1.resolve', 'K5.hooks_fired') and (extra or missing) and extra <= stale and missing <= lost:
            return 'D13a+D13b' if (extra and missing) else ('D13a' if extra else 'D13b')
        if clause == 'K4.hook_index' and det.get('edited') is None and det.get('expected'):
            if _hk_index(det['expected']) in stale:
                return 'D13a'      # the stale slot is re-used in place, so the index is not refreshed
        if lpred == ('refuse', 'filter') and last[0] in ('add', 'hook') and (
                (clause == 'K0.outcome' and det.get('observed') == 'accepted') or clause in ('K1.resolve', 'K2.by_name', 'K3.by_rule')):
            rule = model.rules[last[1]] if last[0] == 'add' else model.hrules[last[1]]
            clash = [hi for hi in model.hooks if S.filter_conflict(rule, model.hrules[hi])]
            if clash and set(clash) <= lost and not any(S.filter_conflict(rule, model.rules[v[0]]) for v in model.routes.values()):
                return 'D13b'      # the only thing that forbids the rule is a hook whose node was pruned away
        if last[0] == 'rm' and lpred[0] == 'noop' and clause in ('K1.resolve', 'K3.by_rule'):
            # removal of a rule that is not registered, while a route of the same shape with other filters is
            shp = S.shape(model.rules[last[1]])
            if any(S.shape(model.rules[ri]) == shp for ri in lroutes.values()):
                return 'N3'
        if last[0] == 'add' and lpred == ('refuse', 'name') and clause in ('K1.resolve', 'K2.by_name', 'K3.by_rule'):
            return 'N1'
        if clause == 'K2.by_name':
            m2 = Model(case)
            for op in seq:
                pred = m2.predict(op)
                if op[0] == 'rmname' and op[1] in m2.names and [n for n, k in m2.names.items() if k == m2.names[op[1]] and n != op[1]]:
                    return 'N2'
                if pred[0] in ('accept', 'either'):
                    m2.apply(op)
    except Exception:  # noqa
        pass
    return 'unclassified'


def _removal_touches(model, op, routes, names, hi):
    """The removal `op` (applied in a state with `routes`: key -> rule index, `names`) removes a route or hook whose rule
    extends (or equals) the rule of hook hi - the situation in which pruning can take the hook's node away."""
    hrule = model.hrules[hi]
    routeless = model.hkeys[hi] not in routes

    def near(rule):
        """rule extends the hook's rule, or (hook node without route) is a sibling below a common non-root node: the
        parent is merged with the hook-only child and then judged empty."""
        if S.extends(rule, hrule):
            return True
        a, b = S.shape(rule), S.shape(hrule)
        return routeless and bool(a) and bool(b) and a[0] == b[0]
    if op[0] == 'rm':
        return near(model.rules[op[1]])
    if op[0] == 'rmname':
        return op[1] in names and near(model.rules[routes[names[op[1]]]])
    if op[0] == 'rmprefix':
        ps = S.shape(model.prules[op[1]])
        gone = [model.rules[ri] for ri in routes.values() if S.shape(model.rules[ri])[:len(ps)] == ps]
        return any(near(r) for r in gone) or near(model.prules[op[1]])
    if op[0] == 'unhook':
        return op[1] != hi and near(model.hrules[op[1]])
    return False


FINDINGS = {
    # remove(rule) of an unregistered rule removes the registered route that has the same shape but other filters
    'C11-N3-remove-by-rule-ignores-filters': lambda case, f: 'N3' in str(f.get('class')).split('+'),
    # remove_route_hook on a node that carries no route data (and is kept alive by children) leaves the hook in the tree
    'C11-D13a-removed-hook-on-routeless-node-still-fires': lambda case, f: 'D13a' in str(f.get('class')).split('+'),
    # removing a route / hook prunes nodes that still carry a hook: the hook is lost while router.hooks keeps it
    'C11-D13b-hook-lost-by-pruning-on-removal': lambda case, f: 'D13b' in str(f.get('class')).split('+'),
    # a registration refused because its name belongs to another route has already created the route / method
    'C11-N1-add-refused-for-name-clash-leaves-route': lambda case, f: 'N1' in str(f.get('class')).split('+'),
    # remove(name=) of a route known under two names leaves the other name pointing at the removed route
    'C11-N2-remove-by-name-leaves-other-name': lambda case, f: 'N2' in str(f.get('class')).split('+'),
}
