"""C15 bounded stand-in / replay harness: cookies round-trip; forged signed cookies are never deserialised.

Contract (statement of C15), checked on the REAL code through the real transport
set_cookie -> header list handed to the server -> (spec-side user agent: cookie-pair verbatim) ->
Cookie: header of a new request -> Request.get_cookie:

  R0  setting a cookie whose name is an RFC 6265 token and whose value is text (unsigned) or a picklable
      object (signed) of moderate size succeeds and yields one Set-Cookie per cookie.
  R1  get_cookie(name, default=ABSENT, secret=the same secret) returns a value equal to the one set (same
      type, same repr) - for every cookie of the response, with or without cookie attributes, also when
      several cookies travel in one header.
  R0/R1 hold for "the request that returns it" whatever way the handler finishes after response.set_cookie (case
      field `ending`, mode 'app'; absent = returns a str): the handler returns a str / bytes / '' / None / list /
      generator, returns or raises an HTTPResponse (200, 201 + Location, 204, 303 + Location, 404), calls abort(402 /
      404), raises HTTPError(500) or returns HTTPError(403).  The response the server gets must have the status the
      handler chose (R0.set_failed otherwise: the experiment did not run) and carry one Set-Cookie per cookie set on
      the application's response (R0.one_set_cookie_each); sent back in a second request they read back unchanged (R1).
      (A handler that crashes with an ordinary exception is not generated: the statement does not say whether the
      framework's own 500 keeps what the failed handler set.  NOT generated either: a returned / raised HTTPResponse
      that carries a cookie of its own (r.set_cookie) in addition to the cookies set on the application's response -
      on the unchanged tree HTTPResponse.apply then REPLACES the application response's cookie jar, so the cookies set
      with response.set_cookie are lost; reported separately as an observation on the unchanged tree.)
  F0  (control of the forgery experiment) the unaltered signed value, delivered the way the forgery will be
      delivered (quoted / raw pair), reads back as the value that was set.
  F1  an altered value (single-character substitution / bit flip / case flip, deletion, insertion - of 'A', '=', '?',
      the marker '!' and a copy of the neighbouring character of the cookie itself, at every offset incl. in front of
      and behind the '!' marker: "signature/payload length change" -, truncation,
      signature prefix, signature extension, signature and payload swapped between two cookies, another
      secret, attacker-built payloads with the original / no / unkeyed / wrongly keyed signature) reads as
      absent: get_cookie returns the default object itself, the request does not fail, and
      cookie_decode(altered, secret) returns None.
  F2  while the altered value is read no unpickler is reached: the `pickle` name seen by
      ombott.common_helpers is wrapped (loads / load / Unpickler counted, restored afterwards) and the
      attacker-built payloads carry an object whose unpickling would call a marker function of this module.

Outside the bound (statement silent / not a cookie name): names starting with '$' and the RFC 2109 attribute
words (path, expires, ...), which http.cookies treats as attributes; values longer than the 4 KiB limit; reading a
signed cookie under another *name*; secrets that HMAC itself cannot tell apart (trailing NUL bytes, keys longer
than the block size); empty secrets (an empty secret means "unsigned").
"""
import ast
import hashlib
import itertools
import random

from bounded.common import make_environ, serve, fail
from spec import cookie_spec

# how the handler finishes after response.set_cookie(...): name -> status the server must see
ENDINGS = {'bytes': 200, 'empty': 200, 'none': 200, 'list': 200, 'gen': 200,
           'ret:200': 200, 'ret:201': 201, 'ret:204': 204, 'ret:404': 404,
           'raise:200': 200, 'raise:204': 204, 'raise:303': 303,
           'abort:402': 402, 'abort:404': 404, 'error:500': 500, 'reterror:403': 403}
END_TEXTS = ['abc', 'a b', 'a;b', 'saved; 2 items, "ok" \\o/', '\xe9', 'a"b', '!abc?def', 'a=b']

BOUND = ('round trip: names {n, session_id, all RFC 6265 token punctuation, N} x unsigned text values (36: empty, separators '
         '; , = space, quotes, backslashes, octal look-alikes, control characters, Latin-1, BMP, astral, signed look-alike) '
         'and signed values (18: text, falsy values, bytes, nested containers, sets, stdlib objects) x secrets (6: ASCII, '
         'one letter, non-ASCII, separators, bytes) x attribute sets (4) x {through the application, response/request '
         'objects directly}; all singles, all ordered pairs of unsigned values and seeded random triples in one header. '
         'Handler endings after set_cookie on the application response: %d endings (returned str/bytes/empty/None/list/'
         'generator, returned and raised HTTPResponse with 200/201/204/303/404, abort(402/404), raised HTTPError(500), '
         'returned HTTPError(403)) x {8 unsigned texts, 6 signed values x 2 secrets, plain+signed together with '
         'attributes (2)}, read back from the Set-Cookie headers of that response in a second request. '
         'Forgery: for 3 (quick) / 42 (thorough) signed cookies, EVERY position of the signed value x {substitution by '
         '7 (quick) / 10 letters incl. non-base64 and non-ASCII, bit flip, case flip, deletion, truncation}, single-character '
         'INSERTION at every offset 0..len of {A, =, ?, the marker !, a copy of the character of the cookie at that offset '
         '(of the last one behind the end)}, every signature prefix, signature extensions, signature/payload swap with a second cookie, 6 '
         'other secrets, 9 attacker-built values (marker payload with original/empty/unkeyed/wrong-key signatures, every '
         'signature prefix) x {quoted, raw} delivery; exhaustive over that space' % len(ENDINGS))
NONTRIVIAL_RULE = 'distinct case dicts; every case sets at least one cookie and reads it back (rt) or alters a signed value (forge)'

ABSENT = object()
_BOOM = []


def _boom_called():
    """Reached only if an attacker-built payload is unpickled."""
    _BOOM.append(1)
    return 'boom'


class _Boom:
    def __reduce__(self):
        return (_boom_called, ())


# ---------------------------------------------------------------------------------------------
# bounded space
# ---------------------------------------------------------------------------------------------
NAMES = ['n', 'session_id', "a!#%&'*+-.^_`|~9", 'N']
TEXTS = ['', 'abc', 'a b', ' a ', 'a;b', 'a,b', 'a=b', '=', ';', 'a; path=/evil', 'a"b', '"q"', '"', '"a', 'a"',
         'a\\b', '\\', '\\"', 'a\\073b', '\\012', "'", 'a\r\nb', '\x00', '\t', '\x7f', 'é', 'ÿ\x80', '\xa0', 'caf\xe9; x',
         '€', 'Ā', 'a€b"c', '\U0001d11e', '!abc?def', '!?', 'ключ']
SIGNED = ["lit:'text'", "lit:''", "lit:'é€\\U0001d11e;, \"q\" \\\\'", 'lit:0', 'lit:None', 'lit:False', 'lit:1.5',
          "lit:b'\\x00\\xff'", "lit:[1, [2, (3, None)], {'k': {'n': [b'x', 'y']}}]", 'lit:(1, 2)', "lit:{'a': 1}",
          'lit:{1, 2, 3}', 'lit:[]', 'obj:date', 'obj:fraction', 'obj:odict', 'obj:complex', 'rep:x:600']
SECRETS = ['s3cret', 'k', 'ключ€', 'a b;c?!', b'\x00\xffkey', 'S3CRET']
OPTS = {'none': {}, 'path': {'path': '/'}, 'many': {'path': '/a', 'max_age': 3600, 'httponly': True, 'domain': 'example.org'},
        'exp': {'expires': 1700000000, 'secure': True}}
SUBS_QUICK = ['A', 'Q', '=', '?', '!', '-', 'é']
SUBS_MORE = ['/', '+', ' ', 'ÿ']
INS = ['A', '=', '?']
INS_MARKER = ['!']      # the marker byte itself: '!!<sig>?<msg>', '!<sig>!?<msg>', ... (a length change of the signature part)
OTHER_SECRETS = {'s3cret': ['S3cret', 's3cre', 's3cret ', 's3crett', 'x', b's3cret\xff'],
                 'ключ€': ['ключ', 'kлюч€', 'ключ€€', 'x', 'ключ€ ', b'\xff'],
                 b'\x00\xffkey': [b'\xffkey', b'\x00\xffke', b'\x00\xffkey!', 'x', b'\x00\xfekey', b'\x00']}


def exhaustive(tier):
    return True


def nontrivial(case):
    return True


def make_val(spec):
    kind, _, rest = spec.partition(':')
    if kind == 'lit':
        return ast.literal_eval(rest)
    if kind == 'rep':
        ch, _, n = rest.partition(':')
        return ch * int(n)
    if kind == 'obj':
        import collections
        import datetime
        import fractions
        return {'date': datetime.date(2020, 2, 29), 'fraction': fractions.Fraction(1, 3),
                'odict': collections.OrderedDict([('b', 1), ('a', [2, None])]), 'complex': 1 + 2j}[rest]
    raise AssertionError(spec)


def _ck(name, value, secret=None, opts='none'):
    return dict(name=name, value=value, secret=secret, opts=opts)


def _tampers(tier, length, other_secrets):
    subs = SUBS_QUICK if tier == 'quick' else SUBS_QUICK + SUBS_MORE
    for pos in range(length):
        for ch in subs:
            yield dict(k='sub', pos=pos, ch=ch)
        yield dict(k='bitflip', pos=pos)
        yield dict(k='caseflip', pos=pos)
        yield dict(k='del', pos=pos)
        yield dict(k='trunc', pos=pos)
    for pos in range(length + 1):
        for ch in INS:
            yield dict(k='ins', pos=pos, ch=ch)
    for pos in range(length + 1):       # (added behind the older enumeration so that the older cases keep their order)
        for ch in INS_MARKER:
            yield dict(k='ins', pos=pos, ch=ch)
        yield dict(k='insdup', pos=pos)  # a byte of the cookie itself: the one at this offset is doubled
    for n in range(0, 25):
        yield dict(k='sigprefix', pos=n)
        yield dict(k='evil_sigprefix', pos=n)
    for ch in ('A', '=', '=='):
        yield dict(k='sigext', ch=ch)
    yield dict(k='swap', which='own_sig_other_payload')
    yield dict(k='swap', which='other_sig_own_payload')
    for s2 in other_secrets:
        yield dict(k='othersecret', secret2=s2)
    for k in ('evil_origsig', 'evil_nosig', 'evil_md5', 'evil_emptykey', 'evil_namekey', 'evil_roles',
              'evil_sig_over_decoded', 'plain_lookalike', 'bang_only'):
        yield dict(k=k)


def gen_cases(tier, seed):
    thorough = tier != 'quick'
    # ---- round trip, unsigned
    for mode in ('app', 'direct'):
        for name in NAMES:
            for v in TEXTS:
                for opts in (OPTS if (thorough or name == 'n') else ['none']):
                    yield dict(kind='rt', mode=mode, cookies=[_ck(name, v, None, opts)])
        # ---- round trip, signed
        for name in (NAMES if thorough else NAMES[:2]):
            for v in SIGNED:
                for secret in SECRETS:
                    yield dict(kind='rt', mode=mode, cookies=[_ck(name, v, secret, 'none')])
            for v in TEXTS:     # text values, signed
                yield dict(kind='rt', mode=mode, cookies=[_ck(name, 'lit:' + repr(v), SECRETS[2], 'path')])
    # ---- several cookies in one header: every ordered pair of text values (one value may confuse its neighbour)
    for v1, v2 in itertools.product(TEXTS, repeat=2):
        yield dict(kind='rt', mode='app', cookies=[_ck('a', v1), _ck('b', v2)])
    for v1 in TEXTS:
        for v2 in SIGNED[:10]:
            yield dict(kind='rt', mode='app', cookies=[_ck('a', v1), _ck('b', v2, 's3cret'), _ck('c', v1, None, 'many')])
    rnd = random.Random(seed * 31 + 15)
    for _ in range(400 if not thorough else 6000):
        cookies = []
        for i in range(rnd.randrange(2, 5)):
            if rnd.random() < 0.5:
                t = ''.join(rnd.choice('ab ;,="\\\'\x00\n\xe9\xff€\U0001d11e!?%') for _ in range(rnd.randrange(0, 9)))
                cookies.append(_ck('c%d' % i, t, None, rnd.choice(list(OPTS))))
            else:
                cookies.append(_ck('c%d' % i, rnd.choice(SIGNED), rnd.choice(SECRETS), rnd.choice(list(OPTS))))
        yield dict(kind='rt', mode=rnd.choice(['app', 'direct']), cookies=cookies)
    # ---- the handler finishes in other ways than returning a str (cookies were set on the application's response)
    for ending in ENDINGS:
        for v in END_TEXTS:
            yield dict(kind='rt', mode='app', ending=ending, cookies=[_ck('flash', v, None, 'path')])
        for v in SIGNED[:3] + SIGNED[7:10]:
            for secret in SECRETS[:1] + SECRETS[2:3]:
                yield dict(kind='rt', mode='app', ending=ending, cookies=[_ck('sid', v, secret, 'none')])
        yield dict(kind='rt', mode='app', ending=ending,
                   cookies=[_ck('flash', END_TEXTS[3], None, 'path'), _ck('sid', SIGNED[8], 'another-s3cret', 'many')])
        yield dict(kind='rt', mode='app', ending=ending,
                   cookies=[_ck('sid', SIGNED[0], 's3cret', 'exp'), _ck('a', 'abc'), _ck('b', 'a;b', None, 'many')])
    # ---- forgery
    targets = [('n', "lit:'text'", 's3cret'), ('session_id', "lit:[1, [2, (3, None)], {'k': {'n': [b'x', 'y']}}]", 'ключ€'),
               ('N', 'lit:0', b'\x00\xffkey')]
    if thorough:
        targets = [(n, v, s) for i, v in enumerate(SIGNED[:14]) for s in OTHER_SECRETS for n in (NAMES[i % 4],)]
    for name, vspec, secret in targets:
        length = len(cookie_spec.spec_signed_value(name, make_val(vspec), secret))
        for t in _tampers(tier, length, OTHER_SECRETS[secret]):
            for quoted in (1, 0):
                yield dict(kind='forge', name=name, value=vspec, secret=secret, tamper=t, quoted=quoted)


# ---------------------------------------------------------------------------------------------
# instrumentation of the unpickler as seen by ombott.common_helpers
# ---------------------------------------------------------------------------------------------
class _PickleProxy:
    def __init__(self, real):
        self._real = real
        self.calls = 0

    def loads(self, *a, **kw):
        self.calls += 1
        return self._real.loads(*a, **kw)

    def load(self, *a, **kw):
        self.calls += 1
        return self._real.load(*a, **kw)

    def Unpickler(self, *a, **kw):
        self.calls += 1
        return self._real.Unpickler(*a, **kw)

    def __getattr__(self, name):
        return getattr(self._real, name)


class _Instrument:
    def __enter__(self):
        from ombott import common_helpers
        self.mod = common_helpers
        self.real = common_helpers.pickle
        self.proxy = _PickleProxy(self.real)
        common_helpers.pickle = self.proxy
        del _BOOM[:]
        return self.proxy

    def __exit__(self, *exc):
        self.mod.pickle = self.real
        return False


# ---------------------------------------------------------------------------------------------
# transport
# ---------------------------------------------------------------------------------------------
def _same(got, val):
    return type(got) is type(val) and got == val and repr(got) == repr(val)


def _set_all(resp, cookies):
    for c in cookies:
        val = make_val(c['value']) if c['secret'] is not None else c['value']
        resp.set_cookie(c['name'], val, secret=c['secret'], **OPTS[c['opts']])


def _gen(items):
    for it in items:
        yield it


def _finish(ombott, ending):
    """The way the handler ends after the cookies were set on the application's response."""
    if ending is None:
        return 'set'
    if ending == 'bytes':
        return b'set'
    if ending == 'empty':
        return ''
    if ending == 'none':
        return None
    if ending == 'list':
        return ['s', 'et']
    if ending == 'gen':
        return _gen(['s', 'et'])
    how, _, code = ending.partition(':')
    code = int(code)
    kw = {'Location': 'http://localhost/item/1'} if code in (201, 303) else {}
    if how == 'ret':
        return ombott.HTTPResponse('' if code == 204 else 'returned', code, **kw)
    if how == 'raise':
        raise ombott.HTTPResponse('' if code == 204 else 'raised', code, **kw)
    if how == 'abort':
        ombott.abort(code, 'aborted')
    if how == 'error':
        raise ombott.HTTPError(code, 'an error')
    if how == 'reterror':
        return ombott.HTTPError(code, 'an error')
    raise AssertionError(ending)


def _exchange(ombott, mode, cookies, header_fn, readers, ending=None):
    """Set `cookies` on a response, turn the emitted Set-Cookie values into a Cookie header with
    header_fn(list of Set-Cookie values), read with readers = [(name, secret)].
    -> (set_cookie_values, results list | None, problem dict | None)"""
    if mode == 'direct':
        resp = ombott.HTTPResponse()
        try:
            _set_all(resp, cookies)
            scs = [v for k, v in resp.headerlist if k == 'Set-Cookie']
        except Exception as e:
            return None, None, dict(stage='set', exception=repr(e))
        env = make_environ('/g', headers={'Cookie': header_fn(scs)})
        req = ombott.Request(env)
        try:
            return scs, [req.get_cookie(n, ABSENT, secret=s) for n, s in readers], None
        except Exception as e:
            return scs, None, dict(stage='get', exception=repr(e))
    app = ombott.Ombott()
    out = {}

    @app.route('/s')
    def s():
        _set_all(app.response, cookies)
        out['cookies_set'] = True
        return _finish(ombott, ending)

    @app.route('/g')
    def g():
        out['got'] = [app.request.get_cookie(n, ABSENT, secret=s) for n, s in readers]
        return 'got'
    r1 = serve(app, make_environ('/s'))
    if r1.code != ENDINGS.get(ending, 200) or r1.exc is not None or (ending is not None and 'cookies_set' not in out):
        return None, None, dict(stage='set', status=r1.status, errors=r1.errors[-300:], ending=ending)
    scs = r1.header_all('Set-Cookie')
    r2 = serve(app, make_environ('/g', headers={'Cookie': header_fn(scs)}))
    if r2.code != 200 or r2.exc is not None or 'got' not in out:
        return scs, None, dict(stage='get', status=r2.status, errors=r2.errors[-300:])
    return scs, out['got'], None


def _run_rt(ombott, case):
    cookies = case['cookies']
    readers = [(c['name'], c['secret']) for c in cookies]
    scs, got, problem = _exchange(ombott, case['mode'], cookies, cookie_spec.browser_cookie_header, readers,
                                  ending=case.get('ending'))
    if problem and problem['stage'] == 'set':
        return fail('R0.set_failed', **problem)
    if len(scs) != len(cookies):
        if case.get('ending'):
            return fail('R0.one_set_cookie_each', set_cookie=scs, expected=len(cookies), ending=case['ending'])
        return fail('R0.one_set_cookie_each', set_cookie=scs, expected=len(cookies))
    if problem:
        return fail('R1.read_failed', set_cookie=scs, **problem)
    failing = []
    for i, (c, g) in enumerate(zip(cookies, got)):
        val = make_val(c['value']) if c['secret'] is not None else c['value']
        if not _same(g, val):
            failing.append(dict(index=i, name=c['name'], signed=c['secret'] is not None, value=c['value'],
                                expected=repr(val), observed=('<absent>' if g is ABSENT else repr(g)),
                                observed_text=(g if isinstance(g, str) else None)))
    if failing:             # every cookie that did not come back is listed, so that one defect cannot hide another
        return fail('R1.roundtrip', failing=failing, set_cookie=scs)
    return None


def _wire_value(set_cookie_value):
    """The cookie value inside one Set-Cookie header value, when it is plain or merely wrapped in quotes."""
    pair = set_cookie_value.split(';', 1)[0]
    v = pair.split('=', 1)[1]
    if v.startswith('"') and v.endswith('"') and len(v) >= 2:
        v = v[1:-1]
    if '\\' in v or '"' in v:
        return None
    return v


def _flip_case(c):
    return c.lower() if c.isupper() else c.upper()


def _b64(b):
    import base64
    return base64.b64encode(b).decode('ascii')


def _tamper(ombott, case, v, sig, msg):
    """-> altered value, or None when the alteration does not apply / changes nothing."""
    import hmac
    t = case['tamper']
    k = t['k']
    name, secret = case['name'], case['secret']
    pos = t.get('pos', 0)
    if k in ('sub', 'bitflip', 'caseflip', 'del', 'trunc'):
        if pos >= len(v):
            return None
        if k == 'sub':
            return v[:pos] + t['ch'] + v[pos + 1:]
        if k == 'bitflip':
            return v[:pos] + chr(ord(v[pos]) ^ 1) + v[pos + 1:]
        if k == 'caseflip':
            return v[:pos] + _flip_case(v[pos]) + v[pos + 1:]
        if k == 'del':
            return v[:pos] + v[pos + 1:]
        return v[:pos]
    if k == 'ins':
        return v[:pos] + t['ch'] + v[pos:] if pos <= len(v) else None
    if k == 'insdup':
        if pos > len(v) or not v:
            return None
        return v[:pos] + (v[pos] if pos < len(v) else v[-1]) + v[pos:]
    if k == 'sigprefix':
        return '!' + sig[:pos] + '?' + msg if pos < len(sig) else None
    if k == 'sigext':
        return '!' + sig + t['ch'] + '?' + msg
    evil = cookie_spec.spec_payload(name, _Boom())
    tob = cookie_spec._tob
    if k == 'evil_sigprefix':
        return '!' + sig[:pos] + '?' + evil if pos <= len(sig) else None
    if k == 'evil_origsig':
        return '!' + sig + '?' + evil
    if k == 'evil_nosig':
        return '!?' + evil
    if k == 'evil_md5':
        return '!' + _b64(hashlib.md5(evil.encode()).digest()) + '?' + evil
    if k == 'evil_emptykey':
        return '!' + cookie_spec.spec_signature(b'', evil) + '?' + evil
    if k == 'evil_namekey':
        return '!' + cookie_spec.spec_signature(name, evil) + '?' + evil
    if k == 'evil_roles':
        return '!' + _b64(hmac.new(evil.encode(), tob(secret), digestmod=hashlib.md5).digest()) + '?' + evil
    if k == 'evil_sig_over_decoded':
        # the legitimate payload re-encoded with characters base64 decoding ignores: same bytes after decoding
        return '!' + sig + '?' + msg[:4] + '-' + msg[4:]
    if k == 'plain_lookalike':
        return '!' + msg + '?' + sig
    if k == 'bang_only':
        return '!'
    if k in ('swap', 'othersecret'):
        if k == 'swap':
            c2 = _ck(name, "lit:'other value'", secret)
        else:
            c2 = _ck(name, "lit:'value signed with the other secret'", t['secret2'])
        scs2, _g, problem = _exchange(ombott, 'direct', [c2], cookie_spec.browser_cookie_header, [])
        if problem or len(scs2) != 1:
            return None
        v2 = _wire_value(scs2[0])
        parts2 = cookie_spec.split_signed(v2) if v2 else None
        if not parts2:
            return None
        if k == 'othersecret':
            return v2
        if t['which'] == 'own_sig_other_payload':
            return '!' + sig + '?' + parts2[1]
        return '!' + parts2[0] + '?' + msg
    raise AssertionError(k)


def _run_forge(ombott, case):
    name, secret, quoted = case['name'], case['secret'], bool(case['quoted'])
    cookie = _ck(name, case['value'], secret)
    val = make_val(case['value'])
    state = {}

    def control_header(scs):
        state['v'] = _wire_value(scs[0]) if len(scs) == 1 else None
        if state['v'] is None:
            return cookie_spec.browser_cookie_header(scs)
        return cookie_spec.attacker_pair(name, state['v'], quoted)

    scs, got, problem = _exchange(ombott, 'app', [cookie], control_header, [(name, secret)])
    if problem and problem['stage'] == 'set':
        return fail('R0.set_failed', **problem)
    if problem or not _same(got[0], val):
        return fail('F0.control', set_cookie=scs, observed=repr(got), problem=problem)
    v = state.get('v')
    parts = cookie_spec.split_signed(v) if v else None
    if not parts:
        return None                     # a layout this harness does not know: nothing to alter
    forged = _tamper(ombott, case, v, parts[0], parts[1])
    if forged is None or forged == v:
        return None
    with _Instrument() as proxy:
        _s, got, problem = _exchange(ombott, 'app', [], lambda scs: cookie_spec.attacker_pair(name, forged, quoted),
                                     [(name, secret)])
        calls_app, boom_app = proxy.calls, len(_BOOM)
        try:
            from ombott import common_helpers
            unit = common_helpers.cookie_decode(forged, secret)
            unit_exc = None
        except Exception as e:
            unit, unit_exc = None, repr(e)
        calls_all, boom_all = proxy.calls, len(_BOOM)
    if boom_all or calls_all:
        return fail('F2.deserialised', forged=forged, original=v, loader_calls_request=calls_app,
                    loader_calls_total=calls_all, marker_payload_executed=bool(boom_all), boom_in_request=bool(boom_app))
    if problem:
        return fail('F1.absent', forged=forged, original=v, observed='request failed', **problem)
    if got[0] is not ABSENT:
        return fail('F1.absent', forged=forged, original=v, observed=repr(got[0]))
    if unit_exc is not None or unit is not None:
        return fail('F1.decode_none', forged=forged, original=v, observed=repr(unit), exception=unit_exc)
    return None


def run_case(case):
    import ombott
    if case['kind'] == 'rt':
        return _run_rt(ombott, case)
    return _run_forge(ombott, case)


def _explain(case, failure):
    """For a round-trip failure: the known-defect class of EVERY cookie that failed, or None if any is unexplained."""
    if case.get('kind') != 'rt' or failure.get('clause') != 'R1.roundtrip' or not failure.get('failing'):
        return None
    classes = set()
    for f in failure['failing']:
        c = case['cookies'][f['index']]
        v = c['value']
        if c['secret'] is not None:
            return None
        if v == '' and f['observed'] == '<absent>':
            classes.add('empty')
        elif any(ord(ch) > 0xFF for ch in v) and f['observed_text'] == ''.join(
                ch if ord(ch) <= 0xFF else ch.encode('utf8').decode('latin1') for ch in v):
            classes.add('wide')     # exactly the inherited behaviour: UTF-8 bytes of the wide characters seen as Latin-1
        else:
            return None
    return classes


FINDINGS = {
    # D15a: get_cookie returns `value or default`, so an unsigned cookie whose value is '' reads as absent
    'D15-unsigned-empty-value-reads-absent': lambda case, failure: 'empty' in (_explain(case, failure) or ()),
    # D15b: http.cookies leaves code points > U+00FF unescaped, headerlist sends them as UTF-8 and get_cookie does
    # not recode: the unsigned value comes back with those characters as their UTF-8 bytes seen as Latin-1
    'D15-unsigned-value-above-U+00FF-mangled': lambda case, failure: 'wide' in (_explain(case, failure) or ()),
}
