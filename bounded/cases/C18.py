"""C18 bounded stand-in / replay harness: query strings and urlencoded forms decode to what was sent.

Contract checked at run time on the REAL functions (clause ids):
  Q1 (unit)  parse_qsl(enc(pairs)) == pairs, in order (no callbacks / append= / setitem= promotion).
  Q2 (app)   QUERY_STRING = enc(pairs)  ->  Request.query  == fold(pairs)   (and Request.GET)
  Q3 (app)   urlencoded body = enc(pairs) -> Request.forms / Request.POST == fold(pairs)
  Q4 (app)   Request.params == fold(query pairs) united with fold(body pairs) when the key sets are disjoint
  Q5 (hist)  histories on one Request (inside a handler of a served application, and on a bare Request(environ)): the
             environ starts WITHOUT a QUERY_STRING key (PEP 3333 allows that for an empty query), with an empty one or with
             enc(pairs); then request['QUERY_STRING'] = enc(other pairs) / '' / del request['QUERY_STRING'] are applied, with
             and without a read of query / GET / params before each step.  Every read must equal fold(the pairs the request
             carries at that moment) -- never the pairs of an earlier moment.
  Q6 (hist)  the same for the urlencoded body: request['wsgi.input'] (and CONTENT_LENGTH) replaced after / before forms,
             POST, params were read; every read == fold(the body pairs the request carries at that moment).
  T1 (unit)  parse_qsl(s) returns (does not raise, does not hang) for every string s; result is a list of
             (str, str) pairs.   T2: the same through Request.query / Request.forms for arbitrary text/bytes.
fold(pairs): key -> the value (str) if the key occurs once, else the list of its values in submission order.
enc: urllib.parse.urlencode (quote_plus, UTF-8) and three other spellings of the same URL-encoding
(space as %20; lower-case hex; every byte escaped) -- all of them are "URL-encoding" of the statement.
"""
import itertools
import random

from bounded.common import make_environ, serve, fail

BOUND = ('pairs: every sequence of <=3 (quick) / <=5 (thorough) pairs over 3 keys x 2 values (repeated keys, empty values) '
         'and every single pair over a 22-string pool of awkward texts (separators = & + % ; # space, "é", "€", astral, '
         'percent-lookalikes "%41", "%", "%zz") for key and value; seeded random lists of <=6 pairs over the pool; '
         'x 4 encoder spellings x {parse_qsl plain, append=, setitem=, Request.query, Request.forms/POST, params}. '
         'Histories (Q5/Q6): start environ {no QUERY_STRING key, empty, pairs} x every sequence of <=2 (thorough <=3) steps from '
         '{assign pairs P1, assign pairs P2, assign "", del} x every choice of reading or not reading before each step x read of '
         '{query+GET, params, all} x {handler of a served app, bare Request(environ)}; the same for the body with steps '
         '{replace wsgi.input by a stream of P1, P2, empty} from {no body, empty body, P1, P2} under chunked framing, and under '
         'Content-Length framing with all bodies of one history padded (one extra pair) to the same length. '
         'Totality: ALL strings of length <=7 (quick) / <=9 (thorough) over {a,=,&,%,+,2} (exhaustive) and seeded random '
         'Unicode / byte strings through parse_qsl, Request.query and Request.forms')
NONTRIVIAL_RULE = ('distinct (kind, pairs, encoder) or (totality prefix); non-trivial = at least one pair, or a totality '
                   'block of more than one string, or a history with at least one change of the query string / body')

ALPHABET = 'a=&%+2'
POOL = ['a', 'b', 'k', '', ' ', 'x y', 'a=b', 'a&b', '&', '=', '+', 'a+b', '%', '%41', '%zz', '100%', 'é', '€', '\U0001F600z',
        'a;b', '#?/', 'ключ', ' lead', 'trail ', '==', '&&', '%2', 'a%26b=c', '\t\n', '\x00', '\x7f\x80ÿ',
        'Zoe\u0308', '\u212b\u2126']        # the last two: text that is not in Unicode NFC (decomposed accent, ANGSTROM / OHM SIGN)
ENCODERS = ['plus', 'pct20', 'lowerhex', 'all']


def exhaustive(tier):
    return False  # the totality and small-sequence parts are exhaustive, the pool/random parts are samples


def nontrivial(case):
    if case['kind'] == 'total':
        return True
    if case['kind'] in ('rawtext', 'rawbody'):
        return len(case['raw']) > 0
    if case['kind'] in ('hq', 'hb'):
        return any(op[0] != 'read' for op in case['ops'])
    return len(case.get('pairs', [])) + len(case.get('qpairs', [])) > 0


# ---------------------------------------------------------------- spec side
def encode(pairs, how):
    from urllib.parse import urlencode, quote
    if how == 'plus':
        return urlencode(pairs)
    if how == 'pct20':
        return urlencode(pairs, quote_via=quote)
    if how == 'lowerhex':
        out = []
        for k, v in pairs:
            out.append(_lower(quote(k, safe='')) + '=' + _lower(quote(v, safe='')))
        return '&'.join(out)
    if how == 'all':
        esc = lambda s: ''.join('%%%02X' % b for b in s.encode('utf8'))
        return '&'.join(esc(k) + '=' + esc(v) for k, v in pairs)
    raise ValueError(how)


def _lower(q):
    out = []
    i = 0
    while i < len(q):
        if q[i] == '%':
            out.append(q[i:i + 3].lower())
            i += 3
        else:
            out.append(q[i])
            i += 1
    return ''.join(out)


def fold(pairs):
    d = {}
    count = {}
    for k, v in pairs:
        count[k] = count.get(k, 0) + 1
    for k, v in pairs:
        if count[k] == 1:
            d[k] = v
        else:
            d.setdefault(k, []).append(v)
    return d


def same_mapping(obs, exp):
    """strict: same keys, str vs list distinguished, list order kept."""
    if set(obs.keys()) != set(exp.keys()):
        return False
    for k, v in exp.items():
        o = obs[k]
        if type(o) is not type(v) or o != v:
            return False
    return True


# ---------------------------------------------------------------- cases
def gen_cases(tier, seed):
    quick = tier == 'quick'
    # (a) exhaustive small sequences: list promotion / order
    keys = ['a', 'b', 'a b']
    vals = ['', '1']
    maxn = 3 if quick else 5
    small = [(k, v) for k in keys for v in vals]
    for n in range(0, maxn + 1):
        for combo in itertools.product(small, repeat=n):
            pairs = [list(p) for p in combo]
            for kind in ('unit', 'query', 'form'):
                yield dict(kind=kind, pairs=pairs, enc='plus')
    # longer key sequences with distinct values (promotion bookkeeping): all key sequences of length <=5 over 3 keys
    for n in range(1, 6):
        for ks in itertools.product('xyz', repeat=n):
            pairs = [[k, 'v%d' % i] for i, k in enumerate(ks)]
            for kind in ('unit', 'query', 'form'):
                yield dict(kind=kind, pairs=pairs, enc='plus')
    # (b) awkward texts: every (key, value) over the pool, each encoder
    pool = POOL if not quick else POOL
    for k in pool:
        if not k:
            continue
        for v in pool:
            for enc in ENCODERS:
                for kind in ('unit', 'query', 'form'):
                    yield dict(kind=kind, pairs=[[k, v]], enc=enc)
    # same awkward key twice and mixed with another key
    for k in pool:
        if not k:
            continue
        for enc in ('plus', 'all'):
            for kind in ('unit', 'query', 'form'):
                yield dict(kind=kind, pairs=[[k, '1'], ['other', 'x'], [k, ''], [k, k]], enc=enc)
    # (c) params: query and body with disjoint key sets
    for i, k in enumerate(pool):
        if not k:
            continue
        yield dict(kind='params', qpairs=[[k, 'q1'], [k, 'q2'], ['only-q', k]], pairs=[['B' + k, k], ['only-b', ''], ['B' + k, 'z']],
                   enc=ENCODERS[i % 4])
        yield dict(kind='params', qpairs=[[k, 'q1']], pairs=[], enc='plus')
        yield dict(kind='params', qpairs=[], pairs=[[k, 'b1'], [k, 'b2']], enc='plus')
    # (d) seeded random lists
    rnd = random.Random(seed)
    for _ in range(400 if quick else 6000):
        n = rnd.randrange(0, 7)
        ks = [rnd.choice([p for p in pool if p]) for _ in range(rnd.randrange(1, 4))]
        pairs = [[rnd.choice(ks), rnd.choice(pool)] for _ in range(n)]
        yield dict(kind=rnd.choice(['unit', 'query', 'form']), pairs=pairs, enc=rnd.choice(ENCODERS))
    for _ in range(200 if quick else 3000):
        pairs = [[_rand_text(rnd, 1, 6), _rand_text(rnd, 0, 8)] for _ in range(rnd.randrange(1, 5))]
        if rnd.random() < 0.5 and pairs:
            pairs.append([pairs[0][0], _rand_text(rnd, 0, 3)])
        yield dict(kind=rnd.choice(['unit', 'query', 'form']), pairs=pairs, enc=rnd.choice(ENCODERS))
    # (g) histories: the query string / the body is changed on the request after (or before) it was looked at
    for c in gen_histories(tier):
        yield c
    # (e) totality, exhaustive over the alphabet, in blocks sharing a prefix
    maxlen = 7 if quick else 9
    plen = 2 if quick else 3
    yield dict(kind='total', prefix='', exact=1, maxlen=plen - 1)        # all strings shorter than a prefix
    for p in itertools.product(ALPHABET, repeat=plen):
        yield dict(kind='total', prefix=''.join(p), exact=0, maxlen=maxlen)
    # (f) totality, seeded random text / bytes through the request properties too
    for _ in range(300 if quick else 5000):
        yield dict(kind='rawtext', raw=_rand_raw(rnd))
    for _ in range(150 if quick else 2000):
        yield dict(kind='rawbody', raw=bytes(rnd.choice(b'a=&%+2\xc3\xa9\xff\x00 ;') if rnd.random() < 0.8 else rnd.randrange(256)
                                             for _ in range(rnd.randrange(0, 24))))


QSETS = {'P1': [['a', '1'], ['b', 'x y'], ['a', '']], 'P2': [['ключ', 'a&b=c+d'], ['k', '100%']], 'E': []}
BSETS = {'P1': [['Ba', '1'], ['Bb', 'x+y'], ['Ba', 'é']], 'P2': [['Bk', '%41'], ['B ', '=']], 'E': []}
QSTEPS = [['setq', 'P1'], ['setq', 'P2'], ['setq', 'E'], ['delq']]
BSTEPS = [['setb', 'P1'], ['setb', 'P2'], ['setb', 'E']]


def _padded(pairs, enc, total):
    """pairs + one more pair ['Bz', 'zz..'] so that the encoded body is exactly `total` bytes long"""
    n = len(encode([tuple(p) for p in pairs], enc))
    k = total - n - (4 if pairs else 3)
    assert k >= 0
    out = [list(p) for p in pairs] + [['Bz', 'z' * k]]
    assert len(encode([tuple(p) for p in out], enc)) == total
    return out


def gen_histories(tier):
    quick = tier == 'quick'
    maxn = 2 if quick else 3
    i = 0
    for what, steps, sets in (('hq', QSTEPS, QSETS), ('hb', BSTEPS, BSETS)):
        for start in (None, 'E', 'P2', 'P1'):            # None: the key (the body) is absent from the environ
            for n in range(1, maxn + 1):
                for seq in itertools.product(steps, repeat=n):
                    for mask in range(2 ** n):
                        for reads in ('own', 'params', 'all'):
                            for level in ('app', 'bare'):
                                for framing in (('cl',) if what == 'hq' else ('cl', 'chunked')):
                                    i += 1
                                    enc = ENCODERS[i % 4]
                                    use = sets
                                    if what == 'hb' and framing == 'cl':
                                        # Content-Length framing: every body of the history has the same length (the length a
                                        # request announces is remembered by the request; see the report of round 4)
                                        if start is None:
                                            continue
                                        enc = ENCODERS[i % 3]          # ('all' triples every pad byte: no common length)
                                        total = max(len(encode([tuple(p) for p in v], enc)) for v in sets.values()) + 4
                                        use = {k: _padded(v, enc, total) for k, v in sets.items()}
                                    ops = []
                                    for j, st in enumerate(seq):
                                        if mask >> j & 1:
                                            ops.append(['read'])
                                        ops.append([st[0]] + ([use[st[1]]] if len(st) > 1 else []))
                                    ops.append(['read'])
                                    yield dict(kind=what, level=level, start=None if start is None else use[start], ops=ops,
                                               reads=reads, framing=framing, enc=enc,
                                               other=(BSETS if what == 'hq' else QSETS)[('P1', 'E', 'P2')[i % 3]])


def _rand_text(rnd, lo, hi):
    n = rnd.randrange(lo, hi + 1)
    out = []
    for _ in range(n):
        r = rnd.random()
        if r < 0.45:
            out.append(rnd.choice('=&+% ;#?/ab2'))
        elif r < 0.7:
            out.append(chr(rnd.randrange(0x20, 0x7f)))
        elif r < 0.85:
            out.append(chr(rnd.randrange(0xa0, 0x250)))
        elif r < 0.95:
            out.append(chr(rnd.choice([0x20ac, 0x4e2d, 0x3b1, 0xfeff, 0x2028])))
        else:
            out.append(chr(rnd.randrange(0x10000, 0x10400)))
    s = ''.join(out)
    return s if (s or lo == 0) else 'k'


def _rand_raw(rnd):
    n = rnd.randrange(0, 30)
    out = []
    for _ in range(n):
        r = rnd.random()
        if r < 0.6:
            out.append(rnd.choice('=&%+a2;'))
        elif r < 0.8:
            out.append(chr(rnd.randrange(0, 0x100)))
        elif r < 0.95:
            out.append(chr(rnd.randrange(0x100, 0x3000)))
        else:
            out.append(chr(rnd.randrange(0x10000, 0x10200)))
    return ''.join(out)


# ---------------------------------------------------------------- contract
def _pairs(case, name='pairs'):
    return [(k, v) for k, v in case.get(name, [])]


def _check_pair_list(out, clause, qs):
    if not isinstance(out, list):
        return fail(clause, qs=qs, observed_type=type(out).__name__)
    for it in out:
        if not (isinstance(it, tuple) and len(it) == 2 and isinstance(it[0], str) and isinstance(it[1], str)):
            return fail(clause, qs=qs, bad_item=repr(it))
    return None


def _is_hang(e):
    return type(e).__name__ == '_Hang'


def run_case(case):
    kind = case['kind']
    from ombott.request_pkg.helpers import parse_qsl

    if kind == 'total':
        cur = None
        n = 0
        try:
            if case['exact']:
                lens = range(0, case['maxlen'] + 1)
                it = (''.join(t) for ln in lens for t in itertools.product(ALPHABET, repeat=ln))
            else:
                p = case['prefix']
                it = (p + ''.join(t) for ln in range(0, case['maxlen'] - len(p) + 1)
                      for t in itertools.product(ALPHABET, repeat=ln))
            for cur in it:
                n += 1
                out = parse_qsl(cur)
                bad = _check_pair_list(out, 'T1.result_shape', cur)
                if bad:
                    return bad
                # what comes out never has an empty key (the scanner skips them) -- part of "the same pairs"
        except BaseException as e:  # noqa
            if _is_hang(e):
                return fail('T1.hang', qs=cur, strings_done=n)
            if isinstance(e, (KeyboardInterrupt, SystemExit)):
                raise
            return fail('T1.raised', qs=cur, exc=repr(e))
        return None

    if kind in ('hq', 'hb'):
        return run_history(case)

    if kind in ('rawtext', 'rawbody'):
        raw = case['raw']
        cur = 'parse_qsl'
        try:
            if kind == 'rawtext':
                out = parse_qsl(raw)
                bad = _check_pair_list(out, 'T1.result_shape', raw)
                if bad:
                    return bad
                got = []
                parse_qsl(raw, append=got.append)
                if got != out:
                    return fail('T1.append_differs', qs=raw, plain=out, append=got)
                d = {}
                cur = 'parse_qsl(setitem=)'
                parse_qsl(raw, setitem=d.__setitem__)
                if not same_mapping(d, fold(out)):
                    return fail('T1.setitem_differs', qs=raw, plain=out, setitem=d)
            import ombott
            app = ombott.Ombott()
            seen = {}

            @app.route('/t', method=['GET', 'POST'])
            def h():
                req = app.request
                try:
                    if kind == 'rawtext':
                        seen['v'] = dict(req.query)
                    else:
                        seen['v'] = dict(req.forms)
                except BaseException as e:  # noqa
                    if _is_hang(e) or isinstance(e, (KeyboardInterrupt, SystemExit)):
                        raise
                    seen['exc'] = repr(e)
                return 'ok'
            cur = 'request'
            if kind == 'rawtext':
                # QUERY_STRING the WSGI way: any text (servers hand over latin-1 text; wider text is accepted here as
                # "any string whatsoever")
                env = make_environ('/t', 'GET', query=raw)
            else:
                env = make_environ('/t', 'POST', body=raw, content_type='application/x-www-form-urlencoded')
            res = serve(app, env)
            if 'exc' in seen or res.code != 200 or 'v' not in seen:
                return fail('T2.raised', raw=raw, exc=seen.get('exc'), status=res.status, errors=res.errors[-300:])
            if kind == 'rawtext' and not same_mapping(seen['v'], fold(out)):
                return fail('T2.query_differs_from_parse_qsl', raw=raw, query=seen['v'], plain=out)
        except BaseException as e:  # noqa
            if _is_hang(e):
                return fail('T1.hang', qs=raw, where=cur)
            if isinstance(e, (KeyboardInterrupt, SystemExit)):
                raise
            return fail('T1.raised', qs=raw, where=cur, exc=repr(e))
        return None

    pairs = _pairs(case)
    enc = case['enc']
    qs = encode(pairs, enc)
    exp = fold(pairs)

    if kind == 'unit':
        try:
            out = parse_qsl(qs)
            if out != pairs:
                return fail('Q1.plain', qs=qs, expected=pairs, observed=out)
            got = []
            r = parse_qsl(qs, append=got.append)
            if got != pairs:
                return fail('Q1.append', qs=qs, expected=pairs, observed=got)
            d = {}
            order = []

            def setitem(k, v):
                order.append(k)
                d[k] = v
            parse_qsl(qs, setitem=setitem)
            if not same_mapping(d, exp):
                return fail('Q1.setitem', qs=qs, expected=exp, observed=d)
        except BaseException as e:  # noqa
            if _is_hang(e):
                return fail('T1.hang', qs=qs)
            if isinstance(e, (KeyboardInterrupt, SystemExit)):
                raise
            return fail('Q1.raised', qs=qs, exc=repr(e))
        return None

    import ombott
    app = ombott.Ombott()
    seen = {}

    @app.route('/q', method=['GET', 'POST'])
    def h():
        req = app.request
        # the raw body is looked at first (as a signature-checking hook would do): the decoded form must not depend on it
        pre = len(repr(case.get('pairs'))) % 3
        if pre == 1:
            req.body.read()
        elif pre == 2:
            req.body.read(3)
        seen['query'] = _snap(req.query)
        seen['GET'] = _snap(req.GET)
        seen['forms'] = _snap(req.forms)
        seen['POST'] = _snap(req.POST)
        seen['params'] = _snap(req.params)
        seen['query_type'] = type(req.query).__name__
        return 'ok'

    try:
        if kind == 'query':
            env = make_environ('/q', 'GET', query=qs)
            res = serve(app, env)
            if res.code != 200:
                if '_Hang' in res.errors:
                    return fail('T1.hang', qs=qs, where=kind)
                return fail('Q2.status', qs=qs, status=res.status, errors=res.errors[-400:])
            for name in ('query', 'GET', 'params'):
                if not same_mapping(seen[name], exp):
                    return fail('Q2.' + name, qs=qs, expected=exp, observed=seen[name])
            if seen['forms'] or seen['POST']:
                return fail('Q2.forms_not_empty', qs=qs, observed=seen['forms'])
            return None
        if kind == 'form':
            ctype = 'application/x-www-form-urlencoded' + ('; charset=UTF-8' if len(pairs) % 2 else '')
            env = make_environ('/q', 'POST', body=qs.encode('ascii'), content_type=ctype)
            res = serve(app, env)
            if res.code != 200:
                if '_Hang' in res.errors:
                    return fail('T1.hang', qs=qs, where=kind)
                return fail('Q3.status', body=qs, status=res.status, errors=res.errors[-400:])
            for name in ('forms', 'POST', 'params'):
                if not same_mapping(seen[name], exp):
                    return fail('Q3.' + name, body=qs, expected=exp, observed=seen[name])
            if seen['query']:
                return fail('Q3.query_not_empty', body=qs, observed=seen['query'])
            return None
        if kind == 'params':
            qpairs = _pairs(case, 'qpairs')
            qq = encode(qpairs, enc)
            env = make_environ('/q', 'POST', query=qq, body=qs.encode('ascii'),
                               content_type='application/x-www-form-urlencoded')
            res = serve(app, env)
            if res.code != 200:
                return fail('Q4.status', qs=qq, body=qs, status=res.status, errors=res.errors[-400:])
            eq, eb = fold(qpairs), fold(pairs)
            if not same_mapping(seen['query'], eq):
                return fail('Q2.query', qs=qq, expected=eq, observed=seen['query'])
            if not same_mapping(seen['forms'], eb):
                return fail('Q3.forms', body=qs, expected=eb, observed=seen['forms'])
            if not (set(eq) & set(eb)):
                both = dict(eq)
                both.update(eb)
                if not same_mapping(seen['params'], both):
                    return fail('Q4.params', qs=qq, body=qs, expected=both, observed=seen['params'])
            return None
    except BaseException as e:  # noqa
        if _is_hang(e):
            return fail('T1.hang', qs=qs, where=kind)
        raise
    raise ValueError('unknown kind %r' % kind)


def _framed(data, framing):
    from bounded.common import FragStream, chunk_encode
    if framing == 'chunked':
        return FragStream(chunk_encode([data[:3], data[3:]] if len(data) > 3 else ([data] if data else [])))
    return FragStream(data)


def run_history(case):
    """Q5 / Q6: what the request carries NOW is what query / forms / params show, whatever was read before"""
    import ombott
    from ombott.request_pkg import Request
    what, enc, framing = case['kind'], case['enc'], case['framing']
    start = case['start']
    other = _pairs(case, 'other')
    clause = 'Q5' if what == 'hq' else 'Q6'
    if what == 'hq':
        q0, b0 = start, other
    else:
        q0, b0 = other, start
    chunked = framing == 'chunked'
    if b0 is None:
        env = make_environ('/h', 'POST', content_length=None)
    else:
        data = encode([tuple(p) for p in b0], enc).encode('ascii')
        env = make_environ('/h', 'POST', body=data, stream=_framed(data, framing), chunked=chunked,
                           content_type='application/x-www-form-urlencoded')
    if q0 is None:
        del env['QUERY_STRING']
    else:
        env['QUERY_STRING'] = encode([tuple(p) for p in q0], enc)
    state = dict(q=[tuple(p) for p in (q0 or [])], b=[tuple(p) for p in (b0 or [])])
    out = {}

    def names():
        own = ('query', 'GET') if what == 'hq' else ('forms', 'POST')
        return {'own': own, 'params': ('params',), 'all': ('params',) + own + ('query', 'forms')}[case['reads']]

    def play(req):
        for step, op in enumerate(case['ops']):
            if op[0] == 'read':
                for name in names():
                    if name in ('query', 'GET'):
                        exp = fold(state['q'])
                    elif name in ('forms', 'POST'):
                        exp = fold(state['b'])
                    else:
                        eq, eb = fold(state['q']), fold(state['b'])
                        if set(eq) & set(eb):
                            continue
                        exp = dict(eq)
                        exp.update(eb)
                    obs = _snap(getattr(req, name))
                    if not same_mapping(obs, exp):
                        return fail('%s.%s' % (clause, name), step=step, expected=exp, observed=obs,
                                    query_string=req.environ.get('QUERY_STRING', '<absent>'))
            elif op[0] == 'setq':
                state['q'] = [tuple(p) for p in op[1]]
                req['QUERY_STRING'] = encode(state['q'], enc)
            elif op[0] == 'delq':
                state['q'] = []
                del req['QUERY_STRING']
            elif op[0] == 'setb':
                state['b'] = [tuple(p) for p in op[1]]
                data = encode(state['b'], enc).encode('ascii')
                if 'CONTENT_TYPE' not in req.environ:
                    req['CONTENT_TYPE'] = 'application/x-www-form-urlencoded'
                if not chunked:
                    req['CONTENT_LENGTH'] = str(len(data))
                elif 'HTTP_TRANSFER_ENCODING' not in req.environ:
                    req['HTTP_TRANSFER_ENCODING'] = 'chunked'
                req['wsgi.input'] = _framed(data, framing)
        return None

    def guarded(req):
        try:
            out['f'] = play(req)
        except BaseException as e:  # noqa
            if _is_hang(e) or isinstance(e, (KeyboardInterrupt, SystemExit)):
                raise
            out['f'] = fail(clause + '.raised', exc=repr(e))
        out['done'] = True

    try:
        if case['level'] == 'bare':
            guarded(Request(env))
        else:
            app = ombott.Ombott()

            @app.route('/h', method=['GET', 'POST'])
            def h():
                guarded(app.request)
                return 'ok'
            res = serve(app, env)
            if not out.get('done') or res.code != 200:
                return fail(clause + '.status', status=res.status, errors=res.errors[-400:])
    except BaseException as e:  # noqa
        if _is_hang(e):
            return fail('T1.hang', where=what)
        raise
    return out['f']


def _snap(d):
    return {k: (list(v) if isinstance(v, list) else v) for k, v in dict(d).items()}


FINDINGS = {}
