"""C16 bounded stand-in / replay harness: static_file never serves a file outside its root.

Every case builds a REAL directory tree under /tmp/ombott-verif-c16-*, calls the real
`ombott.static_file(name, root)` from a handler of a fresh application (Globals.request is pointed at
that application for the duration of the case, as ombott's own test-suite does), records EVERY file
open made while the request is served (sys.addaudithook 'open' events: covers builtins.open, io.open,
os.open, pathlib ...) and removes the tree.

The tree (T = the sandbox, R = T/up/root is the usual root; every file's content names its location,
so the served body identifies the served file):

    T/f.txt                  decoy two levels above the root
    T/up/f.txt  T/up/root.txt                decoys above / beside the root ("root.txt": root's name as prefix)
    T/up/rootx/f.txt  T/up/roo/f.txt         sibling directories sharing the root's name as a prefix (both ways)
    T/up/root/f.txt  T/up/root/sub/f.txt  T/up/root/rootx/f.txt  T/up/root/up/f.txt  T/up/root/root/f.txt
    T/up/root/..\\f.txt                       (a POSIX file whose NAME contains a backslash; it is inside)
    T/<absolute path of R>/f.txt             (only in 'replica' cases: outside R, but its path CONTAINS R's absolute path)
    T/up/pub\\/f.txt  T/up/pub\\/sub/f.txt    a root directory whose NAME ends with a backslash (POSIX: part of the name) ...
    T/up/pub/f.txt  T/up/pub/decoy.txt  T/up/pub/sub/f.txt   ... and its sibling named without it (decoys, outside that root)
    T/up/~/f.txt  T/up/~/sub/f.txt           a root directory literally named '~' (given relative: '~', '~/', '~//', './~');
    T/up/~x/f.txt  T/up/decoy.txt             for these roots $HOME is pointed at a directory of the tree holding decoys
                                             (T/up, T/up/rootx or T) while the case runs and restored afterwards: the root
                                             is the directory AS GIVEN (seen from the cwd), never $HOME

Oracle (written from the statement, POSIX lexical normalisation, no os.path): R = norm(root seen from the
cwd); the location of name n is L = norm(R + '/' + n) (also accepted: the same with the leading / trailing
separators '/' '\\' removed, and n itself when n is absolute).  inside(L) <=> L starts with R + '/'.

Clauses:
  K1.open_outside   no path handed to open() while serving lies in the sandbox (or is /etc/passwd,
                    /etc/hostname) and outside R.
  K2.status         the answer is 200, 403 or 404 (anything that is not a served file is 403/404; an
                    exception / 500 is neither).
  K2.served_outside a 200 whose body is the content of a file whose location is outside R
                    (or: no accepted location of the name is inside R and still 200).
  K3.served_other   a 200 whose body is not the content of the file at an accepted location inside R.
  harness.plain_inside_file_not_served  vacuity guard only (not demanded by the statement): a plain name
                    (no dots, no backslash, single '/') of an existing file inside R is served with 200.
"""
import itertools
import os
import random
import shutil
import sys
import tempfile

from bounded.common import make_environ, serve, fail

BOUND = ('names = prefix x (<=3 (quick) / <=4 (thorough) navigation segments over {., .., empty, sub, root, rootx, up}) '
         'x leaf in {f.txt, root.txt, nofile, empty, ..} joined by one separator style from {/, //} and, up to 2 (quick) / 3 navigation segments, {\\, alternating / and \\} '
         'with prefix in {none, /, \\, //, /\\, ./}, exhaustive; plus absolute names of every file of the tree, of R itself, '
         'R+"x", /etc/passwd, dot-dot chains of depth 1..8 to decoys and /etc/passwd, NUL / over-long / non-UTF-8 names; '
         'x root spellings {absolute: R, R/, R//, T/up/./root, T/up/rootx/../root/, R/sub/.. ; relative: root, root/, ./root, '
         'root/. from T/up, "." "" "./" from R, ".." "../" from R/sub, up/root from T ; the prefix-sibling T/up/roo ; '
         'a root that does not exist ; a root that is a file} over a real tree with decoys beside and above the root; '
         'every open() during the request recorded by an audit hook; seeded random names (thorough: 20000) over the same alphabet '
         'with per-joint random separators; plus odd-named roots: a directory named "pub\\" (trailing backslash in the NAME) with a '
         'sibling "pub" holding decoys, spelt {abs, abs/, abs//, pub\\, pub\\/, ./pub\\ from T/up, "." from inside, up/pub\\ from T}, and a '
         'directory named "~" spelt {~, ~/, ~//, ./~, ~/., ~/sub, ~/sub/.. from T/up, abs, abs/, up/~ from T, "." from inside; a sibling "~x" spelt '
         '~x, ~x/} with HOME pointed at a directory of the tree holding decoys (T/up, T/up/rootx or T) for the case and restored (24 '
         '(root, cwd, HOME) triples, own tree with these directories); x (quick) the plain / dot-dot / special names incl. decoy.txt, '
         '../pub/f.txt, ../~x/f.txt (about 700 names), (thorough) all enumerated names of up to 3 navigation segments; 480 (quick) / 4800 seeded random names over '
         'these roots')
NONTRIVIAL_RULE = ('distinct (root spelling, cwd, name); non-trivial = under POSIX or backslash-as-separator reading the name '
                   'denotes an existing file or directory of the tree other than a plain child path (i.e. a wrong decision '
                   'would be observable), or the name is absolute / contains NUL')

# ------------------------------------------------------------------ the tree (paths relative to T)
DIRS = ['up', 'up/root', 'up/root/sub', 'up/root/rootx', 'up/root/up', 'up/root/root', 'up/rootx', 'up/roo']
# only in the cases of the odd-named roots (case['odd']):
DIRS_ODD = ['up/pub\\', 'up/pub\\/sub', 'up/pub', 'up/pub/sub', 'up/~', 'up/~/sub', 'up/~x', 'up/rootx/sub']
FILES = ['f.txt', 'up/f.txt', 'up/root.txt', 'up/rootx/f.txt', 'up/roo/f.txt', 'up/root/f.txt', 'up/root/sub/f.txt',
         'up/root/rootx/f.txt', 'up/root/up/f.txt', 'up/root/root/f.txt', 'up/root/..\\f.txt']
FILES_ODD = ['up/pub\\/f.txt', 'up/pub\\/sub/f.txt', 'up/pub/f.txt', 'up/pub/decoy.txt', 'up/pub/sub/f.txt',
         'up/~/f.txt', 'up/~/sub/f.txt', 'up/~x/f.txt', 'up/decoy.txt', 'decoy.txt', 'up/rootx/decoy.txt', 'up/rootx/sub/f.txt']
WATCH = ('/etc/passwd', '/etc/hostname')


def content_of(rel):
    return ('<<content of T/%s>>\n' % rel).encode('utf8')


# (root spelling, cwd) ; placeholders {T} {UP} {R}
ROOTS_MAIN = [
    ('{R}', None), ('{R}/', None), ('root', '{UP}'), ('root/', '{UP}'), ('.', '{R}'), ('..', '{R}/sub'),
    ('{UP}/roo', None),
]
ROOTS_MORE = [
    ('{R}//', None), ('{UP}/./root', None), ('{UP}/rootx/../root/', None), ('{R}/sub/..', None),
    ('./root', '{UP}'), ('root/.', '{UP}'), ('', '{R}'), ('./', '{R}'), ('../', '{R}/sub'), ('up/root', '{T}'),
    ('{UP}/nope', None), ('{UP}/root.txt', None), ('roo/', '{UP}'),
]
# odd-named root directories: (root spelling, cwd, HOME while the case runs)
ROOTS_ODD = [
    ('{UP}/pub\\', None, None), ('{UP}/pub\\/', None, None), ('{UP}/pub\\//', None, None), ('pub\\', '{UP}', None),
    ('pub\\/', '{UP}', None), ('./pub\\', '{UP}', None), ('.', '{UP}/pub\\', None), ('up/pub\\', '{T}', None),
    ('{UP}/pub\\/sub/..', None, None),
    ('~', '{UP}', '{UP}'), ('~/', '{UP}', '{UP}'), ('~//', '{UP}', '{UP}'), ('~', '{UP}', '{UP}/rootx'), ('~/', '{UP}', '{T}'),
    ('~/sub', '{UP}', '{UP}/rootx'), ('./~', '{UP}', '{UP}'), ('~/.', '{UP}', '{UP}/rootx'), ('~/sub/..', '{UP}', '{UP}'),
    ('{UP}/~', None, '{UP}'), ('{UP}/~/', None, '{T}'), ('up/~', '{T}', '{UP}'), ('.', '{UP}/~', '{UP}'),
    ('~x', '{UP}', '{UP}'), ('~x/', '{UP}', '{UP}/rootx'),
]
ODD_NAMES = ['f.txt', 'sub/f.txt', 'decoy.txt', 'sub//f.txt', './f.txt', 'sub/../f.txt', 'sub/../decoy.txt', '../pub/f.txt',
             '../pub/decoy.txt', '../pub\\/f.txt', '../~x/f.txt', '../~/f.txt', '../~/../decoy.txt', '/decoy.txt', '\\decoy.txt',
             '//decoy.txt', '..\\decoy.txt', '{UP}/pub/decoy.txt', '{UP}/pub/f.txt', '{UP}/pub\\/f.txt', '{UP}/decoy.txt',
             '{UP}/~x/f.txt', '{UP}/~/f.txt', '{UP}/rootx/decoy.txt', 'sub/../../pub/decoy.txt', 'sub/../../~x/f.txt', '~', '~/',
             '~/decoy.txt', '~/~/f.txt', 'pub\\', '../pub\\', '../pub', '../pub/', '../pub/sub/f.txt', 'sub/../../pub/sub/f.txt']
NAV = ['.', '..', '', 'sub', 'root', 'rootx', 'up']
LEAVES = ['f.txt', 'root.txt', 'nofile', '', '..']
STYLES = ['/', '//', '\\', 'alt']
PREFIXES = ['', '/', '\\', '//', '/\\', './']


def join_style(segs, style):
    if style == 'alt':
        out = segs[0]
        for i, s in enumerate(segs[1:]):
            out += ('/' if i % 2 == 0 else '\\') + s
        return out
    return style.join(segs)


def special_names():
    out = []
    for rel in FILES:
        out.append('{T}/' + rel)
        out.append('/{T}/' + rel)
    out += ['{R}', '{R}/', '{R}x/f.txt', '{R}x', '{R}/../f.txt', '{R}/../root.txt', '{R}/../rootx/f.txt', '{R}/sub/../../f.txt',
            '{UP}/roo/f.txt', '{UP}/root.txt', '/etc/passwd', '//etc/passwd', '\\etc\\passwd', '/etc/hostname',
            'f.txt\x00', '../f.txt\x00', '../f.txt\x00.txt', '..\x00/f.txt', '\x00', 'f.txt/' + 'a' * 300, '../' + 'a' * 5000,
            '../f.txt\udcff', '..\udcff/f.txt', 'f.txt\ud800', '..', '.', '', '/', '\\', '...', '..../f.txt', '.../f.txt',
            '..;/f.txt', '%2e%2e/f.txt', '..%2ff.txt', '~/f.txt', '~root/f.txt', 'sub/..\\f.txt', '..\\f.txt', '..\\..\\f.txt',
            '\\..\\f.txt', '/..\\f.txt', '..\\/f.txt', '../..\\f.txt']
    for depth in range(1, 9):
        ups = ['..'] * depth
        for sep in ('/', '//', '\\', '/./'):
            out.append(sep.join(ups + ['f.txt']))
            out.append(sep.join(ups + ['etc', 'passwd']))
            out.append(sep.join(['sub'] + ups + ['f.txt']))
            out.append('/' + sep.join(ups + ['f.txt']))
        out.append('/'.join(ups + ['root', 'f.txt']))
        out.append('/'.join(ups + ['up', 'root', 'f.txt']))
        out.append('/'.join(ups + ['rootx', 'f.txt']))
        out.append('/'.join(ups + ['root.txt']))
    return out + ODD_NAMES


BATCH = {'quick': 48, 'thorough': 96}   # names served per tree (a case = one tree + one batch of names)


def exhaustive(tier):
    return False   # the enumerated part is exhaustive, the random tail (thorough) is a sample


def gen_cases(tier, seed):
    maxnav = 3 if tier == 'quick' else 4
    roots = ROOTS_MAIN if tier == 'quick' else ROOTS_MAIN + ROOTS_MORE
    navs = [()]
    for k in range(1, maxnav + 1):
        navs.extend(itertools.product(NAV, repeat=k))
    names = []
    seen = set()
    upto3 = None
    for nav in navs:
        if len(nav) == 4 and upto3 is None:
            upto3 = len(names)
        for leaf in LEAVES:
            segs = list(nav) + [leaf]
            for style in STYLES:
                if style in ('\\', 'alt') and len(nav) > (2 if tier == 'quick' else 3):
                    continue
                body = join_style(segs, style)
                for prefix in (PREFIXES if len(nav) <= 1 else PREFIXES[:2]):
                    n = prefix + body
                    if n not in seen:
                        seen.add(n)
                        names.append(n)
    for n in special_names():
        if n not in seen:
            seen.add(n)
            names.append(n)
    batch = BATCH[tier]

    def batches(root, cwd, ns):
        for i in range(0, len(ns), batch):
            yield dict(root=root, cwd=cwd, names=ns[i:i + batch])
    for root, cwd in roots:
        yield from batches(root, cwd, names)
    if tier == 'quick':
        # the other root spellings against the most telling names only
        telling = [n for n in names if n.count('..') >= 1 and len(n) <= 16 and '\\' not in n][:400] + special_names()
        for root, cwd in ROOTS_MORE:
            yield from batches(root, cwd, telling)
    # names that reach the replica of the root's absolute path below T (outside the root)
    rep = []
    for pre in ('', '/', './', 'sub/../', '\\'):
        for ups in ('../..', '..//..', '.././..', '../../.', 'sub/../../..', '../../../..{T}', '../up/../..'):
            for tail in ('{R}/f.txt', '{R}//f.txt', '/{R}/f.txt', '{R}/sub/../f.txt', '{R}', '{R}/', '{UP}/root/f.txt', '{R}x/f.txt',
                         '{R}/../root/f.txt', '{UP}/f.txt'):
                rep.append(pre + ups + tail)
    for root, cwd in ROOTS_MAIN + ROOTS_MORE:
        for b in batches(root, cwd, rep):
            b['replica'] = 1
            yield b
    # odd-named roots (a trailing backslash in the directory's NAME; a directory named '~' with HOME elsewhere in the tree)
    if tier == 'quick':
        odd = ODD_NAMES + [n for n in names if n.count('..') >= 1 and len(n) <= 16 and '\\' not in n][:300] + special_names()
        odd = list(dict.fromkeys(odd))
    else:
        odd = ODD_NAMES + names[:upto3] + special_names()      # enumerated names up to 3 navigation segments
        odd = list(dict.fromkeys(odd))
    for root, cwd, home in ROOTS_ODD:
        for i in range(0, len(odd), 4 * batch):      # larger batches: the tree of these cases is twice as large
            b = dict(root=root, cwd=cwd, names=odd[i:i + 4 * batch])
            b['home'] = home
            b['odd'] = 1
            yield b
    rnd2 = random.Random(seed * 7919 + 16)
    for _ in range((480 if tier == 'quick' else 4800) // batch):
        ns = []
        for _ in range(batch):
            k = rnd2.randrange(1, 6)
            segs = [rnd2.choice(['.', '..', '..', '', 'sub', 'pub', 'pub\\', '~', '~x', 'rootx', 'f.txt', 'decoy.txt', '{UP}', '{T}'])
                    for _ in range(k)]
            n = rnd2.choice(PREFIXES + ['{UP}/', '{T}/', '~/'])
            for i, sg in enumerate(segs):
                n += sg
                if i < k - 1 or rnd2.random() < 0.2:
                    n += rnd2.choice(['/', '/', '/', '//', '\\', '/./'])
            ns.append(n)
        root, cwd, home = rnd2.choice(ROOTS_ODD)
        yield dict(root=root, cwd=cwd, names=ns, home=home, odd=1)
    rnd = random.Random(seed)
    allroots = ROOTS_MAIN + ROOTS_MORE
    for _ in range((2000 if tier == 'quick' else 20000) // batch):
        ns = []
        for _ in range(batch):
            k = rnd.randrange(1, 8)
            segs = [rnd.choice(NAV + ['..', '..', 'f.txt', 'root.txt', 'roo', '{R}', '{UP}', '{T}', 'etc', 'passwd'])
                    for _ in range(k)]
            n = rnd.choice(PREFIXES + ['{UP}/', '{R}/', '{T}/'])
            for i, sg in enumerate(segs):
                n += sg
                if i < k - 1 or rnd.random() < 0.2:
                    n += rnd.choice(['/', '/', '/', '//', '\\', '\\\\', '/./', '///'])
            ns.append(n)
        root, cwd = rnd.choice(allroots)
        yield dict(root=root, cwd=cwd, names=ns, replica=rnd.randrange(2))


# ------------------------------------------------------------------ oracle (POSIX, lexical; no os.path)
def norm(path, cwd):
    if not path.startswith('/'):
        path = cwd + '/' + path
    parts = []
    for seg in path.split('/'):
        if seg in ('', '.'):
            continue
        if seg == '..':
            if parts:
                parts.pop()
            continue
        parts.append(seg)
    return '/' + '/'.join(parts)


def subst(s, T):
    return s.replace('{R}', T + '/up/root').replace('{UP}', T + '/up').replace('{T}', T)


def locations(name, R):
    """accepted readings of 'the normalised location' of `name` under root R"""
    out = []
    for v in (name, name.lstrip('/\\'), name.strip('/\\')):
        L = norm(R + '/' + v, '/')
        if L not in out:
            out.append(L)
    if name.startswith('/'):
        L = norm(name, '/')
        if L not in out:
            out.append(L)
    return out


def inside(L, R):
    return L.startswith(R + '/') and L != R


def nontrivial(case):
    return any(name_nontrivial(case['root'], case['cwd'], n) for n in case['names'])


def name_nontrivial(root, cwd, rawname):
    T = '/T'
    name = subst(rawname, T)
    if name.startswith('/') or name.startswith('\\') or '\x00' in name:
        return True
    cwd = subst(cwd, T) if cwd else T
    R = norm(subst(root, T), cwd)
    known = {T + '/' + f for f in tree_files(T, True, True)} | {T + '/' + d for d in DIRS + DIRS_ODD} | {T, '/etc/passwd'}
    plain = _is_plain(name)
    for v in (name, name.replace('\\', '/')):
        for L in locations(v, R):
            if L in known and not (plain and inside(L, R)):
                return True
    return False


def _is_plain(name):
    if not name or '\\' in name or '\x00' in name:
        return False
    segs = name.split('/')
    return all(s and s not in ('.', '..') and not s.startswith('/') for s in segs)


# ------------------------------------------------------------------ recording of open()
_REC = None
_HOOKED = False


def _audit(event, args):
    if _REC is not None and event == 'open':
        try:
            _REC.append(args[0])
        except Exception:      # pragma: no cover
            pass


def _ensure_hook():
    global _HOOKED
    if not _HOOKED:
        sys.addaudithook(_audit)
        _HOOKED = True


def setup():
    import mimetypes
    mimetypes.init()
    _ensure_hook()


def tree_files(T, replica, odd=False):
    """files of the tree, relative to T; with `replica` the tree also holds T/<absolute path of R>/f.txt
    (a location OUTSIDE the root whose text contains the root's absolute path)"""
    files = FILES + FILES_ODD if odd else FILES
    if replica:
        return files + [T.lstrip('/') + '/up/root/f.txt']
    return files


def build_tree(replica=False, odd=False):
    T = os.path.realpath(tempfile.mkdtemp(prefix='ombott-verif-c16-', dir='/tmp'))
    for d in (DIRS + DIRS_ODD if odd else DIRS):
        os.mkdir(T + '/' + d)
    if replica:
        os.makedirs(T + T + '/up/root')
    for f in tree_files(T, replica, odd):
        with open(T + '/' + f, 'wb') as fh:
            fh.write(content_of(f))
    return T


def run_case(case):
    """one tree, every name of the batch served separately by a fresh application"""
    import ombott
    from ombott import static_stream
    G = static_stream.Globals
    global _REC
    _ensure_hook()
    old_cwd = os.getcwd()
    replica = bool(case.get('replica'))
    odd = bool(case.get('odd'))
    T = build_tree(replica, odd)
    old_req = G.request
    extra_trees = []
    home = case.get('home')
    old_home = os.environ.get('HOME')
    try:
        root = subst(case['root'], T)
        cwd = subst(case['cwd'], T) if case['cwd'] else T
        if not os.path.isabs(root):
            # a relative root is resolved against the working directory of EACH call: first serve once with the same
            # root string from inside a second, identical tree (whatever that call leaves behind must not matter)
            T2 = build_tree(replica, odd)
            try:
                os.chdir(subst(case['cwd'], T2) if case['cwd'] else T2)
                if home:
                    os.environ['HOME'] = subst(home, T2)
                app0 = ombott.Ombott()
                G.request = app0.request
                app0.route('/s', callback=lambda: ombott.static_file('f.txt', root=root))
                serve(app0, make_environ('/s'))
            finally:
                os.chdir(old_cwd)
                extra_trees.append(T2)       # kept until the end of the case: a file opened there is an open outside the root
        os.chdir(cwd)
        if home:
            os.environ['HOME'] = subst(home, T)
        for idx, rawname in enumerate(case['names']):
            name = subst(rawname, T)
            opened = []
            seen = {}
            app = ombott.Ombott()
            G.request = app.request

            def h():
                res = ombott.static_file(name, root=root)
                seen['code'] = getattr(res, 'status_code', None)
                seen['type'] = type(res).__name__
                return res
            app.route('/s', callback=h)
            env = make_environ('/s')
            _REC = opened
            try:
                res = serve(app, env)
            finally:
                _REC = None
            f = check(name, root, cwd, T, res, opened, seen, replica, odd)
            if f is not None:
                f['name'] = rawname
                f['index'] = idx
                return f
    finally:
        _REC = None
        G.request = old_req
        os.chdir(old_cwd)
        if home:
            if old_home is None:
                os.environ.pop('HOME', None)
            else:
                os.environ['HOME'] = old_home
        shutil.rmtree(T, ignore_errors=True)
        for t2 in extra_trees:
            shutil.rmtree(t2, ignore_errors=True)
    return None


def check(name, root, cwd, T, res, opened, seen, replica=False, odd=False):
    R = norm(root, cwd)
    # K1: nothing outside the root is opened
    for p in opened:
        if isinstance(p, bytes):
            p = p.decode('utf8', 'surrogateescape')
        if not isinstance(p, str):
            p = getattr(p, '__fspath__', lambda: None)()
            if not isinstance(p, str):
                continue
        P = norm(p, cwd)
        if inside(P, R):
            continue
        if P == T or P.startswith(T + '/') or P in WATCH or P.startswith('/tmp/ombott-verif-c16-'):
            return fail('K1.open_outside', opened=P.replace(T, '{T}'), root=R.replace(T, '{T}'), status=res.status)
    # K2: 200 / 403 / 404
    code = res.code
    if res.exc is not None or code not in (200, 403, 404):
        return fail('K2.status', status=res.status, exc=repr(res.exc) if res.exc else None, direct=seen,
                    errors=res.errors[-300:].replace(T, '{T}'))
    contents = {T + '/' + f: content_of(f) for f in tree_files(T, replica, odd)}
    locs = locations(name, R)
    ok_locs = [L for L in locs if inside(L, R) and L in contents]
    if code == 200:
        body = res.body
        if any(body == contents[L] for L in ok_locs):
            return None
        for L, c in contents.items():
            if body == c and not inside(L, R):
                return fail('K2.served_outside', served=L.replace(T, '{T}'), root=R.replace(T, '{T}'))
        if not any(inside(L, R) for L in locs):
            return fail('K2.served_outside', served=None, body=body, root=R.replace(T, '{T}'),
                        locations=[L.replace(T, '{T}') for L in locs])
        return fail('K3.served_other', body=body, accepted=[L.replace(T, '{T}') for L in ok_locs])
    if _is_plain(name) and ok_locs:
        return fail('harness.plain_inside_file_not_served', status=res.status, location=ok_locs[0].replace(T, '{T}'))
    return None


FINDINGS = {}
