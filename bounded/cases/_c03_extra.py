"""Extra C03 cases that need more than one request or hooks that edit the hook list while running.

  hookmut     k before-request (or after-request) hooks, one of which removes itself - or an earlier hook - while running
              (the one-shot "run on the first request" pattern).  Every hook that is registered when the request starts
              and is not removed before its turn must still run exactly once, in order; on the next request the removed
              hook is gone and the others run as before.
  twice       two requests that end in the same long-lived error object (config.errors_map) with pages of different
              length: each response must be well formed on its own (Content-Length == bytes returned).
"""
import itertools

from bounded.common import make_environ, serve, fail


def gen(tier):
    for which in ('before_request', 'after_request'):
        for n in (2, 3, 4):
            for actor in range(n):
                for victim in range(actor + 1):      # itself or an earlier one (in running order)
                    yield dict(extra='hookmut', which=which, n=n, actor=actor, victim=victim)
    for kind in ('badchunk', 'oversized', 'badmultipart'):
        for lens in itertools.permutations((1, 9, 40), 2):
            yield dict(extra='twice', kind=kind, lens=list(lens))


def run(case):
    import ombott
    if case['extra'] == 'hookmut':
        app = ombott.Ombott()
        log = []
        n, which = case['n'], case['which']
        hooks = []

        def mk(i):
            def h():
                log.append(i)
                if i == order[case['actor']] and not removed:
                    removed.append(True)
                    app.remove_hook(which, hooks[order[case['victim']]])
            return h
        removed = []
        for i in range(n):
            hooks.append(mk(i))
        for h in hooks:
            app.add_hook(which, h)
        # running order: before hooks in registration order, after hooks in reverse
        order = list(range(n)) if which == 'before_request' else list(range(n - 1, -1, -1))

        @app.route('/h')
        def handler():
            return 'ok'
        r1 = serve(app, make_environ('/h'))
        first = list(log)
        del log[:]
        r2 = serve(app, make_environ('/h'))
        second = list(log)
        exp_first = order                       # all were registered when the request started; the victim ran before or is the actor
        exp_second = [i for i in order if i != order[case['victim']]]
        if first != exp_first or second != exp_second or r1.code != 200 or r2.code != 200:
            return fail('K.hooks_once_each_in_order', expected=[exp_first, exp_second], observed=[first, second],
                        status=[r1.status, r2.status])
        return None
    if case['extra'] == 'twice':
        app = ombott.Ombott({'max_body_size': 8, 'max_memfile_size': 64})

        @app.route('/<p:path>', method='POST')
        def up(p):
            r = app.request
            if case['kind'] == 'badmultipart':
                return repr(dict(r.forms))
            return 'got %d' % len(r.body.read())
        out = []
        for ln in case['lens']:
            path = '/' + 'p' * ln
            if case['kind'] == 'badchunk':
                env = make_environ(path, 'POST', body=b'zz\r\nnot-a-chunk\r\n0\r\n\r\n', chunked=True)
            elif case['kind'] == 'oversized':
                env = make_environ(path, 'POST', body=b'x' * 50)
            else:
                env = make_environ(path, 'POST', body=b'--BB\r\nContent-Disposition: form-data\r\n\r\nv\r\n--BB--\r\n',
                                   content_type='multipart/form-data; boundary=BB')
            res = serve(app, env)
            cl = res.header_all('Content-Length')
            if res.calls != 1 or res.body is None or res.code is None or not (400 <= res.code < 500):
                return fail('K.one_wellformed_response', path=path, calls=res.calls, status=res.status, exc=repr(res.exc))
            if any(int(c) != len(res.body) for c in cl):
                return fail('K.content_length', path=path, content_length=cl, body_len=len(res.body), status=res.status)
            out.append((cl, len(res.body)))
        return None
    raise ValueError(case)
