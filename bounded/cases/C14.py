"""C14 bounded stand-in / replay harness: response header values cannot split the response and are wire-safe.

Contract (from the statement of C14, nothing more), checked on the REAL response classes and on the
header list the REAL application hands to start_response:

  H1  a value of type str/int/float/bool/None whose text contains CR, LF or NUL, offered through a
      single-value setter (headers[name]=v, headers.append, headers.setdefault, the header attributes
      content_type/content_length/expires, the constructor's dict / pair-list / keyword headers of
      HTTPResponse and HTTPError) is rejected: the operation has no effect on what is emitted (it may
      raise or be ignored) -> no emitted value contains CR/LF/NUL (H1.ctl_in_emitted) and the emitted
      values of that name are those of the accepted operations only (H1.rejected_value_emitted).
  H2  a str free of CR/LF/NUL that is valid Unicode text is accepted (needed for "multi-valued headers
      are emitted once per value": H2.clean_rejected).
  U   every emitted (name, value) of the whole list (defaults and Set-Cookie included): value is a
      native str (U1.native), Latin-1 encodable and UTF-8 decodable (U3.latin1_utf8).
  E1  for every header name the case used: the emitted values under exactly that name, decoded
      latin-1 -> utf-8, are the accepted values' texts, once per value, in order
      (item assignment / attribute replace, append / constructor add, setdefault only when absent).
      Text of an int/float is str(v); bool/None (statement silent about their text) match anything.
  U4  a str containing a lone surrogate (U+D800..U+DFFF; os.fsdecode() of a non-UTF-8 file name gives
      U+DC80..U+DCFF) is not text UTF-8 can carry: NO Latin-1 string decodes back to it as UTF-8.  "Every emitted
      value decodes back to the original text" therefore means such a value is never emitted, in whatever
      transcoding (raw bytes 0x80-0xFF via 'surrogateescape', '?', dropped characters ...).  Decided from the
      statement and the unchanged code: the setter may refuse it (no effect), or building the header list may
      fail (the unchanged code: the setters store it and `headerlist` raises UnicodeEncodeError; inside an
      application the server then gets the framework's fallback error response, whose list is held to U and U4
      as well).  If a header list IS handed over, every value emitted under a name that was offered such a
      str must be the text of a VALID value offered to that same name in the case (or, for Content-Type /
      Content-Length, the framework's own default: digits / text/html...) - U4.unrepresentable_value_emitted.
      Raw escaped bytes that do not form UTF-8 are caught by U3 before; U4 catches escapes that happen to form
      UTF-8 ('caf\udcc3\udca9' going out as the bytes of 'cafe-acute') and every substitution.
  E0  emission does not blow up when every stored value is valid Unicode text.
  B1  status 204: no Content-Type; status 304: none of Allow, Content-Encoding, Content-Language,
      Content-Length, Content-Range, Content-Type, Content-MD5, Last-Modified - under ANY spelling of the
      name (header names are case-insensitive) and whoever put them there (defaults too).

Accepted without judgement (statement silent): whether int/float/bool/None are accepted or refused;
what happens to bytes, lists, tuples, arbitrary objects, str/int subclasses with a lying __str__ and
text with lone surrogates (not UTF-8 encodable) - for them only the U/U4/H1.ctl/B1 clauses apply to the
header name concerned (for lone surrogates: refused or failing at emission, both fine, see U4); header *names*; default Content-Type / Content-Length added by the framework;
order between different names; list values through setdefault/update (not single-value setters, not
generated); copy() refusing multi-valued headers (only a successful copy is inspected).
"""
import itertools
import random

from bounded.common import make_environ, serve, fail

BOUND = ('values: 60 fixed (clean ASCII/Latin-1/BMP/astral text, CR|LF|NUL|CRLF at start/middle/end of ASCII and '
         'non-ASCII text, other C0/C1 controls, U+010A/U+2028/U+0085 look-alikes, lone surrogate, ints, floats incl. '
         'nan/inf, bools, None, bytes, list, tuple, object, str/int subclasses with lying __str__) [thorough: + every '
         'code point 0..0x2FF embedded in text + 64 astral/BMP samples] x entry points {item assignment, append, '
         'setdefault, attr content_type/content_length/expires, ctor dict, ctor pair list, ctor keywords, HTTPError '
         'keywords} x 18 name spellings x statuses {200, 204, 304, 404, "304 Not Modified", "204 No Content", 500} x '
         'observation {HTTPResponse.headerlist, copy().headerlist, app.response in a handler, HTTPResponse raised, '
         'returned, HTTPError raised -> start_response}; single operations swept exhaustively over '
         '(value x entry x mode) and (name x status x entry x mode); all sequences of 2 operations over entries^2 and of '
         '3 operations over {setitem, append, setdefault}^3 x {clean a, clean b, bad}^3 on one name; plus seeded '
         'random operation sequences (length 1..6) with random Unicode text and control characters at random positions; '
         'lone surrogates: 10 values (U+DC80, U+DCE9, U+DCFF, U+D800, U+DFFF alone and inside ASCII / non-ASCII text, '
         'escape sequences that form valid UTF-8 such as U+DCC3 U+DCA9) x every entry point x every observation mode x '
         '2 names, pairs (valid value, surrogate value) in both orders over {setitem, append, setdefault, ctor}^2 on one '
         'name x every mode, through set_cookie, and 1500 (thorough 20000) seeded random sequences mixing them in; '
         'equal-but-different values (1, 1.0, True / 0, 0.0, -0.0, False) offered one after the other on three names, every order of 3 x 3 setters x 3 modes; '
         'redirect(location[, code]) with 14 locations (relative, absolute, other scheme, CR / LF / NUL inside, non-ASCII) x '
         '{default, 301, 303} x request scheme {http, https}: no control character in any emitted header')
NONTRIVIAL_RULE = ('distinct (mode, status, ctor, ops); non-trivial = at least one operation offers a control-character '
                   'value, a non-ASCII value, a second value for a name, or the status has a header blacklist')

FORBIDDEN = {
    204: {'content-type'},
    304: {'allow', 'content-encoding', 'content-language', 'content-length', 'content-range',
          'content-type', 'content-md5', 'last-modified'},
}
AUTO_NAMES = {'Content-Length', 'Content-Type'}     # the framework may add these itself under exactly this spelling

NAMES = ['X-Test', 'Content-Length', 'content-length', 'CONTENT-TYPE', 'Content-Type', 'Content-MD5', 'Content-Md5',
         'last-modified', 'allow', 'Content-encoding', 'content-Language', 'CONTENT-RANGE', 'Vary',
         'Last-Modified', 'Allow', 'Content-Encoding', 'Content-Language', 'Content-Range']
ATTRS = {'content_type': 'Content-Type', 'content_length': 'Content-Length', 'expires': 'Expires'}
STATUSES = [200, 204, 304, 404, '304 Not Modified', '204 No Content', 500]
MODES = ['direct', 'copy', 'resp', 'raise', 'return', 'error']


def S(v):
    return {'t': 'str', 'v': v}


CLEAN = [S('abc'), S(''), S(' '), S('a b;c=d, "q"'), S('é'), S('ÿĀ'), S('€ uro'), S('\U0001d11e'),
         S('\x7f'), S('\x80\x85\x9f'), S('a\tb'), S('a\x0bb\x0cc'), S('a\x1bb'), S('ĊčĀ'),
         S('a b '), S('\\r\\n'), S('%0d%0a'), S('Â\u008dÂ\u008a')]
BAD = [S(p) for c in ('\r', '\n', '\0') for p in (c + 'abc', 'a' + c + 'bc', 'abc' + c, c)] + [
    S('a\r\nX-Evil: 1'), S('a\r\n\r\n<html>'), S('é€\n\U0001d11e'), S('€\r'), S('\0é'),
    S('a\n b'), S('a\r\n\tb'), S('\r\n'), S('abc\r\n')]
NUMS = [{'t': 'int', 'v': 0}, {'t': 'int', 'v': -1}, {'t': 'int', 'v': 12345678901234567890123},
        {'t': 'float', 'v': '1.5'}, {'t': 'float', 'v': 'nan'}, {'t': 'float', 'v': '-inf'}, {'t': 'float', 'v': '1e+22'},
        {'t': 'bool', 'v': True}, {'t': 'bool', 'v': False}, {'t': 'none', 'v': None}]
EXOTIC = [{'t': 'bytes', 'v': b'abc'}, {'t': 'bytes', 'v': b'a\r\nb'}, {'t': 'list', 'v': ['a', 'b']},
          {'t': 'list', 'v': ['a\r\nb']}, {'t': 'tuple', 'v': ['a\nb']}, {'t': 'obj', 'v': 'a\r\nb'}, {'t': 'obj', 'v': 'ok'},
          {'t': 'strsub', 'v': 'ok', 's': 'x\r\ny'}, {'t': 'strsub', 'v': 'a\nb', 's': 'ok'},
          {'t': 'intsub', 'v': 5, 's': '5\r\nX: y'}, S('a\ud800'), S('\udc0a\n')]
VALUES = CLEAN + BAD + NUMS + EXOTIC
# lone surrogates (U4): what os.fsdecode gives for undecodable bytes (U+DC80..U+DCFF) and others
SURROGATES = [S('\udc80'), S('\udce9'), S('caf\udce9.txt'), S('a\udcffb'), S('\ud800'), S('x\udfffy'),
              S('r\udce9sum\udce9.pdf'), S('caf\udcc3\udca9'), S('\udce2\udc82\udcac 5'), S('\u00e9\udc80\u20ac')]
SMALL = [S('v1'), S('vé2'), S('v\r\n3'), {'t': 'int', 'v': 7}]


def exhaustive(tier):
    return False


def _is_bad(spec):
    return spec['t'] == 'str' and any(c in spec['v'] for c in '\r\n\0')


def nontrivial(case):
    ops = list(case['ops']) + [['ctor', n, v] for n, v in case['ctor']['items']]
    if case['status'] not in (200, 404, 500):
        return True
    names = [o[1] for o in ops]
    if len(names) != len(set(names)):
        return True
    for _e, _n, spec in ops:
        if spec['t'] != 'str' or _is_bad(spec) or not spec['v'].isascii():
            return True
    return False


# ---------------------------------------------------------------------------------------------
# generation
# ---------------------------------------------------------------------------------------------
def _entries(mode):
    ents = ['setitem', 'append', 'setdefault', 'attr:content_type', 'attr:content_length', 'attr:expires']
    if mode == 'resp':
        return ents
    if mode == 'error':
        return ents + ['ctor:errkw']
    return ents + ['ctor:dict', 'ctor:pairs', 'ctor:kw']


def _case(mode, status, steps):
    """steps: list of (entry, name, spec); ctor entries are collected into the constructor call."""
    ctor_kind = 'none'
    items, ops = [], []
    for e, n, v in steps:
        if e == 'setdefault' and v['t'] == 'list':
            e = 'append'                   # a list handed to setdefault is not a single-value offer (not generated)
        if e.startswith('ctor:'):
            k = e[5:]
            if ctor_kind not in ('none', k):
                k = ctor_kind              # one constructor call: keep the first kind
            ctor_kind = k
            items.append([n, v])
        else:
            if e.startswith('attr:'):
                n = ATTRS[e[5:]]
            ops.append([e, n, v])
    if mode == 'error' and ctor_kind == 'none':
        ctor_kind = 'errkw'
    return dict(mode=mode, status=status, ctor=dict(kind=ctor_kind, items=items), ops=ops)


def _rand_text(rnd):
    n = rnd.randrange(0, 12)
    pools = ['abcXYZ019 ;=,"', 'éÿ\u0080 ', 'Ā€ ￿', '\U0001d11e\U0010ffff\U00010000',
             '\t\x0b\x0c\x1b\x7f\x85']
    s = [rnd.choice(rnd.choice(pools)) for _ in range(n)]
    if rnd.random() < 0.5:
        for _ in range(rnd.choice([1, 1, 2])):
            s.insert(rnd.randrange(0, len(s) + 1), rnd.choice(['\r', '\n', '\0', '\r\n']))
    return ''.join(s)


def gen_cases(tier, seed):
    thorough = tier != 'quick'
    # A1: every value x every entry x every mode (two names, three statuses rotating)
    values = list(VALUES)
    if thorough:
        values += [S('a' + chr(c) + 'b') for c in range(0x300)]
        values += [S(chr(c)) for c in range(0x300, 0x110000, 0x110000 // 64) if not 0xd800 <= c < 0xe000]
    i = 0
    for mode in MODES:
        for entry in _entries(mode):
            for v in values:
                for name in ('X-Test', 'Content-Length') if not thorough else ('X-Test', 'Content-Length', 'content-type'):
                    st = STATUSES[i % 3] if mode != 'error' else (404, 500, 304)[i % 3]
                    i += 1
                    yield _case(mode, st, [(entry, name, v)])
    # A2: every name x every status x entry x mode, a clean, a non-ASCII and a bad value
    for mode in MODES:
        for entry in _entries(mode):
            if entry.startswith('attr:') and entry != 'attr:content_type':
                continue
            for name in NAMES:
                for st in STATUSES:
                    for v in (S('v'), S('é€'), S('v\nw')):
                        yield _case(mode, st, [(entry, name, v)])
    # B: sequences of two operations
    for mode in ('direct', 'resp', 'raise', 'error', 'copy'):
        ents = _entries(mode)
        for e1, e2 in itertools.product(ents, repeat=2):
            for n1, n2 in (('X-Test', 'X-Test'), ('Content-Type', 'Content-Type'), ('Content-Length', 'X-Test'),
                           ('content-length', 'Content-Length')):
                for v1, v2 in itertools.product(SMALL, repeat=2):
                    if v1 is v2 and v1['t'] != 'str':
                        continue
                    for st in ((200, 304) if mode != 'error' else (404, 304)):
                        yield _case(mode, st, [(e1, n1, v1), (e2, n2, v2)])
    # B3: sequences of three operations on one name
    tri = [S('a'), S('b'), S('b\0d')]
    for mode in ('direct', 'resp', 'return'):
        for es in itertools.product(('setitem', 'append', 'setdefault'), repeat=3):
            for vs in itertools.product(tri, repeat=3):
                for name, st in (('Vary', 200), ('allow', 304)):
                    yield _case(mode, st, [(e, name, v) for e, v in zip(es, vs)])
    # C: cookies ride in the same list
    for mode in ('direct', 'resp', 'raise'):
        for v in (S('plain'), S('a\r\nSet-Cookie: x=y'), S('é€;,"\\'), S('a\0b')):
            for st in (200, 304):
                yield _case(mode, st, [('cookie', 'ck', v), ('append', 'Vary', S('z'))])
    # S1: every lone-surrogate value x every entry x every mode (two names, statuses rotating)
    i = 0
    for mode in MODES:
        for entry in _entries(mode):
            for v in SURROGATES:
                for name in ('X-Test', 'Content-Type'):
                    st = STATUSES[i % 3] if mode != 'error' else (404, 500, 304)[i % 3]
                    i += 1
                    yield _case(mode, st, [(entry, name, v)])
    # S2: a valid value and a surrogate value on one name, both orders
    for mode in MODES:
        ents = ['setitem', 'append', 'setdefault', 'ctor:errkw' if mode == 'error' else 'ctor:pairs']
        if mode == 'resp':
            ents = ents[:3]
        for e1, e2 in itertools.product(ents, repeat=2):
            for sv in (SURROGATES[2], SURROGATES[7], SURROGATES[4]):
                for name in ('X-Test', 'Vary'):
                    st = 200 if mode != 'error' else 404
                    yield _case(mode, st, [(e1, name, S('ok\u00e9')), (e2, name, sv)])
                    yield _case(mode, st, [(e1, name, sv), (e2, name, S('ok\u00e9'))])
                    yield _case(mode, st, [(e1, name, sv), (e2, name, SURROGATES[3])])
    # S3: through set_cookie
    for mode in ('direct', 'resp', 'raise'):
        for v in SURROGATES:
            yield _case(mode, 200, [('cookie', 'ck', v), ('append', 'Vary', S('z'))])
    # S4: seeded random sequences with surrogate values mixed in
    rnd = random.Random(seed * 7919 + 1414)
    for _ in range(1500 if not thorough else 20000):
        mode = rnd.choice(MODES)
        ents = _entries(mode)
        steps = []
        for _k in range(rnd.randrange(1, 5)):
            r = rnd.random()
            if r < 0.5:
                t = list(_rand_text(rnd))
                for _j in range(rnd.choice([1, 1, 2, 3])):
                    t.insert(rnd.randrange(0, len(t) + 1), chr(rnd.choice([0xdc80, 0xdcc3, 0xdca9, 0xdce9, 0xdcff, 0xd800,
                                                                              0xdbff, 0xdc00, 0xdfff,
                                                                              rnd.randrange(0xdc80, 0xdd00)])))
                v = S(''.join(t))
            elif r < 0.6:
                v = rnd.choice(SURROGATES)
            else:
                v = S(_rand_text(rnd)) if r < 0.9 else rnd.choice(VALUES)
            steps.append((rnd.choice(ents), rnd.choice(['Vary', 'X-Test', 'X-Test', 'Content-Type', 'content-length']), v))
        st = rnd.choice(STATUSES) if mode != 'error' else rnd.choice([404, 500, 304, 204, 405])
        yield _case(mode, st, steps)
    # D: seeded random sequences
    rnd = random.Random(seed * 7919 + 14)
    for _ in range(12000 if not thorough else 150000):
        mode = rnd.choice(MODES)
        ents = _entries(mode)
        steps = []
        for _k in range(rnd.randrange(1, 7)):
            r = rnd.random()
            v = S(_rand_text(rnd)) if r < 0.7 else rnd.choice(VALUES)
            steps.append((rnd.choice(ents), rnd.choice(NAMES[:6] + ['Vary', 'X-Test', 'X-Test']), v))
        st = rnd.choice(STATUSES) if mode != 'error' else rnd.choice([404, 500, 304, 204, 405])
        yield _case(mode, st, steps)
    # G: values that are EQUAL but not the same text (1 == 1.0 == True, 0 == 0.0 == -0.0 == False) offered one after the other in one
    # process: each must be emitted as its own text (a cache keyed by the value would hand out the text of the first)
    groups = [[{'t': 'int', 'v': 1}, {'t': 'float', 'v': '1.0'}, {'t': 'bool', 'v': True}],
              [{'t': 'int', 'v': 0}, {'t': 'float', 'v': '0.0'}, {'t': 'float', 'v': '-0.0'}, {'t': 'bool', 'v': False}]]
    for grp in groups:
        for perm in itertools.permutations(grp, 3):
            for entry in ('setitem', 'append', 'setdefault'):
                for mode in ('direct', 'resp', 'return'):
                    yield _case(mode, 200, [(entry, name, v) for name, v in zip(('X-A', 'X-B', 'Vary'), perm)])
    # R: the framework's own helper that sets a header from application data: redirect(location) -> Location
    for loc in REDIRECTS:
        for code in (None, 301, 303):
            for scheme in ('http', 'https'):
                c = _case('redirect', 200, [])
                c.update(location=loc, code=code, scheme=scheme)
                yield c


REDIRECTS = ['/x', 'next?a=1', 'https://example.org/x', 'https://example.org/x\r\nSet-Cookie: sid=evil', 'mailto:a@b\r\nX: y',
             'http://example.org/\nX: y', '/a\0b', 'x\ry', '/p\r\nX-Evil: 1', 'custom:\r\n\r\n<html>', 'https://e/\0', '//other/\r\nA: b',
             '/caf\u00e9', 'https://example.org/\u20ac']


# ---------------------------------------------------------------------------------------------
# values
# ---------------------------------------------------------------------------------------------
class _Obj:
    def __init__(self, s):
        self.s = s

    def __str__(self):
        return self.s


class _StrSub(str):
    def __new__(cls, v, s):
        o = str.__new__(cls, v)
        o.s = s
        return o

    def __str__(self):
        return self.s


class _IntSub(int):
    def __new__(cls, v, s):
        o = int.__new__(cls, v)
        o.s = s
        return o

    def __str__(self):
        return self.s
    __repr__ = __str__


def make_value(spec):
    t, v = spec['t'], spec['v']
    if t == 'str':
        return v
    if t == 'int':
        return int(v)
    if t == 'float':
        return float(v)
    if t == 'bool':
        return bool(v)
    if t == 'none':
        return None
    if t == 'bytes':
        return bytes(v)
    if t == 'list':
        return list(v)
    if t == 'tuple':
        return tuple(v)
    if t == 'obj':
        return _Obj(v)
    if t == 'strsub':
        return _StrSub(v, spec['s'])
    if t == 'intsub':
        return _IntSub(v, spec['s'])
    raise AssertionError(t)


def _valid_text(s):
    try:
        s.encode('utf8')
        return True
    except UnicodeEncodeError:
        return False


def classify(spec):
    """-> (class, expected text or None): 'reject' | 'accept' | 'optional' | 'free'."""
    t = spec['t']
    if t == 'str':
        v = spec['v']
        if any(c in v for c in '\r\n\0'):
            return 'reject', v
        if not _valid_text(v):
            return 'free', None
        return 'accept', v
    if t in ('int', 'float'):
        return 'optional', str(make_value(spec))
    if t in ('bool', 'none'):
        return 'optional', None
    return 'free', None


# ---------------------------------------------------------------------------------------------
# the model (what the statement lets the header list contain for the names the case used)
# ---------------------------------------------------------------------------------------------
class Model:
    def __init__(self):
        self.store = {}       # name -> list of expected texts (None = any text)
        self.free = set()     # names about whose content nothing is claimed
        self.offered_bad = {}  # name -> set of rejected texts
        self.surrogates = False
        self.problem = None
        self.unrepresentable = {}   # lower-cased name -> surrogate texts offered to it
        self.valid_offered = {}     # lower-cased name -> texts of valid values offered to it (None: any text)

    def note(self, name, spec):
        """Bookkeeping for U4 (independent of what the operation did)."""
        cls, text = classify(spec)
        if spec['t'] == 'str' and not _valid_text(spec['v']):
            self.unrepresentable.setdefault(name.lower(), []).append(spec['v'])
        elif cls in ('accept', 'optional'):
            self.valid_offered.setdefault(name.lower(), []).append(text)
        elif cls == 'free':
            self.valid_offered.setdefault(name.lower(), []).append(None)

    def apply(self, entry, name, spec, raised):
        cls, text = classify(spec)
        self.note(name, spec)
        if spec['t'] == 'str' and not _valid_text(spec['v']):
            self.surrogates = True
        if cls == 'free':
            self.free.add(name)
            return
        if cls == 'reject':
            self.offered_bad.setdefault(name, set()).add(text)
            return                      # no effect, whether it raised or was ignored
        if raised is not None:
            if cls == 'accept' and self.problem is None:
                self.problem = fail('H2.clean_rejected', entry=entry, name=name, value=text, exception=repr(raised))
            return
        if entry in ('setitem',) or entry.startswith('attr:'):
            self.store[name] = [text]
        elif entry == 'setdefault':
            self.store.setdefault(name, [text])
        else:                           # append and every constructor form
            self.store.setdefault(name, []).append(text)


def _build(ombott, case, model):
    """Construct the HTTPResponse/HTTPError the case describes (constructor headers included)."""
    kind, items = case['ctor']['kind'], case['ctor']['items']
    status = case['status']
    is_err = case['mode'] == 'error'

    def make(headers=None, **kw):
        if is_err:
            return ombott.HTTPError(status, 'body', headers=headers, **kw) if headers is not None \
                else ombott.HTTPError(status, 'body', **kw)
        return ombott.HTTPResponse('body', status, headers, **kw)

    if kind == 'none' or not items:
        return make()
    pairs = [(n, make_value(v)) for n, v in items]
    if len({n for n, _ in pairs}) != len(pairs):
        kind = 'pairs'                  # a dict / keyword set cannot carry one name twice
    try:
        if kind == 'dict':
            obj = make(dict(pairs))
        elif kind == 'pairs':
            obj = make(pairs)
        else:                           # kw / errkw
            obj = make(**dict(pairs))
    except Exception as e:              # the constructor refused the lot: nothing of it may be emitted
        if all(classify(v)[0] == 'accept' for _n, v in items) and model.problem is None:
            model.problem = fail('H2.clean_rejected', entry='ctor:' + kind, items=[[n, v['v']] for n, v in items],
                                 exception=repr(e))
        for n, v in items:
            c, text = classify(v)
            model.note(n, v)
            if c == 'reject':
                model.offered_bad.setdefault(n, set()).add(text)
        return make()
    for n, v in items:
        model.apply('ctor', n, v, None)
    return obj


def _do(resp, entry, name, value, spec, model):
    raised = None
    if entry == 'cookie':
        if spec['t'] == 'str' and not _valid_text(spec['v']):
            model.surrogates = True     # a cookie value that cannot be emitted: refusing / failing at emission is fine (U4)
            model.unrepresentable.setdefault('set-cookie', []).append(name + '=')
        try:
            resp.set_cookie(name, value)
        except Exception:
            pass
        return
    try:
        if entry == 'setitem':
            resp.headers[name] = value
        elif entry == 'append':
            resp.headers.append(name, value)
        elif entry == 'setdefault':
            resp.headers.setdefault(name, value)
        elif entry.startswith('attr:'):
            setattr(resp, entry[5:], value)
        else:
            raise AssertionError(entry)
    except AssertionError:
        raise
    except Exception as e:
        raised = e
    if entry == 'attr:expires' and spec['t'] != 'str':
        model.free.add(name)            # the writer formats non-text as a date: not this property's business
        model.valid_offered.setdefault(name.lower(), []).append(None)
        return
    model.apply(entry, name, spec, raised)


def _ops(resp, case, model):
    for entry, name, spec in case['ops']:
        _do(resp, entry, name, make_value(spec), spec, model)


def status_code(status):
    return status if isinstance(status, int) else int(status.split()[0])


def check_emitted(case, model, emitted, emission_failed, detail):
    if model.problem is not None:
        return model.problem
    if emission_failed and not model.surrogates:
        return fail('E0.emission_failed', detail=detail)
    if emitted is None:
        return None
    code = status_code(case['status'])
    decoded = []
    for item in emitted:
        if not (isinstance(item, tuple) and len(item) == 2):
            return fail('U1.native', item=repr(item))
        k, v = item
        if not isinstance(k, str) or not isinstance(v, str):
            return fail('U1.native', name=repr(k), value=repr(v))
        if any(c in v for c in '\r\n\0'):
            return fail('H1.ctl_in_emitted', name=k, value=v)
        try:
            d = v.encode('latin1').decode('utf8')
        except UnicodeError as e:
            return fail('U3.latin1_utf8', name=k, value=v, error=repr(e))
        decoded.append((k, d))
    for k, d in decoded:
        sur = model.unrepresentable.get(k.lower())
        if not sur:
            continue
        valid = model.valid_offered.get(k.lower(), [])
        if d in valid or None in valid:
            continue
        if k.lower() == 'set-cookie' and not any(d.startswith(c) for c in sur):
            continue                    # another cookie
        if k.lower() == 'content-length' and d.isdigit():
            continue                    # the framework's own default
        if k.lower() == 'content-type' and d.lower().startswith('text/html'):
            continue                    # the framework's own default
        return fail('U4.unrepresentable_value_emitted', name=k, emitted=d, offered_unrepresentable=sur,
                    valid_offered=valid, fallback_list=bool(emission_failed))
    if emission_failed:
        return None                     # a fallback list was handed over; nothing more is claimed
    forb = FORBIDDEN.get(code, ())
    for k, d in decoded:
        if k.lower() in forb:
            return fail('B1.withheld', status=code, name=k, value=d)
    names = []
    for _e, n, _v in [['ctor'] + it for it in case['ctor']['items']] + case['ops']:
        if _e != 'cookie' and n not in names:
            names.append(n)
    for n in names:
        if n in model.free:
            continue
        got = [d for k, d in decoded if k == n]
        exp = [] if n.lower() in forb else model.store.get(n, [])
        if n not in model.store and n in AUTO_NAMES:
            continue                    # the framework's own default may sit here
        ok = len(got) == len(exp) and all(e is None or e == g for e, g in zip(exp, got))
        if not ok:
            bad = model.offered_bad.get(n, ())
            if any(g in bad for g in got):
                return fail('H1.rejected_value_emitted', name=n, expected=exp, observed=got)
            return fail('E1.values_in_order', name=n, expected=exp, observed=got)
    return None


def run_case(case):
    import ombott
    mode = case['mode']
    model = Model()
    if mode in ('direct', 'copy'):
        resp = _build(ombott, case, model)
        _ops(resp, case, model)
        if mode == 'copy':
            try:
                resp = resp.copy(cls=ombott.HTTPResponse)
            except Exception:
                return model.problem    # copy() refusing is outside the statement
        try:
            emitted = resp.headerlist
        except Exception as e:
            return check_emitted(case, model, None, True, repr(e))
        return check_emitted(case, model, emitted, False, None)

    app = ombott.Ombott()
    crash = {}
    if mode == 'redirect':
        @app.route('/h')
        def r():
            ombott.redirect(case['location'], case['code']) if case['code'] else ombott.redirect(case['location'])
        env = make_environ('/h')
        env['wsgi.url_scheme'] = case['scheme']
        # redirect() works on the default application's request / response objects
        import ombott.ombott as core
        G = core.Globals
        saved = (G.request, G.response)
        G.request, G.response = app.request, app.response
        try:
            res = serve(app, env)
        finally:
            G.request, G.response = saved
        # a refused location (500) is fine; what must not happen is a control character in an emitted header (H1)
        return check_emitted(case, model, res.headers, False, None)

    @app.route('/h')
    def h():
        try:
            if mode == 'resp':
                app.response.status = case['status']
                _ops(app.response, case, model)
                return 'body'
            resp = _build(ombott, case, model)
            _ops(resp, case, model)
        except BaseException as e:       # harness trouble must not look like a framework 500
            crash['e'] = repr(e)
            raise
        if mode == 'return':
            return resp
        raise resp
    res = serve(app, make_environ('/h'))
    if crash:
        raise AssertionError('harness: ' + crash['e'])
    failed = res.exc is not None or res.exc_info_calls > 0 or res.calls != 1
    return check_emitted(case, model, res.headers, failed,
                         dict(exc=repr(res.exc), status=res.status, calls=res.calls, errors=res.errors[-300:]))


FINDINGS = {
    # D14: the 204/304 blacklist compared header names case-sensitively (fixed by "fix: the 204/304 header
    # blacklist must match header names case-insensitively"); fires only for a non-canonical spelling.
    'D14-blacklist-case-sensitive': lambda case, failure: (
        failure.get('clause') == 'B1.withheld' and failure.get('name') != failure.get('name', '').title()),
}
