"""C17 bounded stand-in / replay harness: Range and conditional requests describe exactly the bytes delivered.

Three kinds of case, all on the REAL functions of ombott.static_stream:

  parse   get_first_range(header, maxlen)  against /verif/spec/range_spec.py (RFC 7233 section 2.1 clipping)
            P1.raises   never raises
            P2.valid    a result is None or (s, e) ints with 0 <= s < e <= maxlen
            P3.exact    header inside the RFC grammar: result == the first range clipped to maxlen (None = unsatisfiable)
  iter    _file_iter_range(fp, offset, count, maxread) with offset + count <= file length (what static_file asks for)
            I1.chunk    every chunk is bytes and not longer than maxread        I2.exact   concat == file[offset:offset+count]
  static  static_file() on a real file /tmp/ombott-verif-c17-* (root=/tmp), streaming buffer patched to a small B through
          _file_iter_range.__defaults__ (restored), observed twice: "direct" (the object static_file returns, its body
          iterated chunk by chunk inside a handler) and "app" (what the WSGI server receives from Ombott.__call__):
            X0.exception  static_file raised / the application answered 500
            C1.ims_304    If-Modified-Since date >= the file's mtime  ->  304        C2.body_304  ... with an empty body
            C3.unexpected_304   a 304 although the date is older than the file / not a date / absent
            C4.zone_304 / C4.zone_unexpected_304   the same two demands for a date written with a numeric zone (+0200,
                          -0500, +0530 ...) or an RFC 822 zone name (EST, PDT ...): what counts is the INSTANT the date
                          denotes (computed here with datetime + tzinfo), not its wall-clock digits
            R0.status / R0.length / R0.body     no Range header: 200, Content-Length == true length, body == the file
            R1.status     a (non-empty) Range header: 206 or 416, nothing else
            R2.*          a 206 is self-consistent: Content-Range == "bytes s-l/len" with len the true length and
                          0 <= s <= l < len; Content-Length == l-s+1; body == file[s:l+1]; no chunk longer than B
            R3.*          header inside the RFC 7233 grammar: 206 with exactly the first range clipped to the file when that
                          is satisfiable (R3.should_be_206 / R3.slice), 416 when it is not (R3.should_be_416)
            H1.body       HEAD: no body                H2.headers   HEAD: same status and headers as GET (Date excepted)
Where the statement is silent everything is accepted: headers outside the grammar need only R1/R2; an empty Range value may be
treated as absent; an If-Modified-Since equal to floor(mtime) of a file with fractional mtime, or in a non-HTTP date format,
may or may not give 304.
"""
import io
import itertools
import os
import random
import re
import tempfile
import time

from bounded.common import make_environ, serve, fail
from spec import range_spec

BOUND = ('parse: every closed a-b / open a- / suffix -k spec with a,b,k in 0..9 (and 10**6, 10**20, leading zeros, 4400-digit '
         'numbers), ~60 multi-range / blank variants and ~90 near misses (missing unit, other units, signs, blanks, hex, '
         'underscores, Unicode digits, extra dashes, reversed, junk) x maxlen 0..9 (quick 0..6) and 10**6, exhaustive; '
         'iter: every (length<=9 (quick 7), offset, count with offset+count<=length, maxread 1..4 and 64) on BytesIO and real '
         'files; static: real files of length {0,1,2,3,B-1,B,B+1,2B,3B+1} for patched buffer B=4 and 1 (thorough also 3, 7 and '
         'all lengths 0..16, and the unpatched 1 MiB buffer with files of 2^20-1, 2^20, 2^20+1, 3*2^20+1 bytes) x the header '
         'pool built around the positions {0,1,n-2,n-1,n,n+1,B-1,B,B+1,2B,10**20} x {GET, HEAD}; If-Modified-Since: '
         'mtime in {10^9, 10^9+0.5, 0; thorough also 4102444800, 951782400.9} x date = mtime + {-86400,-1,0,+1,+86400} in RFC 1123 / RFC 850 / asctime '
         'spelling (also under the local time zones EST5EDT, IST-5:30, NZST-12NZDT), junk and non-HTTP spellings x Range in {absent, satisfiable, unsatisfiable, reversed} x {GET, HEAD}; '
         'zoned If-Modified-Since: the instant int(mtime) + {-3600,-1,0,+1,+3600} written in the zones {+0000, +0100, +0200, '
         '-0200, -0500, +0530, -0930, +1400, -1200, EST, EDT, PST, PDT, CST, MDT, UT} (RFC 1123 layout with numeric / named zone, RFC 850 layout with '
         'zone, and without the weekday) x mtime in {10^9, 10^9+0.5, 1700000000; thorough also 0+86400, 4102444800} x local TZ {unset, EST5EDT; thorough also IST-5:30, NZST} x '
         'Range {absent, bytes=1-2} x {GET, HEAD}; '
         'thorough adds seeded random mutations (20000 parse, 4000 static) of grammar headers')
NONTRIVIAL_RULE = ('distinct case dict; non-trivial = parse/static: a non-empty Range header or an If-Modified-Since header '
                   'is present (or the plain whole-file case of a non-empty file); iter: count > 0')

BIGDIGITS = '9' * 4400          # a number the RFC grammar allows but int() refuses (limit 4300 digits)


def exhaustive(tier):
    return False


def nontrivial(case):
    if case['kind'] == 'iter':
        return case['count'] > 0
    if case['kind'] == 'parse':
        return bool(case['header'])
    return bool(case.get('range')) or bool(case.get('ims')) or case['n'] > 0


# ------------------------------------------------------------------ spec side
def _toint(digits):
    v = 0
    for i in range(0, len(digits), 1000):      # int() refuses > 4300 digits; the grammar does not
        part = digits[i:i + 1000]
        v = v * (10 ** len(part)) + int(part)
    return v


def spec_first_range(header, length):
    """range_spec.first_range, but safe for numbers beyond int()'s digit limit"""
    m = range_spec._FIRST.fullmatch(header)
    if not m:
        return None
    if m.group('n') is not None:
        sp = ('suffix', _toint(m.group('n')))
    elif m.group('b') is None:
        sp = ('open', _toint(m.group('a')))
    else:
        sp = ('closed', _toint(m.group('a')), _toint(m.group('b')))
    return range_spec.clip(sp, length)


def pattern(n):
    return bytes((i * 7 + 3) % 251 for i in range(n))


_DAYS = ['Mon', 'Tue', 'Wed', 'Thu', 'Fri', 'Sat', 'Sun']
_LONGDAYS = ['Monday', 'Tuesday', 'Wednesday', 'Thursday', 'Friday', 'Saturday', 'Sunday']
_MONTHS = ['Jan', 'Feb', 'Mar', 'Apr', 'May', 'Jun', 'Jul', 'Aug', 'Sep', 'Oct', 'Nov', 'Dec']


def _civil(t):
    """(year, month, day, hh, mm, ss, weekday Monday=0) of the POSIX time t (proleptic Gregorian, UTC)"""
    days, rem = divmod(int(t), 86400)
    hh, rem = divmod(rem, 3600)
    mm, ss = divmod(rem, 60)
    wd = (days + 3) % 7                      # 1970-01-01 was a Thursday
    z = days + 719468                        # days since 0000-03-01
    era = z // 146097
    doe = z - era * 146097
    yoe = (doe - doe // 1460 + doe // 36524 - doe // 146096) // 365
    y = yoe + era * 400
    doy = doe - (365 * yoe + yoe // 4 - yoe // 100)
    mp = (5 * doy + 2) // 153
    d = doy - (153 * mp + 2) // 5 + 1
    m = mp + 3 if mp < 10 else mp - 9
    if m <= 2:
        y += 1
    return y, m, d, hh, mm, ss, wd


def http_date(t, style):
    y, m, d, hh, mm, ss, wd = _civil(t)
    if style == 'rfc1123':
        return '%s, %02d %s %04d %02d:%02d:%02d GMT' % (_DAYS[wd], d, _MONTHS[m - 1], y, hh, mm, ss)
    if style == 'rfc850':
        return '%s, %02d-%s-%02d %02d:%02d:%02d GMT' % (_LONGDAYS[wd], d, _MONTHS[m - 1], y % 100, hh, mm, ss)
    if style == 'asctime':
        return '%s %s %2d %02d:%02d:%02d %04d' % (_DAYS[wd], _MONTHS[m - 1], d, hh, mm, ss, y)
    # spellings outside the HTTP-date grammar: the statement does not say what they mean
    if style == 'iso':
        return '%04d-%02d-%02dT%02d:%02d:%02dZ' % (y, m, d, hh, mm, ss)
    if style == 'nogmt':
        return '%s, %02d %s %04d %02d:%02d:%02d' % (_DAYS[wd], d, _MONTHS[m - 1], y, hh, mm, ss)
    if style == 'length':
        return '%s, %02d %s %04d %02d:%02d:%02d GMT; length=5' % (_DAYS[wd], d, _MONTHS[m - 1], y, hh, mm, ss)
    if style == 'offset':
        return '%s, %02d %s %04d %02d:%02d:%02d +0000' % (_DAYS[wd], d, _MONTHS[m - 1], y, hh, mm, ss)
    raise ValueError(style)


HTTP_STYLES = ('rfc1123', 'rfc850', 'asctime')
OTHER_STYLES = ('iso', 'nogmt', 'length', 'offset')
JUNK_DATES = ['garbage', 'GMT', '0', '-1', 'Thu, 99 Foo 2001 00:00:00 GMT', ',', ';']

# zones: numeric offsets (minutes east of Greenwich) and the zone names RFC 822 / RFC 2822 (obs-zone) define
NAMED_ZONES = {'UT': 0, 'EST': -300, 'EDT': -240, 'CST': -360, 'CDT': -300, 'MST': -420, 'MDT': -360, 'PST': -480, 'PDT': -420}
ZONES = ['+0000', '+0100', '+0200', '-0200', '-0500', '+0530', '-0930', '+1400', '-1200', 'EST', 'EDT', 'PST', 'PDT', 'CST', 'MDT', 'UT']
ZONE_LAYOUTS = ('rfc1123', 'rfc850', 'noday')


def zone_minutes(zone):
    if zone in NAMED_ZONES:
        return NAMED_ZONES[zone]
    sign = -1 if zone[0] == '-' else 1
    return sign * (int(zone[1:3]) * 60 + int(zone[3:5]))


def zoned_date(t, zone, layout):
    """the instant t (POSIX seconds) written as a date in `zone`; computed with datetime + tzinfo and read back"""
    import datetime
    tz = datetime.timezone(datetime.timedelta(minutes=zone_minutes(zone)))
    dt = datetime.datetime.fromtimestamp(t, tz)
    back = datetime.datetime(dt.year, dt.month, dt.day, dt.hour, dt.minute, dt.second, tzinfo=tz)
    assert int(back.timestamp()) == t and back.utcoffset() == datetime.timedelta(minutes=zone_minutes(zone))
    wd, mon = dt.weekday(), _MONTHS[dt.month - 1]
    if layout == 'rfc1123':
        return '%s, %02d %s %04d %02d:%02d:%02d %s' % (_DAYS[wd], dt.day, mon, dt.year, dt.hour, dt.minute, dt.second, zone)
    if layout == 'rfc850':
        return '%s, %02d-%s-%02d %02d:%02d:%02d %s' % (_LONGDAYS[wd], dt.day, mon, dt.year % 100, dt.hour, dt.minute, dt.second, zone)
    if layout == 'noday':
        return '%02d %s %04d %02d:%02d:%02d %s' % (dt.day, mon, dt.year, dt.hour, dt.minute, dt.second, zone)
    raise ValueError(layout)


# ------------------------------------------------------------------ header pools
def grammar_specs(positions):
    out = []
    for a in positions:
        out.append('%d-' % a)
        out.append('-%d' % a)
        for b in positions:
            out.append('%d-%d' % (a, b))
    return out


NEAR_MISSES = [
    'bytes=', 'bytes=-', 'bytes=--1', 'bytes=1--2', 'bytes=--', 'bytes=a-b', 'bytes=1-2-3', 'bytes=-1-', 'bytes=-1-2',
    'bytes 0-1', 'bytes:0-1', 'bytes=0-1;', 'Bytes=0-1', 'BYTES=0-1', 'bits=0-1', 'items=0-1', 'none', 'bytes', '0-1', '=0-1',
    'bytes==0-1', 'bytes=0-1,', 'bytes=,0-1', 'bytes=,', 'bytes=0-1,,2-3', ' bytes=0-1', 'bytes= 0-1', 'bytes=0 - 1', 'bytes=0- 1',
    'bytes=0 -1', 'bytes =0-1', 'bytes=\t0-1', 'bytes=0-1\n', 'bytes=0-1\r\n', 'bytes=+0-1', 'bytes=0-+1', 'bytes=-+1', 'bytes=+1-',
    'bytes=0x1-0x2', 'bytes=1e1-', 'bytes=1.0-2', 'bytes=1_0-2_0', 'bytes=-1_0', 'bytes=١-٢', 'bytes=-٣',
    'bytes=１-', 'bytes=−1', 'bytes=1–2', 'xbytes=0-1', 'bytes=bytes=0-1', 'bytes=0-1bytes=2-3', 'bytes=0-1,bytes=2-3',
    'bytes=0-1 bytes=2-3', 'bytes=0-1;2-3', 'bytes=0-1/5', 'bytes=*', 'bytes=*-*', 'bytes=0-*', 'bytes */5', 'bytes=0-1,x', 'bytes=x,0-1',
    'bytes=0-1, x', 'bytes=1-0,0-1', 'bytes=9-,0-1', 'bytes=-0,0-1', 'bytes=0-0,-1', 'bytes=-1,0-0', 'bytes=0-,1-', 'bytes=1-,0-',
    'bytes=0-0 , 1-1', 'bytes=0-0\t,\t1-1', 'bytes=0-0,1-1,2-2,3-3', 'bytes=2-3,0-1', 'bytes=00-00', 'bytes=000-', 'bytes=-000',
    'bytes=-001', 'bytes=01-02', 'bytes=0-0', 'bytes=-0', 'bytes=0-', 'bytes=1000000-', 'bytes=-1000000', 'bytes=0-1000000',
    'bytes=100000000000000000000-', 'bytes=-100000000000000000000', 'bytes=0-100000000000000000000',
    'bytes=100000000000000000000-100000000000000000001', 'bytes=0-' + BIGDIGITS, 'bytes=-' + BIGDIGITS, 'bytes=' + BIGDIGITS + '-',
    'bytes=1-' + BIGDIGITS, 'bytes=-' + '0' * 4400 + '1', 'bytes=' + '0' * 4400 + '-', '\x00', 'bytes=0-1\x00', 'b', '-', ',',
]


def header_pool(n, B, tier):
    pos = sorted({p for p in (0, 1, 2, n - 2, n - 1, n, n + 1, B - 1, B, B + 1, 2 * B, 3 * B) if p >= 0})
    if tier == 'quick':
        pos = sorted({p for p in (0, 1, n - 1, n, n + 1, B - 1, B, B + 1, 2 * B) if p >= 0})
    out = ['bytes=' + s for s in grammar_specs(pos)]
    for a in pos[:4]:
        out.append('bytes=%d-%d,%d-%d' % (a, a + 1, a + 3, a + 4))
        out.append('bytes=%d-%d, -1' % (n + 5, n + 9))
    out += NEAR_MISSES
    seen = set()
    res = []
    for h in out:
        if h not in seen:
            seen.add(h)
            res.append(h)
    return res


def mutate(rnd, h):
    ops = rnd.randrange(1, 3)
    alphabet = '0123456789-,= \tbytesx+*;/'
    for _ in range(ops):
        k = rnd.randrange(3)
        i = rnd.randrange(len(h) + 1)
        if k == 0:
            h = h[:i] + rnd.choice(alphabet) + h[i:]
        elif k == 1 and h:
            h = h[:max(i - 1, 0)] + h[i:]
        elif h:
            i = min(i, len(h) - 1)
            h = h[:i] + rnd.choice(alphabet) + h[i + 1:]
    return h


def random_grammar_header(rnd, n):
    k = rnd.choice([1, 1, 1, 2, 3])
    specs = []
    for _ in range(k):
        a = rnd.choice([0, 1, rnd.randrange(0, n + 3), n - 1 if n else 0, n, 10 ** rnd.randrange(1, 25)])
        b = rnd.choice([0, a, a + 1, rnd.randrange(0, n + 3), n - 1 if n else 0, n, n + 1, 10 ** rnd.randrange(1, 25)])
        specs.append(rnd.choice(['%d-%d' % (a, b), '%d-' % a, '-%d' % a, '%03d-%04d' % (a, b)]))
    return 'bytes=' + rnd.choice([',', ', ', ' ,', ' , ']).join(specs)


# ------------------------------------------------------------------ cases
def gen_cases(tier, seed):
    quick = tier == 'quick'
    # ---- parse
    digits = list(range(0, 10))
    specs = grammar_specs(digits)
    maxlens = list(range(0, 7 if quick else 10)) + [10 ** 6]
    for ml in maxlens:
        for s in specs:
            yield dict(kind='parse', header='bytes=' + s, maxlen=ml)
        for h in header_pool(ml, 4, 'thorough'):
            yield dict(kind='parse', header=h, maxlen=ml)
    # ---- iter
    for n in range(0, 8 if quick else 10):
        for off in range(0, n + 1):
            for cnt in range(0, n - off + 1):
                for mr in (1, 2, 3, 4, 64):
                    yield dict(kind='iter', n=n, offset=off, count=cnt, maxread=mr, real=0)
    for n, off, cnt, mr in ((9, 2, 7, 3), (9, 0, 9, 4), (5, 5, 0, 2), (64, 1, 62, 7), (200, 0, 200, 64)):
        yield dict(kind='iter', n=n, offset=off, count=cnt, maxread=mr, real=1)
    # ---- static: Range
    Bs = [4, 1] if quick else [4, 1, 3, 7]
    for B in Bs:
        lens = sorted({0, 1, 2, 3, B - 1, B, B + 1, 2 * B, 3 * B + 1})
        if not quick and B == 4:
            lens = list(range(0, 17))
        for n in lens:
            pool = [None, ''] + header_pool(n, B, tier)
            for h in pool:
                for method in ('GET', 'HEAD'):
                    yield dict(kind='static', n=n, B=B, range=h, method=method, mtime=10 ** 9, frac=0, ims=None)
    # ---- static: If-Modified-Since
    mtimes = [(10 ** 9, 0), (10 ** 9, 5), (0, 0)] if quick else [(10 ** 9, 0), (10 ** 9, 5), (0, 0), (4102444800, 0), (951782400, 9)]
    tzs = [None, 'EST5EDT,M3.2.0,M11.1.0'] if quick else [None, 'EST5EDT,M3.2.0,M11.1.0', 'IST-5:30', 'NZST-12NZDT,M9.5.0,M4.1.0/3']
    for (mt, frac), tz in itertools.product(mtimes, tzs):
        for n in (0, 5):
            for rng in (None, 'bytes=1-2', 'bytes=7-', 'bytes=3-1', 'junk'):
                for method in ('GET', 'HEAD'):
                    for delta in (-86400, -1, 0, 1, 86400):
                        for style in HTTP_STYLES + OTHER_STYLES:
                            if mt + delta < 0 or (style == 'rfc850' and mt > 2 * 10 ** 9):
                                continue
                            if tz and style in OTHER_STYLES:
                                continue
                            yield dict(kind='static', n=n, B=4, range=rng, method=method, mtime=mt, frac=frac,
                                       ims=dict(style=style, delta=delta), tz=tz)
                    for j in (JUNK_DATES if not tz else ()):
                        yield dict(kind='static', n=n, B=4, range=rng, method=method, mtime=mt, frac=frac, ims=dict(raw=j))
    # ---- static: If-Modified-Since written in a zone other than GMT (the instant counts, not the digits)
    zmtimes = [(10 ** 9, 0), (10 ** 9, 5), (1700000000, 0)] if quick else [(10 ** 9, 0), (10 ** 9, 5), (1700000000, 0), (86400, 0), (4102444800, 0)]
    for (mt, frac), tz in itertools.product(zmtimes, tzs):
        for rng in (None, 'bytes=1-2'):
            for method in ('GET', 'HEAD'):
                for zone in ZONES:
                    for delta in (-3600, -1, 0, 1, 3600):
                        for layout in ZONE_LAYOUTS:
                            if layout == 'rfc850' and mt > 2 * 10 ** 9:
                                continue
                            if layout != 'rfc1123' and (quick and (rng or tz)):
                                continue
                            yield dict(kind='static', n=5, B=4, range=rng, method=method, mtime=mt, frac=frac,
                                       ims=dict(style='zone', zone=zone, layout=layout, delta=delta), tz=tz)
    if not quick:
        M = 1 << 20
        for n in (M - 1, M, M + 1, 3 * M + 1):
            for h in (None, 'bytes=0-', 'bytes=1-', 'bytes=-%d' % (M + 1), 'bytes=%d-%d' % (M - 1, 2 * M), 'bytes=0-%d' % (M - 1),
                      'bytes=0-%d' % M, 'bytes=%d-' % (n - 1), 'bytes=%d-' % n):
                for method in ('GET', 'HEAD'):
                    yield dict(kind='static', n=n, B=0, range=h, method=method, mtime=10 ** 9, frac=0, ims=None)
    # ---- seeded random
    rnd = random.Random(seed)
    for _ in range(1500 if quick else 20000):
        ml = rnd.choice([0, 1, 2, 5, 9, 100])
        h = random_grammar_header(rnd, ml)
        if rnd.random() < 0.5:
            h = mutate(rnd, h)
        yield dict(kind='parse', header=h, maxlen=ml)
    for _ in range(300 if quick else 4000):
        B = rnd.choice([1, 2, 4, 5])
        n = rnd.choice([0, 1, 2, B, B + 1, 3 * B + 1, rnd.randrange(0, 40)])
        h = random_grammar_header(rnd, n)
        if rnd.random() < 0.4:
            h = mutate(rnd, h)
        ims = None
        if rnd.random() < 0.2:
            ims = dict(style=rnd.choice(HTTP_STYLES), delta=rnd.choice([-3600, -1, 0, 1, 3600]))
        yield dict(kind='static', n=n, B=B, range=h, method=rnd.choice(['GET', 'HEAD']), mtime=10 ** 9 + rnd.randrange(10 ** 8),
                   frac=rnd.choice([0, 0, 3]), ims=ims)


# ------------------------------------------------------------------ running
def run_case(case):
    kind = case['kind']
    if kind == 'parse':
        return run_parse(case)
    if kind == 'iter':
        return run_iter(case)
    return run_static(case)


def run_parse(case):
    from ombott.static_stream import get_first_range
    h, ml = case['header'], case['maxlen']
    try:
        got = get_first_range(h, ml)
    except Exception as e:
        return fail('P1.raises', exc=repr(e))
    if got is not None:
        ok = (isinstance(got, tuple) and len(got) == 2 and all(type(x) is int for x in got) and 0 <= got[0] < got[1] <= ml)
        if not ok:
            return fail('P2.valid', observed=got, maxlen=ml)
    if range_spec.in_grammar(h):
        exp = spec_first_range(h, ml)
        if (got is None) != (exp is None) or (got is not None and tuple(got) != exp):
            return fail('P3.exact', expected=exp, observed=got, maxlen=ml)
    return None


def run_iter(case):
    from ombott.static_stream import _file_iter_range
    n, off, cnt, mr = case['n'], case['offset'], case['count'], case['maxread']
    data = pattern(n)
    path = None
    if case.get('real'):
        fd, path = tempfile.mkstemp(prefix='ombott-verif-c17-', dir='/tmp')
        os.write(fd, data)
        os.close(fd)
        fp = open(path, 'rb')
    else:
        fp = io.BytesIO(data)
    try:
        chunks = list(_file_iter_range(fp, off, cnt, mr))
    finally:
        fp.close()
        if path:
            os.unlink(path)
    for c in chunks:
        if not isinstance(c, bytes) or len(c) > mr:
            return fail('I1.chunk', chunk_len=len(c), maxread=mr)
    if b''.join(chunks) != data[off:off + cnt]:
        return fail('I2.exact', expected=data[off:off + cnt], observed=b''.join(chunks))
    return None


_CR = re.compile(r'bytes ([0-9]+)-([0-9]+)/([0-9]+)')


def ims_header(case):
    """(header value or None, kind) with kind in absent / notolder / older / either"""
    ims = case.get('ims')
    if not ims:
        return None, 'absent'
    if 'raw' in ims:
        return ims['raw'], 'older'                 # not a date at all: the ordinary answer is due
    t = case['mtime'] + ims['delta']
    if ims['style'] == 'zone':
        value = zoned_date(t, ims['zone'], ims['layout'])
        if ims['layout'] == 'rfc850' and not (1970 <= _civil(t + 60 * zone_minutes(ims['zone']))[0] <= 2068):
            return value, 'either'
        if t > case['mtime'] or (t == case['mtime'] and not case['frac']):
            return value, 'zone-notolder'
        if t == case['mtime']:
            return value, 'either'                 # date == floor(mtime) < mtime: HTTP's one-second resolution
        return value, 'zone-older'
    value = http_date(t, ims['style'])
    if ims['style'] not in HTTP_STYLES:
        return value, 'either'
    if ims['style'] == 'rfc850':
        y = _civil(t)[0]
        if not (1970 <= y <= 2068):              # two-digit year: the reading of the century is the recipient's
            return value, 'either'
    if t > case['mtime'] or (t == case['mtime'] and not case['frac']):
        return value, 'notolder'
    if t == case['mtime']:
        return value, 'either'                     # date == floor(mtime) < mtime: HTTP's one-second resolution
    return value, 'older'


def run_static(case):
    import ombott
    from ombott import static_stream as ss
    G = ss.Globals
    n, B, rng, method = case['n'], case['B'], case['range'], case['method']
    data = pattern(n)
    fd, path = tempfile.mkstemp(prefix='ombott-verif-c17-', suffix='.bin', dir='/tmp')
    old_defaults = ss._file_iter_range.__defaults__
    old_req = G.request
    old_tz = os.environ.get('TZ')
    try:
        if case.get('tz'):
            os.environ['TZ'] = case['tz']       # the process's local time zone must not matter for an HTTP (GMT) date
            time.tzset()
        with os.fdopen(fd, 'wb') as fh:
            fh.write(data)
        ns = case['mtime'] * 10 ** 9 + case['frac'] * 10 ** 8
        os.utime(path, ns=(ns, ns))
        if B:
            ss._file_iter_range.__defaults__ = (B,)
            bound = B
        else:
            bound = old_defaults[-1] if old_defaults else (1 << 20)
        name = os.path.basename(path)
        ims_value, ims_kind = ims_header(case)
        headers = {}
        if rng is not None:
            headers['Range'] = rng
        if ims_value is not None:
            headers['If-Modified-Since'] = ims_value
        obs = {}
        for m in (('GET', 'HEAD') if method == 'HEAD' else ('GET',)):
            obs[m] = (observe_direct(ombott, G, name, m, headers), observe_app(ombott, G, name, m, headers))
    finally:
        ss._file_iter_range.__defaults__ = old_defaults
        G.request = old_req
        if case.get('tz'):
            if old_tz is None:
                os.environ.pop('TZ', None)
            else:
                os.environ['TZ'] = old_tz
            time.tzset()
        try:
            os.unlink(path)
        except OSError:
            pass
    for level in (0, 1):
        lname = ('direct', 'app')[level]
        o = obs[method][level]
        f = check_response(o, method, data, rng, ims_kind, bound, ims_value)
        if f is not None:
            f['level'] = lname
            return f
        if method == 'HEAD':
            g = obs['GET'][level]
            if g.get('exc') is None and (g['code'] != o['code'] or _hdrs(g) != _hdrs(o)):
                return fail('H2.headers', level=lname, get_status=g['code'], head_status=o['code'],
                            get_headers=_hdrs(g), head_headers=_hdrs(o))
    return None


def _hdrs(o):
    return sorted((k.lower(), str(v)) for k, v in o['headers'] if k.lower() != 'date')


def observe_direct(ombott, G, name, method, headers):
    app = ombott.Ombott()
    G.request = app.request
    o = {}

    def h():
        try:
            res = ombott.static_file(name, root='/tmp')
            o['code'] = res.status_code
            o['headers'] = [(k, str(v)) for k, v in res.headerlist]
            b = res.body
            if b is None or isinstance(b, (str, bytes)):
                o['body_kind'] = 'text'
                o['chunks'] = [b.encode('utf8') if isinstance(b, str) else (b or b'')]
                if not b:
                    o['chunks'] = []
                o['is_error'] = isinstance(res, ombott.HTTPError)
            elif hasattr(b, 'read'):
                o['body_kind'] = 'file'
                o['chunks'] = [b.read()]
                b.close()
            else:
                o['body_kind'] = 'iter'
                o['chunks'] = list(b)
                close = getattr(b, 'close', None)
                if close:
                    close()
            o['exc'] = None
        except Exception as e:           # noqa - recorded
            o['exc'] = repr(e)
        return 'ok'
    app.route('/s', callback=h)
    res = serve(app, make_environ('/s', method, headers=headers))
    if 'exc' not in o:
        o['exc'] = 'handler not reached: %s %s' % (res.status, res.errors[-200:])
    return o


def observe_app(ombott, G, name, method, headers):
    app = ombott.Ombott()
    G.request = app.request

    def h():
        return ombott.static_file(name, root='/tmp')
    app.route('/s', callback=h)
    res = serve(app, make_environ('/s', method, headers=headers))
    o = dict(code=res.code, headers=res.headers or [], chunks=res.chunks, exc=None, body_kind='wsgi',
             is_error=res.code is not None and res.code >= 400)
    if res.exc is not None or res.code is None or res.code == 500:
        o['exc'] = 'status %s exc %r errors %s' % (res.status, res.exc, res.errors[-300:])
    return o


def check_response(o, method, data, rng, ims_kind, bound, ims_value=None):
    n = len(data)
    if o.get('exc') is not None:
        return fail('X0.exception', detail=o['exc'])
    code = o['code']
    hd = {}
    for k, v in o['headers']:
        hd.setdefault(k.lower(), []).append(str(v))
    chunks = o['chunks']
    if not all(isinstance(c, bytes) for c in chunks):
        return fail('X0.exception', detail='non-bytes chunk')
    body = b''.join(chunks)
    # ---- conditional
    if ims_kind == 'notolder' and code != 304:
        return fail('C1.ims_304', status=code)
    if ims_kind == 'zone-notolder' and code != 304:
        return fail('C4.zone_304', status=code, ims=ims_value)
    if code == 304:
        if ims_kind in ('absent', 'older'):
            return fail('C3.unexpected_304', ims=ims_kind)
        if ims_kind == 'zone-older':
            return fail('C4.zone_unexpected_304', ims=ims_value)
        if body:
            return fail('C2.body_304', body=body[:50])
        return None
    # ---- HEAD never has a body
    # (the text carried by an HTTPError *object* is not a delivered body: the application renders and, for HEAD, drops it)
    if method == 'HEAD' and body and not (o['body_kind'] == 'text' and o.get('is_error')):
        return fail('H1.body', body=body[:50], status=code)
    # ---- no Range header
    if rng is None or (rng == '' and code == 200):
        if code != 200:
            return fail('R0.status', status=code)
        if hd.get('content-length') != [str(n)]:
            return fail('R0.length', expected=n, observed=hd.get('content-length'))
        if method == 'GET' and body != data:
            return fail('R0.body', expected_len=n, observed_len=len(body), observed_head=body[:40])
        return None
    # ---- Range header
    if code not in (206, 416):
        return fail('R1.status', status=code)
    in_grammar = range_spec.in_grammar(rng)
    exp = spec_first_range(rng, n) if in_grammar else None
    if code == 416:
        if in_grammar and exp is not None:
            return fail('R3.should_be_206', expected=exp)
        return None
    cr = hd.get('content-range')
    m = _CR.fullmatch(cr[0]) if cr and len(cr) == 1 else None
    if not m:
        return fail('R2.content_range_syntax', observed=cr)
    s, last, total = int(m.group(1)), int(m.group(2)), int(m.group(3))
    if total != n:
        return fail('R2.total', expected=n, observed=total)
    if not (0 <= s <= last < n):
        return fail('R2.bounds', content_range=cr[0], length=n)
    if hd.get('content-length') != [str(last - s + 1)]:
        return fail('R2.length', content_range=cr[0], content_length=hd.get('content-length'))
    if method == 'GET':
        if body != data[s:last + 1]:
            return fail('R2.body', content_range=cr[0], expected_len=last - s + 1, observed_len=len(body),
                        observed_head=body[:40])
        big = [len(c) for c in chunks if len(c) > bound]
        if big:
            return fail('R2.chunk', chunk_len=big[0], buffer=bound)
    if in_grammar:
        if exp is None:
            return fail('R3.should_be_416', content_range=cr[0])
        if (s, last + 1) != exp:
            return fail('R3.slice', expected=exp, observed=[s, last + 1])
    return None


def _big(case):
    h = case.get('header') if case.get('kind') == 'parse' else case.get('range')
    h = h.split(',')[0] if isinstance(h, str) else h
    return isinstance(h, str) and re.search('[0-9]{4301}', h) is not None


def _hdr(case):
    return case.get('header') if case.get('kind') == 'parse' else case.get('range')


FINDINGS = {
    # a number of more than 4300 digits is inside the RFC grammar; int() refuses it and the range is dropped (416)
    'range-number-beyond-int-digit-limit': lambda case, failure: failure.get('clause') in ('P3.exact', 'R3.should_be_206')
    and _big(case),
    # "bytes=A- , ..." : an open range followed by a blank before the list comma (OWS of the RFC 7230 list rule) -> int(' ')
    'range-open-spec-blank-before-comma': lambda case, failure: failure.get('clause') in ('P3.exact', 'R3.should_be_206')
    and isinstance(_hdr(case), str) and re.match(r'bytes=[0-9]+-[ \t]+,', _hdr(case)) is not None and not _big(case),
}
