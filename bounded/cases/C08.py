"""C08 bounded stand-in / replay harness: concurrent requests on one application never see each other.

Contract checked at run time on the REAL application object (statement of C08, nothing more):

  Q1 response   one application serves 2..3 requests on 2..3 real threads under a forced interleaving.  The complete
                response of every thread -- status line, every header as a multiset (Set-Cookie included), body,
                number of start_response calls, escaped exception -- equals the response a FRESH application built
                by the same factory gives to the same request served ALONE (on a new thread, nothing else running).
  Q2 view       what the handler / hooks / error handler / body generator of every request read from app.request
                (environ identity, path, method, query, header, cookies, content length, url, body, forms, files)
                and from app.response (status, header list incl. cookies) at each of their observation points
                equals, point by point, what the same code read when the request was served alone.

The reference is always computed by the real code (fresh application, alone), never by a model.

Interleavings are FORCED, not hoped for: bounded/cases/_threads_common.Sched hands one token between the threads
(threading.Event hand-over) at points.  Points are (a) explicit calls in the hooks, handlers, error handlers, body
generators and in start_response of this module, (b) with tracing on, every executed line of the ombott package
(sys.settrace 'line' events) = statement granularity inside the framework.  A `stress` mode releases the threads
from a Barrier with sys.setswitchinterval(1e-6) and no token (free race; real but not replayable).
"""
import io
import itertools
import random
import sys
import threading

from bounded.common import FragStream, make_environ, serve, fail, chunk_encode
from bounded.cases import _threads_common as tc

KINDS = ['all', 'cookie', 'header', 'status', 'raise', 'abort', 'notfound', 'jsonerr', 'notallowed', 'crash', 'body',
         'chunked', 'form', 'multipart', 'gen', 'errh', 'head', 'badpath', 'oversized', 'badchunk', 'file', 'hooked']
QUICK_PARTNERS = ['all']

BOUND = ('one fresh application, 2..3 threads, one request per thread out of %d request/handler kinds (%s). '
         'Schedules: (S1) statement granularity (every traced line of the ombott package is a hand-over point), ONE '
         'preemption: thread 0 is stopped after i statements for EVERY i, thread 1 serves its whole request in the window, '
         'thread 0 finishes -- quick: every kind stopped at EVERY statement with the partner `all` (touches every request/response slot) in the '
         'window, and `all` stopped at every 4th statement per partner kind (offsets rotate over the 21 partners); thorough: all ordered pairs of kinds (pairs without `all`: every 3rd statement, offsets rotating over the partners). (S2) two preemptions [0:i][1:j][0:rest][1:rest] on a grid of (i,j) '
         '(quick 8x8, thorough 30x30 positions) for pairs with `all` (quick) / all pairs on a coarser grid '
         '(thorough). (S3) explicit points only (hooks, handler steps, error handler, body generator, start_response, body chunks): '
         'every schedule with at most three hand-overs [0:i][1:j][0:k][1:rest][0:rest] for pairs with `all` (quick) / all pairs '
         '(thorough), and ALL interleavings of two threads for pairs with `all` having at most 13000 of them (thorough). (S4) three threads, '
         'statement granularity, nested windows [0:i][1:j][2:all][1:rest][0:rest] on a grid, kinds drawn by seed. '
         '(S5) free race of 3 threads, switch interval 1e-6 s, 30 (quick) / 200 (thorough) rounds, kinds drawn by seed.'
         % (len(KINDS), ', '.join(KINDS)))
NONTRIVIAL_RULE = ('distinct (mode, kinds, schedule); non-trivial = at least one thread is preempted strictly inside its '
                   'request (positions come from measured statement/point counts) or a free race')

_RIDS = ['r0', 'r1', 'r2']


def exhaustive(tier):
    return False


def nontrivial(case):
    if case['mode'] == 'stress':
        return True
    return preemptions(case['segs'], case['pts'], case['trace']) > 0


def preemptions(segs, pts, traced):
    """Number of hand-overs that stop a thread strictly inside its request (pts = measured points per thread)."""
    left = list(pts)
    used = [0] * len(pts)
    n = 0
    for t, k in segs:
        if left[t] <= 0 and used[t]:
            continue
        if k < 0 or k >= left[t]:
            left[t] = 0
            used[t] = max(used[t], 1)
            continue
        left[t] -= k + 1
        used[t] += k + 1
        if used[t] > (1 if traced else 0):
            n += 1
    return n


# ---------------------------------------------------------------------------------------------
# harness context: which request the current thread is serving, what its code observed
# ---------------------------------------------------------------------------------------------
class Ctx:
    def __init__(self, sched=None):
        self.sched = sched
        self.tl = threading.local()
        self.seen = {}

    def begin(self, rid, env):
        self.tl.rid = rid
        self.tl.env = env
        self.seen[rid] = []

    def point(self, label):
        if self.sched is not None:
            self.sched.point(label)

    def rec(self, tag, value):
        self.seen[self.tl.rid].append([tag, value])


def _safe(fn):
    try:
        return fn()
    except BaseException as e:  # noqa - the observation is the exception
        return 'EXC:' + type(e).__name__


def view(app, ctx, tag, body=False, full=False):
    """Record what app.request / app.response show to the running code right now (light: the slots every request
    has; full: plus the parsed query, header, cookies, url, content length)."""
    rq, rs = app.request, app.response
    v = dict(
        env_is_mine=_safe(lambda: rq.environ is ctx.tl.env),
        marker=_safe(lambda: rq.get('x.rid')),
        path=_safe(lambda: rq.path),
        qs=_safe(lambda: rq.query_string),
        status=_safe(lambda: (rs.status_code, rs.status_line)),
        headerlist=_safe(lambda: sorted(rs.headerlist)),
        rbody=_safe(lambda: repr(rs.body)[:80]),
    )
    if full:
        v.update(
            method=_safe(lambda: rq.method),
            query=_safe(lambda: sorted(rq.query.items())),
            xid=_safe(lambda: rq.headers.get('X-Id')),
            cookies=_safe(lambda: sorted(rq.cookies.items())),
            clen=_safe(lambda: rq.content_length),
            url=_safe(lambda: rq.url),
            hdr_keys=_safe(lambda: sorted(rs.headers.keys())),
        )
    if body:
        v['body'] = _safe(lambda: rq.body.read())
    ctx.rec(tag, v)


# ---------------------------------------------------------------------------------------------
# the application under test
# ---------------------------------------------------------------------------------------------
def make_app(ctx):
    import ombott
    app = ombott.Ombott({'max_body_size': 280, 'max_memfile_size': 160})
    request, response = app.request, app.response
    P = ctx.point

    def V(tag, body=False, full=False):
        view(app, ctx, tag, body, full)

    @app.on('before_request')
    def before():
        V('before')
        P('before')
        response.headers['X-Before'] = request.path
        V('before.2')

    @app.on('after_request')
    def after():
        P('after')
        V('after', full=True)

    @app.on_route('/hk')
    def route_hook(prefix):
        response.headers['X-Hook'] = prefix + '|' + request.path
        P('route_hook')
        V('route_hook')

    @app.route('/all/:rid', method='POST')
    def h_all(rid):
        V('h0')
        response.status = 203
        response.body = 'draft:' + rid
        response.headers['X-Id'] = rid
        response.headers.append('X-Multi', rid + 'a')
        P('h1')
        response.headers.append('X-Multi', rid + 'b')
        response.set_cookie('sid', rid, path='/')
        response.content_type = 'text/plain; charset=utf-8'
        V('h1', body=True)
        P('h2')
        f = sorted(request.forms.items())
        response.set_cookie('k' + rid, 'v' + rid, max_age=5)
        P('h3')
        V('h3')
        return 'all:%s:%r:%r' % (rid, f, sorted(request.params.items()))

    @app.route('/ck/:rid')
    def h_cookie(rid):
        V('h0')
        response.set_cookie('sid', rid, path='/')
        P('h1')
        response.set_cookie('k' + rid, 'v' + rid)
        V('h1')
        P('h2')
        response.delete_cookie('old' + rid)
        V('h2')
        return 'ck:%s:%r:%s' % (rid, sorted(request.cookies.items()), request.get_cookie('cid'))

    @app.route('/hd/:rid')
    def h_header(rid):
        V('h0')
        response.headers['X-Id'] = rid
        P('h1')
        response.headers.append('X-Multi', rid + 'a')
        response.headers.append('X-Multi', rid + 'b')
        P('h2')
        response.headers['X-' + rid] = 'own-name'
        response.content_type = 'text/plain; charset=latin-1'
        V('h2')
        P('h3')
        return 'hd:%s:%s:é' % (rid, request.headers.get('X-Id'))

    @app.route('/st/:rid')
    def h_status(rid):
        V('h0')
        response.status = 201
        P('h1')
        V('h1')
        response.status = '299 Custom ' + rid
        P('h2')
        V('h2')
        return 'st:' + rid

    @app.route('/rs/:rid')
    def h_raise(rid):
        response.headers['X-Lost'] = rid
        response.set_cookie('lost', rid)
        P('h1')
        V('h1')
        r = ombott.HTTPResponse('raised:' + rid, status=202, X_Raised=rid)
        r.set_cookie('rc', rid, max_age=60)
        P('h2')
        raise r

    @app.route('/ab/:rid')
    def h_abort(rid):
        response.set_cookie('kept', rid)
        response.headers['X-Id'] = rid
        P('h1')
        V('h1')
        ombott.abort(403, 'forbidden ' + rid)

    @app.route('/crash/:rid')
    def h_crash(rid):
        response.set_cookie('cr', rid)
        response.headers['X-Id'] = rid
        response.status = 202
        P('h1')
        V('h1')
        raise ZeroDivisionError('crash ' + rid)

    @app.route('/body/:rid', method='POST')
    def h_body(rid):
        V('h0')
        first = request.body.read()
        P('h1')
        response.set_cookie('b', rid)
        second = request.body.read()
        V('h1', body=True)
        P('h2')
        return b'body:' + first + b'|' + second

    @app.route('/form/:rid', method='POST')
    def h_form(rid):
        V('h0')
        f = sorted(request.forms.items())
        P('h1')
        response.headers['X-Id'] = rid
        p = sorted(request.params.items())
        V('h1')
        P('h2')
        files = sorted((k, u.raw_filename, u.file.read()) for k, u in request.files.items())
        P('h3')
        V('h3')
        return 'form:%s:%r:%r:%r' % (rid, f, p, files)

    @app.route('/gen/:rid')
    def h_gen(rid):
        response.headers['X-Id'] = rid
        P('h1')
        V('h1')

        def gen():
            P('g0')
            V('g0')
            yield 'gen:' + rid + ':' + request.path
            P('g1')
            V('g1')
            yield ':' + request.query_string
            P('g2')
            yield ':' + repr(request.get_cookie('cid'))
        return gen()

    @app.route('/teapot/:rid')
    def h_teapot(rid):
        response.headers['X-Lost'] = rid
        P('h1')
        raise ombott.HTTPError(418, 'teapot ' + rid, X_Tea=rid)

    @app.error(418)
    def e418(err):
        P('e0')
        V('e0')
        response.headers['X-Err'] = request.path
        response.set_cookie('err', request.query_string)
        P('e1')
        V('e1')
        return 'e418:%s:%s:%s' % (err.body, request.path, request.url)

    @app.route('/file/:rid')
    def h_file(rid):
        data = b'file-content-of-' + rid.encode() * 40
        P('h1')
        V('h1')
        return ombott.HTTPResponse(io.BytesIO(data), headers={
            'Content-Type': 'application/octet-stream', 'Content-Length': str(len(data)),
            'Content-Disposition': 'attachment; filename="%s.bin"' % rid})

    @app.route('/hk/deep/:rid')
    def h_hooked(rid):
        V('h0')
        P('h1')
        response.headers['X-Id'] = rid
        V('h1')
        return 'hooked:' + rid
    return app


def make_request(kind, rid):
    hdr = {'Cookie': 'cid=%s; c%s=1' % (rid, rid), 'X-Id': rid}
    extra = {'x.rid': rid}
    q = 'id=%s&q=%s' % (rid, rid)
    rb = rid.encode()
    if kind == 'all':
        return make_environ('/all/' + rid, 'POST', query=q, body=b'f=' + rb + b'&id=' + rb,
                            content_type='application/x-www-form-urlencoded', headers=hdr, extra=extra)
    if kind == 'cookie':
        return make_environ('/ck/' + rid, query=q, headers=hdr, extra=extra)
    if kind == 'header':
        return make_environ('/hd/' + rid, query=q, headers=hdr, extra=extra)
    if kind == 'status':
        return make_environ('/st/' + rid, query=q, headers=hdr, extra=extra)
    if kind == 'raise':
        return make_environ('/rs/' + rid, query=q, headers=hdr, extra=extra)
    if kind == 'abort':
        return make_environ('/ab/' + rid, query=q, headers=hdr, extra=extra)
    if kind == 'notfound':
        return make_environ('/nope/' + rid, query=q, headers=hdr, extra=extra)
    if kind == 'jsonerr':
        return make_environ('/nope/' + rid, query=q, headers=dict(hdr, Accept='application/json'), extra=extra)
    if kind == 'notallowed':
        return make_environ('/ck/' + rid, 'PUT', query=q, headers=hdr, extra=extra)
    if kind == 'crash':
        return make_environ('/crash/' + rid, query=q, headers=hdr, extra=extra)
    if kind == 'body':
        return make_environ('/body/' + rid, 'POST', query=q, body=b'payload-of-' + rb * 90, headers=hdr, extra=extra)
    if kind == 'chunked':
        wire = chunk_encode([b'chunk-', rb * 25, b'-end'])
        return make_environ('/body/' + rid, 'POST', query=q, stream=FragStream(wire, [3, 1], 7), chunked=True,
                            headers=hdr, extra=extra)
    if kind == 'form':
        return make_environ('/form/' + rid, 'POST', query=q, body=b'f=' + rb + b'&id=' + rb + b'&f=2',
                            content_type='application/x-www-form-urlencoded', headers=hdr, extra=extra)
    if kind == 'multipart':
        body = (b'--BB\r\nContent-Disposition: form-data; name="t"\r\n\r\ntext-' + rb + b'\r\n'
                b'--BB\r\nContent-Disposition: form-data; name="u"; filename="' + rb + b'.txt"\r\n'
                b'Content-Type: text/plain\r\n\r\nfile-' + rb * 30 + b'\r\n--BB--\r\n')
        return make_environ('/form/' + rid, 'POST', query=q, stream=FragStream(body, [5, 40], 33), content_length=len(body),
                            content_type='multipart/form-data; boundary=BB', headers=hdr, extra=extra)
    if kind == 'gen':
        return make_environ('/gen/' + rid, query=q, headers=hdr, extra=extra)
    if kind == 'errh':
        return make_environ('/teapot/' + rid, query=q, headers=hdr, extra=extra)
    if kind == 'head':
        return make_environ('/hd/' + rid, 'HEAD', query=q, headers=hdr, extra=extra)
    if kind == 'badpath':
        return make_environ(b'/\xff' + rb, query=q, headers=hdr, extra=extra)
    if kind == 'oversized':
        return make_environ('/body/' + rid, 'POST', query=q, body=(rb + b'-') * 100, headers=hdr, extra=extra)
    if kind == 'badchunk':
        return make_environ('/body/' + rid, 'POST', query=q, body=b'zz\r\n' + rb + b'\r\n0\r\n\r\n', chunked=True,
                            headers=hdr, extra=extra)
    if kind == 'file':
        return make_environ('/file/' + rid, query=q, headers=hdr, extra=extra)
    if kind == 'hooked':
        return make_environ('/hk/deep/' + rid, query=q, headers=hdr, extra=extra)
    raise ValueError(kind)


def serve_one(app, ctx, kind, rid):
    """Serve one request like a WSGI server thread does; start_response and body iteration are points too."""
    env = make_environ_for(kind, rid)
    ctx.begin(rid, env)
    rec = dict(calls=0, status=None, headers=None, exc=None, body=None)

    def start_response(status, headers, exc_info=None):
        ctx.point('start_response')
        rec['calls'] += 1
        rec['status'] = status
        rec['headers'] = sorted((k, v) for k, v in headers)
        return lambda data: None
    try:
        result = app(env, start_response)
        chunks = []
        for chunk in result:
            chunks.append(chunk)
            ctx.point('chunk')
        if hasattr(result, 'close'):
            result.close()
        rec['body'] = b''.join(chunks) if all(isinstance(c, bytes) for c in chunks) else repr(chunks)
    except BaseException as e:  # noqa - recorded
        if isinstance(e, (KeyboardInterrupt, SystemExit)):
            raise
        rec['exc'] = repr(e)
    return rec


def make_environ_for(kind, rid):
    return make_request(kind, rid)


# ---------------------------------------------------------------------------------------------
# measured sizes of the schedule space (per process, after a warm-up so that first-use branches are gone)
# ---------------------------------------------------------------------------------------------
_COUNTS = {}


def _measure():
    if _COUNTS:
        return _COUNTS
    prefix = tc.ombott_dir()
    for kind in KINDS:
        for traced in (True, False):
            n = 0
            for _ in range(2):   # the second run is the warm one
                sched = tc.Sched(1, [], trace_prefix=prefix if traced else None, count_all=True)
                ctx = Ctx(sched)
                app = make_app(ctx)
                sched.run([lambda: serve_one(app, ctx, kind, 'r0')])
                n = sched.counts[0]
            _COUNTS[(kind, traced)] = n
    return _COUNTS


def setup():
    _measure()


def _ncr(n, r):
    import math
    return math.comb(n, r)


def _grid(n, parts):
    """~parts positions strictly inside 1..n-1, deterministic."""
    if n <= 1:
        return []
    step = max(1, n // parts)
    return list(range(1 + (step // 2 if step > 1 else 0), n, step))


def gen_cases(tier, seed):
    quick = tier == 'quick'
    cnt = _measure()
    rnd = random.Random(seed)
    if quick:
        pairs = [(k, p) for k in KINDS for p in QUICK_PARTNERS] + [(p, k) for k in KINDS for p in QUICK_PARTNERS if k != p]
    else:
        pairs = list(itertools.product(KINDS, repeat=2))
    # S1: one preemption at every statement
    for pi, (k0, k1) in enumerate(pairs):
        # quick: `all` as the victim is cut at every 4th statement per partner (offset by partner: all statements overall)
        # thorough: pairs without `all` are cut at every 3rd statement per partner (offsets rotate likewise)
        if quick:
            stride, first = (4, 1 + pi % 4) if (k0 in QUICK_PARTNERS and k1 not in QUICK_PARTNERS) else (1, 1)
        else:
            stride, first = (1, 1) if (k0 in QUICK_PARTNERS or k1 in QUICK_PARTNERS) else (3, 1 + pi % 3)
        for i in range(first, cnt[(k0, True)], stride):
            yield dict(mode='sched', kinds=[k0, k1], trace=1, segs=[[0, i], [1, -1], [0, -1]], pts=[cnt[(k0, True)], cnt[(k1, True)]])
    # S2: two preemptions on a grid
    s2pairs = pairs if quick else list(itertools.product(KINDS, repeat=2))
    for k0, k1 in s2pairs:
        both_all = k0 in QUICK_PARTNERS or k1 in QUICK_PARTNERS
        g = (8 if both_all else 5) if quick else (30 if both_all else 8)
        for i in _grid(cnt[(k0, True)], g):
            for j in _grid(cnt[(k1, True)], g):
                yield dict(mode='sched', kinds=[k0, k1], trace=1, segs=[[0, i], [1, j], [0, -1], [1, -1]],
                           pts=[cnt[(k0, True)], cnt[(k1, True)]])
    # S3: explicit points only
    for k0, k1 in pairs:
        p0, p1 = cnt[(k0, False)], cnt[(k1, False)]
        with_all = k0 in QUICK_PARTNERS or k1 in QUICK_PARTNERS
        if with_all and not quick and _ncr(p0 + p1 + 2, p0 + 1) <= 13000:
            for segs in tc.interleavings([p0 + 1, p1 + 1]):
                yield dict(mode='sched', kinds=[k0, k1], trace=0, segs=segs, pts=[p0, p1])
        else:
            # at most three hand-overs away from an unfinished thread: [0:i][1:j][0:k] then run out
            for i in range(0, p0):
                for j in range(0, p1):
                    yield dict(mode='sched', kinds=[k0, k1], trace=0, segs=[[0, i], [1, j], [0, -1], [1, -1]], pts=[p0, p1])
                    for k in range(0, p0 - i - 1):
                        yield dict(mode='sched', kinds=[k0, k1], trace=0, segs=[[0, i], [1, j], [0, k], [1, -1], [0, -1]],
                                   pts=[p0, p1])
    # S4: three threads, nested windows
    for _ in range(40 if quick else 600):
        ks = [rnd.choice(KINDS), rnd.choice(KINDS), rnd.choice(KINDS)]
        pts = [cnt[(k, True)] for k in ks]
        for i in _grid(cnt[(ks[0], True)], 4 if quick else 6):
            for j in _grid(cnt[(ks[1], True)], 4 if quick else 6):
                yield dict(mode='sched', kinds=ks, trace=1, segs=[[0, i], [1, j], [2, -1], [1, -1], [0, -1]], pts=pts)
        i = rnd.randrange(1, max(2, cnt[(ks[0], True)]))
        j = rnd.randrange(1, max(2, cnt[(ks[1], True)]))
        k = rnd.randrange(1, max(2, cnt[(ks[2], True)]))
        yield dict(mode='sched', kinds=ks, trace=1, segs=[[0, i], [1, j], [2, k], [0, -1], [1, -1], [2, -1]], pts=pts)
        yield dict(mode='sched', kinds=ks, trace=1, segs=[[0, i], [1, j], [2, k], [1, j // 2 + 1], [0, i // 2 + 1], [2, -1], [0, -1]],
                   pts=pts)
    # S5: free race
    for r in range(6 if quick else 40):
        yield dict(mode='stress', kinds=[rnd.choice(KINDS) for _ in range(3)], rounds=30 if quick else 200, r=r)


# ---------------------------------------------------------------------------------------------
# execution
# ---------------------------------------------------------------------------------------------
_REF = {}


def _reference(kind, rid):
    """The request served alone by a fresh application on a new thread.  Memoised per process: it is a function of
    (kind, rid) only (a fresh application and a fresh thread every time it is computed)."""
    if (kind, rid) not in _REF:
        _REF[(kind, rid)] = _reference_uncached(kind, rid)
    return _REF[(kind, rid)]


def _reference_uncached(kind, rid):
    ctx = Ctx(None)
    app = make_app(ctx)
    done, res, exc = tc.run_alone(lambda: serve_one(app, ctx, kind, rid))
    if not done:
        return None, None
    if exc is not None:
        raise exc
    return res, ctx.seen[rid]


def _compare(kinds, got, seen, where):
    for tid, kind in enumerate(kinds):
        rid = _RIDS[tid]
        ref, ref_seen = _reference(kind, rid)
        if ref is None:
            return fail('harness.timeout', where='reference')
        if got[tid] != ref:
            d = {k: dict(alone=ref[k], concurrent=got[tid][k]) for k in ref if ref[k] != got[tid][k]}
            return fail('Q1.response_differs_from_alone', thread=tid, kind=kind, rid=rid, differs=sorted(d), diff=d, **where)
        mine = seen.get(rid)
        if mine != ref_seen:
            d = _first_view_diff(ref_seen, mine)
            return fail('Q2.view_differs_from_alone', thread=tid, kind=kind, rid=rid, diff=d, **where)
    return None


def _first_view_diff(ref, mine):
    if mine is None or len(ref) != len(mine):
        return dict(observations_alone=[t for t, _ in ref], observations_concurrent=[t for t, _ in (mine or [])])
    for (t1, v1), (t2, v2) in zip(ref, mine):
        if t1 != t2:
            return dict(tag_alone=t1, tag_concurrent=t2)
        if v1 != v2:
            return dict(at=t1, fields={k: dict(alone=v1[k], concurrent=v2.get(k)) for k in v1 if v1[k] != v2.get(k)})
    return None


def _fresh_process_state():
    """put the process-wide lazily initialised state of the package back to what a fresh process has (the error page
    template cache), so that interleavings of the FIRST requests of a process are among the schedules explored"""
    try:
        import ombott.error_render as er
        del er._html_lns[:]
    except Exception:
        pass


def run_case(case):
    kinds = case['kinds']
    n = len(kinds)
    _fresh_process_state()
    if case['mode'] == 'stress':
        return _run_stress(case)
    prefix = tc.ombott_dir() if case['trace'] else None
    sched = tc.Sched(n, case['segs'], trace_prefix=prefix)
    ctx = Ctx(sched)
    app = make_app(ctx)
    fns = [(lambda tid=tid: serve_one(app, ctx, kinds[tid], _RIDS[tid])) for tid in range(n)]
    results = sched.run(fns)
    if sched.broken or not all(r[0] for r in results):
        return fail('harness.timeout', detail=sched.broken, finished=[r[0] for r in results])
    for _done, _res, exc in results:
        if exc is not None:
            raise exc
    got = [r[1] for r in results]
    return _compare(kinds, got, ctx.seen, dict(switches=[list(s) for s in sched.switches]))


def _run_stress(case):
    kinds = case['kinds']
    n = len(kinds)
    old = sys.getswitchinterval()
    sys.setswitchinterval(1e-6)
    try:
        for rnd in range(case['rounds']):
            ctx = Ctx(None)
            app = make_app(ctx)
            sched = tc.Sched(n, [], free=True)
            fns = [(lambda tid=tid: serve_one(app, ctx, kinds[tid], _RIDS[tid])) for tid in range(n)]
            results = sched.run(fns)
            if sched.broken or not all(r[0] for r in results):
                return fail('harness.timeout', detail=sched.broken)
            for _done, _res, exc in results:
                if exc is not None:
                    raise exc
            sys.setswitchinterval(old)
            f = _compare(kinds, [r[1] for r in results], ctx.seen, dict(round=rnd))
            sys.setswitchinterval(1e-6)
            if f is not None:
                return f
        return None
    finally:
        sys.setswitchinterval(old)


# No defect class of the unchanged tree is known to violate this contract: the shared-store defect D10 (C10) needs a
# second Request/Response instance to be initialised while a request is served, which never happens here.
FINDINGS = {}
