"""C01 bounded contract check: route resolution equals the plain rule-by-rule semantics.

Contract (from the statement of C01; oracle = /verif/spec/route_spec.py, which never parses rule text and
never imports ombott).  A case registers an ORDERED list of rules (each in one syntax flavour, under one
method) on a fresh `ombott.Ombott()` and then asks for many request paths x every registered verb:

  K0.register   a valid rule that collides with nothing already registered is accepted
                (tolerated refusals: wildcards with different filters at one pattern position - the statement
                 does not order such rules -, and the `<x:int>` / `{x.int()}` filter-identity clash);
  K1.*          `RadiRouter.resolve(path, candidate methods)` of the real router:
     K1.not_found   answers 404 although a registered rule matches the whole path
     K1.spurious    selects a route / answers 405 although no registered rule matches
     K1.route       selects another route than the rule-by-rule matcher (literal beats wildcard at the first
                    position where the matching candidates differ)
     K1.kwargs      right handler, but its keyword arguments are not exactly the named wildcards of the rule
                    the handler was registered under, bound to the converted text (type-strict)
     K1.exception   resolve raised
  K2.*          the same four outcomes observed through `Ombott.__call__` (handler really called with **kwargs).

When the selected route has no handler for the verb the statement is silent: every answer except 404 and
except a handler call is accepted.
"""
import itertools
import random
import re

from spec import route_spec as S
from bounded.cases import _router_common as C
from bounded.common import fail

R, W = C.R, C.W

BOUND = ('[in every case a route hook spelled with other wildcard names is installed on the first wildcard rule, and taken away again in half of the cases] '
         'ordered rule lists (registration order matters for the tree): every rule of the exhaustive segment universe '
         '(17 segment forms: literals a/ab/b, :x, anonymous, int, anonymous int, float, re([ab]+), re(a*), path, a<x>, a<x>b, '
         '<x>b, <n:int><x>, a<n>-<m>, <p:path>b; <=3 segments; the 3-segment ones in quick with one flavour and fewer '
         'paths) and of the 68-rule hand pool as a singleton in each of the 3 syntax flavours; every ordered pair of the '
         'pool (quick: of a 40-rule core); unusual wildcard NAMES (19 names that start with anon / anon_ / _ or end in '
         'digits, e.g. anon_id, anon_0, anon, _, _0, Anon_x) in 20 rule shapes (plain, in-segment, int, float, re, '
         'path, two such names, next to anonymous wildcards) as singletons in each flavour, and 6 rule lists with '
         'such names (shared prefixes, literal-vs-wildcard, several rules on one pattern) in their orders of '
         'registration; a path wildcard directly before literal text with regular-expression metacharacters (27 '
         'literals such as (d) [1] |raw .d a. . a+ a* ?x $ ^a a\\d with ( ) [ ] | . + * ? $ ^ backslash) in 10 rule '
         'shapes (final, before /<x>, directly before <x> / <n:int> / another path wildcard, inside longer literal '
         'text, behind another wildcard) as singletons in each flavour and in 56 rule lists (with a catch-all path '
         'rule, several such rules side by side) in 2..4 orders, asked with the full product of: path-wildcard values '
         '(plain, with /, the literal itself, text containing the literal, decoys = texts the literal would match if it '
         'were read as a regular expression) x values of the later wildcards incl. decoys, plus near misses of the '
         'literal; every ordered 3-subset (thorough: 4-subset) and some full orders of 9 '
         'prefix-sharing families of 8 rules (literal splits, literal-vs-wildcard backtracking, in-segment wildcards, int, '
         'float, re, empty-matching re, path, several rules on one pattern with different names/methods); 2500 '
         '(thorough 60000) seeded random lists of 2..4 (thorough 2..6) rules; x request paths: all strings of length '
         '<=3 (thorough <=4; singles <=4), <=5 quick / <=6 thorough on 8 deep rule lists in both orders, over '
         "{a,b,/,1,-,.,e-acute,CR} behind a leading '/', plus rule-guided paths (each wildcard filled from a value "
         'pool incl. empty, CR, non-ASCII, signs, dots; then perturbed), plus numerals of 4300/4301 digits in numeric '
         'wildcards; x every verb registered in the list; resolve-level always, through Ombott.__call__ for guided '
         'paths and paths of length <=3 on all singles and a fixed fraction of the other lists')
NONTRIVIAL_RULE = ('distinct (ordered rule list with flavours and methods, path source); non-trivial = the list has a '
                   'wildcard or at least two rules; one case checks 50..5000 (path, verb) requests')

METHODS = ('GET', 'POST', 'PUT', 'DELETE', 'PATCH', 'OPTIONS')


def exhaustive(tier):
    return False          # the random part is sampled; the enumerated parts are exhaustive below the stated bound


def nontrivial(case):
    rules = case['rules']
    return len(rules) > 1 or any(C.rule_has_wildcard(r[0]) for r in rules)


# ----------------------------------------------------------------------------- rule families
def families():
    x, y = W('x'), W('y')
    n, m = W('n', 'int'), W('m', 'int')
    f = W('f', 'float')
    r1 = W('r', 're', '[ab]+')
    r0 = W('r', 're', 'a*')
    p = W('p', 'path')
    return [
        # literal splits / merges
        [R('/a'), R('/ab'), R('/abb'), R('/a/b'), R('/ab/a'), R('/b'), R('/a/b/a'), R('/')],
        # literal first, wildcard on backtracking
        [R('/a/b'), R('/a/', x), R('/', x, '/b'), R('/', x, '/', y), R('/a/', x, '/b'), R('/', x), R('/a/', x, '/a'),
         R('/a/b/a')],
        # wildcards inside a segment
        [R('/a', x), R('/a', x, 'b'), R('/ab'), R('/a/b', x), R('/a', x, '/b'), R('/', x), R('/a'), R('/abb')],
        # int
        [R('/', n), R('/a/', n), R('/a/', n, '/b'), R('/a', n, 'b'), R('/a-', n), R('/', n, '-', m), R('/a/1'),
         R('/a', n)],
        # float / adjacent wildcards
        [R('/a/', f), R('/b/', f, '/', n), R('/a/1'), R('/a/1.1'), R('/a/', f, '/b'), R('/b/', f), R('/a/', f, x),
         R('/a/-')],
        # re
        [R('/', r1), R('/', r1, '1'), R('/', r1, '-', y), R('/a/', r1, '/b'), R('/a/b'), R('/ab'), R('/a/', r1),
         R('/', r1, '/', x)],
        # re that may match the empty text, path
        [R('/', r0, 'b'), R('/', r0, '/b'), R('/a/', p), R('/ab'), R('/b'), R('/a/b/a'), R('/a/a'), R('/', r0, '/', p)],
        # path before a literal
        [R('/', p, '/b'), R('/a/b'), R('/a/', x, '/', y), R('/a'), R('/', p, '/b/', x), R('/b'), R('/a/b/b'), R('/ab/b')],
        # several rules on one pattern
        [R('/a/', x), R('/a/', y), R('/a/', W(None)), R('/a/', x, '/b'), R('/a/', y, '/b'), R('/a/b'), R('/', y, '/', x),
         R('/', x, '/', y)],
    ]


DEEP = None


def deep_lists():
    x, y = W('x'), W('y')
    n = W('n', 'int')
    f = W('f', 'float')
    r1 = W('r', 're', '[ab]+')
    r0 = W('r', 're', 'a*')
    p = W('p', 'path')
    return [
        [R('/a/b'), R('/a/', x), R('/', x, '/b'), R('/', x, '/', y)],
        [R('/ab'), R('/a', x), R('/a', y, 'b'), R('/', x)],
        [R('/', n), R('/a/', n), R('/', n, '-', W('m', 'int')), R('/a', W('k', 'int'), 'b')],
        [R('/', f), R('/a/', f), R('/1'), R('/a/1.1')],
        [R('/', r1), R('/', r1, '1'), R('/a/', r1, '/b'), R('/', r1, '/', x)],
        [R('/', r0, 'b'), R('/', r0, '/', x), R('/b/', p)],
        [R('/', p, '/b'), R('/a/b'), R('/a/', x, '/', y)],
        [R('/a/', x), R('/a/', y), R('/a/', x, '/b'), R('/a/', W('z'), '/b'), R('/a/b')],
    ]


# ----------------------------------------------------------------------------- unusual wildcard names
# "The handler is called with exactly the named wildcards of the rule it was registered under": EVERY name the rule
# spells is a named wildcard, also one that looks like a name a router might use internally for anonymous wildcards
# ('anon...', '_...', trailing digits).  The spec module's generator guard (S.valid_rule) keeps such names out of the
# shared pools, so these rules are built here and rendered through placeholders (the matching oracle S.match / S.select
# never looks at the spelling of a name).
ODD_NAMES = ('anon', 'anon_', 'anon_id', 'anon0', 'anon_0', 'anon_1', 'anon_x', 'anon__x', 'anonymous', 'anon_anon',
             'Anon_x', 'ANON_0', '_', '_x', '__', '_0', '_anon_0', 'x_anon_', 'anon1x')


def _alias(rule):
    """The same rule with every wildcard name replaced by a placeholder the spec renderer accepts."""
    out, back = [], {}
    for seg in rule:
        if S.is_lit(seg) or seg[1] is None:
            out.append(seg)
        else:
            ph = 'Zq%dqZ' % len(back)
            back[ph] = seg[1]
            out.append([seg[0], ph] + list(seg[2:]))
    return out, back


_LIT_ALIAS = {'(': '\ue001', ')': '\ue002', '*': '\ue003'}       # literal characters S.valid_rule keeps out of the pools


def render(rule, flavour):
    """S.render, also for wildcard names the spec generator guard refuses (names starting with 'anon') and for
    literal text with characters it refuses ('(' ')' '*': rendered through private-use placeholders)."""
    if any(S.is_lit(seg) and set(seg[1]) & set(_LIT_ALIAS) for seg in rule):
        fwd = str.maketrans(_LIT_ALIAS)
        back = str.maketrans({v: k for k, v in _LIT_ALIAS.items()})
        assert not any(ph in str(seg) for seg in rule for ph in _LIT_ALIAS.values())
        aliased = [[seg[0], seg[1].translate(fwd)] if S.is_lit(seg) else seg for seg in rule]
        return render(aliased, flavour).translate(back)
    if not any(not S.is_lit(seg) and seg[1] is not None and seg[1].startswith('anon') for seg in rule):
        return S.render(rule, flavour)
    aliased, back = _alias(rule)
    text = S.render(aliased, flavour)
    assert not any(ph in lit for ph in back for lit in S.literals(rule))
    for ph, name in back.items():
        assert text.count(ph) == 1, (text, ph)
        text = text.replace(ph, name)
    return text


def _odd_ok(rule):
    names = [seg[1] for seg in rule if not S.is_lit(seg) and seg[1] is not None]
    return (S.valid_rule(_alias(rule)[0]) and len(set(names)) == len(names)
            and all(re.fullmatch(r'[a-zA-Z_][a-zA-Z0-9_]*', nm) for nm in names))


def odd_name_rules(name, other):
    """Rule shapes (every flavour can spell the name in each of them) around the wildcard name `name`;
    `other` is a second unusual name for the two-wildcard shapes."""
    N = lambda filt=None, arg=None: W(name, filt, arg)      # noqa: E731
    O = lambda filt=None, arg=None: W(other, filt, arg)     # noqa: E731
    L = S.Lit
    rules = [
        [L('/'), N()], [L('/a/'), N()], [L('/a/'), N(), L('/b')], [L('/'), N(), L('/'), W('y')],
        [L('/'), W('x'), L('/'), N()], [L('/'), N(), L('/'), O()], [L('/a'), N()], [L('/a'), N(), L('b')],
        [L('/a/'), N('int')], [L('/a'), N('int'), L('b')], [L('/'), N('int'), L('-'), O('int')],
        [L('/'), N('float')], [L('/a/'), N('re', '[ab]+')], [L('/'), N('re', 'a*'), L('b')],
        [L('/a/'), N('path')], [L('/'), N('path'), L('/b')],
        # anonymous and unusually named wildcards in one rule: only the anonymous ones are dropped
        [L('/a/'), W(None, 'int'), L('/'), N()], [L('/'), N('int'), L('/'), W(None, 'int')],
        [L('/'), N(), L('/'), W(None)], [L('/'), W(None, 're', '[ab]+'), L('-'), N('int'), L('/'), O()],
    ]
    assert all(_odd_ok(r) for r in rules), name
    return rules


def odd_name_lists():
    """Rule lists (prefix sharing, literal-vs-wildcard, several rules on one pattern) with unusual names."""
    L = S.Lit
    a_id, a0, a1, us = W('anon_id', 'int'), W('anon_0'), W('anon_1'), W('_')
    lists = [
        [[L('/a/'), a_id], [L('/a/'), a_id, L('/b')], [L('/a/1')]],
        [[L('/a/b')], [L('/a/'), a0], [L('/'), a0, L('/b')], [L('/'), a0, L('/'), a1]],
        [[L('/a/'), W(None, 'int'), L('/'), a0], [L('/a/'), W('anon_0', 'int')], [L('/a/'), W(None, 'int'), L('/b')]],
        [[L('/a/'), a0], [L('/a/'), W('x')], [L('/a/'), W(None)], [L('/a/'), us]],
        [[L('/a/'), W('x')], [L('/a/'), a0], [L('/a/'), us, L('/b')], [L('/b/'), W('anon', 'path'), L('/a')]],
        [[L('/'), W('anon', 'int'), L('-'), W('anon_', 'int')], [L('/'), W('anon0', 'int')], [L('/1-1')]],
    ]
    assert all(_odd_ok(r) for lst in lists for r in lst)
    return lists


# ----------------------------------------------------------------------------- path wildcard before literal text with
# characters that mean something in a regular expression.  "The literal text after a path wildcard is plain text of the
# rule": the wildcard takes everything up to the last occurrence of exactly that text (S._take: rfind).  Each literal
# comes with DECOYS: texts that are NOT the literal but that the literal, read as a regular expression, would match.
META_LITS = {
    '(d)': ['d'], '(disambiguation)': ['disambiguation'], '(': [], ')': [], ')x(': [],
    '[1]': ['1'], '[ab]': ['a', 'b'], '[': [], ']': [],
    '|raw': ['raw', ''], 'a|b': ['a', 'b'],
    '.d': ['xd', '-d', '/d'], 'a.': ['ab', 'a-', 'a/'], '.': ['x', '-'], '..': ['xy', 'a.'],
    '+x': ['x'], 'a+': ['a', 'aa'], '*x': ['x'], 'a*': ['a', 'aa', ''], '?x': ['x'], 'a?': ['a', ''],
    '$': [''], 'a$': ['a'], '^a': ['a'], 'a\\d': ['a1', 'a7'], '\\': [], 'a.b+': ['axb', 'a.bb'],
}


def meta_rules(lit):
    """Rule shapes with a path wildcard directly before literal text that contains `lit`."""
    L = S.Lit
    t, q, x, n = W('t', 'path'), W('q', 'path'), W('x'), W('n', 'int')
    rules = [
        [L('/w/'), t, L(lit)], [L('/'), t, L(lit)], [L('/w/'), t, L(lit + '/'), x], [L('/w/'), t, L(lit), x],
        [L('/w/'), t, L(lit + '/'), n], [L('/w/'), t, L(lit + '/'), q], [L('/w/'), t, L('a' + lit + 'b')],
        [L('/w/'), t, L(lit), n, L('/b')], [L('/a/'), x, L('/'), t, L(lit)], [L('/w/'), t, L(lit), q],
    ]
    for r in rules:
        assert S.valid_rule([[sg[0], sg[1].translate(str.maketrans(_LIT_ALIAS))] if S.is_lit(sg) else sg for sg in r]), r
    return rules


def meta_lists():
    """Rule lists: rules with such literals next to each other and next to a catch-all (where a path that the
    literal rule should take would otherwise go)."""
    L = S.Lit
    t = W('t', 'path')
    any_ = [L('/'), W('anything', 'path')]
    lists = [[[L('/w/'), t, L(lit)], any_] for lit in META_LITS]
    lists += [[[L('/w/'), t, L(lit + '/'), W('x')], any_] for lit in META_LITS]
    lists.append([[L('/wiki/'), W('title', 'path'), L('(disambiguation)')], [L('/item/'), W('key', 'path'), L('[1]')],
                  [L('/dl/'), W('dir', 'path'), L('.d/'), W('file', 'path')], [L('/alt/'), W('a', 'path'), L('|raw')],
                  [L('/plain/'), W('p', 'path'), L('/end')], any_])
    lists.append([[L('/w/x/'), t, L('a+')], [L('/w/y/'), t, L('a*b')], [L('/w/z/'), t, L('?')], [L('/w/'), W('k', 'int'), L('/'), t, L('$')]])
    return lists


def meta_paths(rule):
    """Request paths for a rule of meta_rules / meta_lists: the path wildcard holds plain text, text with '/', the
    following literal itself, a decoy; the literal is followed by a decoy (so that the LAST place where the literal
    read as a regular expression would match is not the last place where the literal stands)."""
    lits = [seg[1] for seg in rule if S.is_lit(seg)]
    decoys = []
    for m, ds in META_LITS.items():
        if any(m in text for text in lits):
            decoys += [d for d in ds if d not in decoys]
    choices = []
    for k, seg in enumerate(rule):
        if S.is_lit(seg):
            choices.append([seg[1]])
            continue
        nxt = rule[k + 1][1] if k + 1 < len(rule) else ''
        if seg[2] == 'path' and nxt:
            vals = ['a', 'a/b', 'Mercury', '\xe9', '', nxt, 'a' + nxt + 'b', nxt + 'a'] + decoys[:3]
        elif seg[2] == 'path':
            vals = ['b', 'c/d'] + decoys + [d + '/c' for d in decoys[:3]]
        elif seg[2] == 'int':
            vals = ['1', '-2', 'a']
        else:
            vals = ['b', 'xx', ''] + [d for d in decoys if '/' not in d]
        choices.append(list(dict.fromkeys(vals)))
    out = [''.join(tup) for tup in itertools.product(*choices)]
    # near misses: the literal's special characters dropped / the literal cut short
    for pth in list(out[:40]):
        for m in META_LITS:
            if m in pth and len(m) > 1:
                out.append(pth.replace(m, m[1:], 1))
                out.append(pth.replace(m, m[:-1], 1))
    return [pth for pth in dict.fromkeys(out) if '\n' not in pth]


# ----------------------------------------------------------------------------- case generation
def _methods_for(rules, rnd=None):
    """One method per rule: GET unless an earlier rule has the same pattern (then the next free verb)."""
    out = []
    for k, rule in enumerate(rules):
        used = {out[j] for j in range(k) if S.same_route(rule, rules[j])}
        pick = 'GET'
        if rnd is not None and rnd.random() < 0.25:
            pick = rnd.choice(METHODS[:3])
        if pick in used:
            pick = next(mth for mth in METHODS if mth not in used)
        out.append(pick)
    return out


def _case(rules, flavours, src, app=0, methods=None, rnd=None):
    methods = methods or _methods_for(rules, rnd)
    return dict(rules=[[r, fl, mth] for r, fl, mth in zip(rules, flavours, methods)], paths=src, app=app)


def gen_cases(tier, seed):
    quick = tier == 'quick'
    pool = C.rule_pool()
    fl_cycle = S.FLAVOURS

    # A. singletons: exhaustive universe + pool, every flavour (deduplicated by rule text)
    uni = C.universe_rules(2 if quick else 3)
    k = 0
    for rule in pool + uni:
        seen_text = set()
        for fl in S.FLAVOURS:
            text = S.render(rule, fl)
            if text in seen_text:
                continue
            seen_text.add(text)
            k += 1
            yield _case([rule], [fl], [['guided', k, 60], ['all', 3, 0, 1]], app=1)
            if not quick or k % 4 == 0:
                yield _case([rule], [fl], [['all', 4, 0, 1]])

    if quick:       # three-segment universe: one flavour each (rotating), guided paths and all paths of length <= 2
        for rule in C.universe_rules(3):
            if sum(seg[1].count('/') for seg in rule if S.is_lit(seg)) < 3 or not C.rule_has_wildcard(rule):
                continue
            k += 1
            yield _case([rule], [S.FLAVOURS[k % 3]], [['guided', k, 40], ['all', 2, 0, 1]], app=1 if k % 8 == 0 else 0)

    # A3. unusual wildcard names ('anon...', '_...'): every name x 20 rule shapes x every flavour as a singleton,
    #     and 6 rule lists in every order of registration
    for i, name in enumerate(ODD_NAMES):
        other = ODD_NAMES[(i + 5) % len(ODD_NAMES)]
        for rule in odd_name_rules(name, other):
            seen_text = set()
            for fl in S.FLAVOURS:
                text = render(rule, fl)
                if text in seen_text:
                    continue
                seen_text.add(text)
                k += 1
                yield _case([rule], [fl], [['guided', k, 30], ['all', 2 if quick else 3, 0, 1]], app=1)
    for lst in odd_name_lists():
        for j, order in enumerate(itertools.permutations(range(len(lst)))):
            if quick and len(lst) > 3 and j % 4:
                continue
            k += 1
            rules = [lst[i] for i in order]
            fls = [fl_cycle[(k + i) % 3] for i in range(len(rules))]
            yield _case(rules, fls, [['guided', k, 25], ['all', 3, 0, 1]], app=1 if k % 2 == 0 else 0)

    # A4. a path wildcard before literal text with regular-expression metacharacters: every literal of META_LITS x 10
    #     rule shapes x every flavour as a singleton; the rule lists of meta_lists in both / a few orders
    for lit in META_LITS:
        for rule in meta_rules(lit):
            seen_text = set()
            for fl in S.FLAVOURS:
                text = render(rule, fl)
                if text in seen_text:
                    continue
                seen_text.add(text)
                k += 1
                yield _case([rule], [fl], [['meta'], ['guided', k, 20]], app=1)
    for lst in meta_lists():
        orders = [list(range(len(lst))), list(range(len(lst)))[::-1]]
        if len(lst) > 2:
            orders += [orders[0][2:] + orders[0][:2], orders[0][1::2] + orders[0][0::2]]
        for order in orders:
            k += 1
            rules = [lst[i] for i in order]
            fls = [fl_cycle[(k + i) % 3] for i in range(len(rules))]
            yield _case(rules, fls, [['meta'], ['guided', k, 15]], app=k % 2)

    # B. ordered pairs of the pool
    core = pool if not quick else [r for i, r in enumerate(pool) if i % 5 != 4][:40]
    k = 0
    for a, b in itertools.permutations(range(len(core)), 2):
        k += 1
        fls = [fl_cycle[k % 3], fl_cycle[(k // 3) % 3]]
        src = [['guided', k, 25], ['all', 3, 0, 1]]
        yield _case([core[a], core[b]], fls, src, app=1 if k % 4 == 0 else 0)
        if not quick and k % 3 == 0:
            yield _case([core[a], core[b]], fls, [['all', 4, 0, 1]])

    # C. ordered subsets of the families
    size = 3 if quick else 4
    k = 0
    for fam in families():
        for combo in itertools.permutations(range(len(fam)), size):
            k += 1
            rules = [fam[i] for i in combo]
            fls = [fl_cycle[(k + j * (1 + k // 3)) % 3] for j in range(size)]
            src = [['guided', k, 20], ['all', 3 if quick else 4, 0, 1]]
            yield _case(rules, fls, src, app=1 if k % 16 == 0 else 0)
        # the whole family, a few orders
        rnd = random.Random(seed * 7919 + len(fam[0]) + k)
        for _ in range(6 if quick else 60):
            order = list(range(len(fam)))
            rnd.shuffle(order)
            rules = [fam[i] for i in order]
            yield _case(rules, [rnd.choice(S.FLAVOURS) for _ in rules], [['guided', rnd.randrange(10 ** 6), 25],
                                                                         ['all', 3 if quick else 4, 0, 1]], app=1)

    # D. deep path spaces on a few lists
    deep = 5 if quick else 6
    parts = 16 if quick else 128
    for d, rules in enumerate(deep_lists()):
        for fl in (S.FLAVOURS if not quick else (S.FLAVOURS[d % 3],)):
            for part in range(parts):
                yield _case(rules, [fl] * len(rules), [['all', deep, part, parts]])
        rev = rules[::-1]
        for part in range(parts):
            yield _case(rev, [S.FLAVOURS[(d + 1) % 3]] * len(rev), [['all', deep, part, parts]])

    # D2. numerals beyond the interpreter's int() digit limit in numeric wildcards
    n, f = W('n', 'int'), W('f', 'float')
    for rules in ([R('/a/', n)], [R('/a/', n, '/b'), R('/', W('x'), '/', W('y'), '/b')], [R('/a/', f)], [R('/a', n, '-', W('m', 'int'))]):
        for digits in (4300, 4301):
            yield _case(rules, ['angle'] * len(rules), [['longnum', digits]], app=1)

    # E. seeded random lists
    rnd = random.Random(seed)
    big = pool + uni
    for _ in range(2500 if quick else 60000):
        nr = rnd.choice([2, 3, 3, 4] if quick else [2, 3, 4, 4, 5, 6])
        rules = []
        for _k in range(nr):
            q = rnd.random()
            if q < 0.5:
                rules.append(rnd.choice(pool))
            elif q < 0.8:
                rules.append(rnd.choice(big))
            else:
                rules.append(C.random_rule(rnd))
        fls = [rnd.choice(S.FLAVOURS) for _k in rules]
        src = [['guided', rnd.randrange(10 ** 6), 30]]
        if rnd.random() < 0.3:
            src.append(['all', 3, 0, 1])
        yield _case(rules, fls, src, app=1 if rnd.random() < 0.3 else 0, rnd=rnd)


# ----------------------------------------------------------------------------- running
def _paths(case):
    rules = [r[0] for r in case['rules']]
    for src in case['paths']:
        kind = src[0]
        if kind == 'all':
            for pth in C.all_paths(src[1], src[2], src[3]):
                yield pth, src[1] <= 3
        elif kind == 'guided':
            rnd = random.Random(src[1])
            for rule in rules:
                for pth in C.guided_paths(rule, rnd, src[2]):
                    yield pth, True
        elif kind == 'list':
            for pth in src[1]:
                yield pth, True
        elif kind == 'meta':
            for rule in rules:
                for pth in meta_paths(rule):
                    yield pth, True
        elif kind == 'longnum':
            # numerals of src[1] digits in every numeric wildcard (the interpreter's int() refuses > 4300 digits)
            for rule in rules:
                fill = {'int': '7' * src[1], 'float': '7' * src[1] + '.5'}
                yield ''.join(seg[1] if S.is_lit(seg) else fill.get(seg[2], 'a') for seg in rule), True
                yield ''.join(seg[1] if S.is_lit(seg) else '-' + fill.get(seg[2], 'a') for seg in rule), True
        else:
            raise AssertionError(kind)


def _expected(outcomes, verb, methods, index):
    """Acceptable answers: ('404',) | ('ok', original rule index, params, group, match) | ('405',)."""
    if not outcomes:
        return [('404',)]
    acc = []
    for group in outcomes:
        own = [(idx, m) for idx, m in group if methods[idx] == verb]
        if own:
            idx, m = own[0]
            acc.append(('ok', index[idx], m['params'], group, m))
        else:
            acc.append(('405',))
    return acc


def _marker_scans(rule, path):
    """Model of defect D11 (only used to LABEL failures): value lists of the complete scans of `rule` over `path`
    in which at least one CR standing where a wildcard begins was eaten as one character without recording
    a value (every other step as in the reference scan)."""
    p = S.norm(path)
    found = []

    def go(k, i, values, used, first):
        if k == len(rule):
            if i == len(p) and used:
                found.append(values)
            return
        seg = rule[k]
        if S.is_lit(seg):
            text = seg[1][1:] if first else seg[1]
            if p[i:i + len(text)] == text:
                go(k + 1, i + len(text), values, used, False)
            return
        if i >= len(p):
            return
        if p[i] == '\r':
            go(k + 1, i + 1, values, True, False)
        nxt = rule[k + 1][1] if k + 1 < len(rule) else ''
        got = S._take(seg, nxt, p[i:])
        if got is not None:
            go(k + 1, i + len(got[0]), values + [got[1]], used, False)
    go(0, 0, [], False, True)
    return found


def _diagnose(regs, index, methods, path, obs, extra):
    """Facts about the failing input the FINDINGS recognisers look at (computed on failure only)."""
    p = S.norm(path)
    extra['cr_at_wildcard_start'] = any(p[i] == '\r' for r in regs for i in S.wildcard_starts(r, path))
    explained = False
    if extra['cr_at_wildcard_start'] and obs[0] == 'ok' and obs[1] in index:
        own = regs[index.index(obs[1])]
        mates = [r for r in regs if S.same_route(r, own)]
        for values in _marker_scans(own, path):
            for mate in mates:
                alt = {nm: v for nm, v in zip(S.wild_names(mate), values) if nm is not None}
                if C.same_params(obs[2], alt):
                    explained = True
    if extra['cr_at_wildcard_start'] and obs[0] == '405':
        for r in regs:
            allow = sorted({methods[k] for k, mate in enumerate(regs) if S.same_route(mate, r)})
            if allow == list(obs[1]) and _marker_scans(r, path):
                explained = True
    extra['explained_by_cr_eaten_as_marker'] = explained
    return extra


def _safe(v):
    """Failure records are dumped as JSON: very large integers cannot be printed by the interpreter."""
    if isinstance(v, int) and not isinstance(v, bool) and v.bit_length() > 400:
        return 'int of %d bits' % v.bit_length()
    if isinstance(v, dict):
        return {k: _safe(x) for k, x in v.items()}
    if isinstance(v, (list, tuple)):
        return [_safe(x) for x in v]
    if isinstance(v, str) and len(v) > 400:
        return v[:200] + '...(%d characters)' % len(v)
    return v


def _compare(level, obs, acc, regs, index, methods, path, verb):
    def out(clause, **kw):
        kw = _diagnose(regs, index, methods, path, obs, kw)
        exp = [a[:3] if a[0] == 'ok' else a for a in acc]
        shown = path if len(path) <= 200 else path[:60] + '...(%d characters)...' % len(path) + path[-20:]
        return fail(level + '.' + clause, path=shown, verb=verb, expected=_safe(exp), observed=_safe(list(obs)), **kw)
    if obs[0] == 'exc':
        return out('exception')
    if acc == [('404',)]:
        return None if obs == ('404',) else out('spurious')
    if obs == ('404',):
        return out('not_found')
    kwargs_failure = None
    for a in acc:
        if a[0] == '405':
            if obs[0] == '405':
                return None
            continue
        if obs[0] == 'ok' and obs[1] == a[1]:
            if C.same_params(obs[2], a[2]):
                return None
            # right handler, wrong keyword arguments: do they carry the names of the rule registered first on the pattern?
            sibling = None
            first = min(idx for idx, _m in a[3])
            if index[first] != a[1]:
                alt = {nm: v for nm, v in zip(S.wild_names(regs[first]), a[4]['values']) if nm is not None}
                if C.same_params(obs[2], alt):
                    sibling = index[first]
            kwargs_failure = dict(names_of_rule=sibling)
    if kwargs_failure is not None:
        return out('kwargs', **kwargs_failure)
    return out('route')


def _known(failure):
    return any(pred(None, failure) for pred in FINDINGS.values())


def run_case(case):
    import ombott
    app = ombott.Ombott()
    router = app.router
    log = []
    rules = case['rules']
    reg = []                      # indices (into case['rules']) of the rules the router holds
    hooked = False
    for idx, (segs, fl, meth) in enumerate(rules):
        text = render(segs, fl)
        try:
            app.route(text, method=meth, callback=C.make_handler(idx, log))
        except Exception as e:  # noqa
            tolerated = any(S.filter_conflict(segs, rules[j][0]) or C.cross_flavour_clash(segs, fl, rules[j][0], rules[j][1])
                            or (S.same_route(segs, rules[j][0]) and rules[j][2] == meth) for j in reg)
            if tolerated:
                continue
            return fail('K0.register', rule=text, method=meth, registered=[render(rules[j][0], rules[j][1]) for j in reg],
                        error='%s: %s' % (type(e).__name__, str(e)[:200]))
        reg.append(idx)
        if not hooked and any(not S.is_lit(sg) for sg in segs):
            # a route hook on the shape of this rule, spelled with OTHER wildcard names: hooks must not change which route is
            # selected nor the names and values the handler receives (installed once, right after the first wildcard rule)
            hooked = True
            renamed = [sg if S.is_lit(sg) else [sg[0], (None if sg[1] is None else 'hk' + str(sg[1]))] + list(sg[2:]) for sg in segs]
            try:
                app.on_route(render(renamed, fl), lambda p: None)
                if (len(rules) + idx) % 2 == 1:
                    # ... and in half of the cases taken away again: removing a hook must leave the route, its wildcard names and
                    # its filters as they were
                    app.remove_route_hook(render(renamed, fl))
            except Exception:  # noqa - a refused hook changes nothing
                pass
        # lookups interleaved with registration: whatever a lookup leaves behind (e.g. a cache) must not change later answers
        for k, (wpath, _small) in enumerate(_paths(case)):
            if k >= 12:
                break
            C.observe_resolve(router, wpath, meth)
    regs = [rules[i][0] for i in reg]
    methods = [rules[i][2] for i in reg]
    toks = [S.tokens(r) for r in regs]
    verbs = sorted(set(methods))
    with_app = case.get('app')
    first_known = None
    done = set()
    for path, small in _paths(case):
        if path in done:
            continue
        done.add(path)
        outcomes = S.select(regs, path, toks)
        for verb in verbs:
            acc = _expected(outcomes, verb, methods, reg)
            obs = C.observe_resolve(router, path, verb)
            failure = _compare('K1', obs, acc, regs, reg, methods, path, verb)
            if failure is None and with_app and small:
                obs = C.observe_app(app, log, path, verb)
                failure = _compare('K2', obs, acc, regs, reg, methods, path, verb)
            if failure is not None:
                # a failure of a known class must not hide a different one later in the same case
                if not _known(failure):
                    return failure
                if first_known is None:
                    first_known = failure
    if first_known is not None or len(reg) < 2:
        return first_known
    # ---- the statement speaks about "every set of registered rules": also a set reached by removing a rule again.
    # One registered rule (with every rule sharing its route) is removed by rule text and every path is asked again.
    victim = reg[len(reg) // 2]
    vsegs, vfl, _vm = rules[victim]
    try:
        app.remove_route(render(vsegs, vfl))
    except Exception as e:  # noqa
        return fail('K3.remove_raised', rule=render(vsegs, vfl), error='%s: %s' % (type(e).__name__, str(e)[:200]))
    reg2 = [i for i in reg if not S.same_route(rules[i][0], vsegs)]
    regs2 = [rules[i][0] for i in reg2]
    methods2 = [rules[i][2] for i in reg2]
    toks2 = [S.tokens(r) for r in regs2]
    for path in sorted(done):
        outcomes = S.select(regs2, path, toks2)
        for verb in verbs:
            acc = _expected(outcomes, verb, methods2, reg2)
            obs = C.observe_resolve(router, path, verb)
            failure = _compare('K3', obs, acc, regs2, reg2, methods2, path, verb)
            if failure is not None and not (failure.get('clause') == 'K3.kwargs' and failure.get('names_of_rule') is not None):
                failure['removed'] = render(vsegs, vfl)
                return failure
    return None


# ----------------------------------------------------------------------------- known defect classes
def _sibling_names(case, failure):
    """D12: several rules on one pattern - the handler receives the wildcard names of the rule that was
    registered first on the pattern instead of its own (the values are the right ones)."""
    return failure.get('clause') in ('K1.kwargs', 'K2.kwargs') and failure.get('names_of_rule') is not None


def _cr_marker(case, failure):
    """D11: a CR in the request path, sitting exactly where a wildcard of some registered rule begins, is
    consumed as the internal wildcard marker: a handler runs with the values of a scan that skipped that CR
    without recording a value for the wildcard."""
    return (failure.get('clause', '').split('.')[-1] in ('kwargs', 'route', 'spurious')
            and failure.get('cr_at_wildcard_start') is True and failure.get('explained_by_cr_eaten_as_marker') is True
            and not _sibling_names(case, failure))


def _int_digit_limit(case, failure):
    """An int wildcard fed a numeral longer than the interpreter's int() digit limit (4300): the conversion
    raises ValueError inside the lookup instead of the route being selected (a 500 through the application)."""
    return (failure.get('clause') in ('K1.exception', 'K2.exception')
            and 'integer string conversion' in str(failure.get('observed')))


FINDINGS = {
    'C01-int-filter-digit-limit-raises': _int_digit_limit,
    'C01-cr-consumed-as-wildcard-marker': _cr_marker,
    'C01-shared-pattern-first-rule-names': _sibling_names,
}
